// ---- assumed specifications of std functions used by the telemetry unit (trusted; DESIGN 2.5 item 3) ----

// `str::replace(from: char, to: &str)` replaces every occurrence of the character: a per-character flat map
// (std documentation: "Replaces all matches of a pattern with another string"; a char pattern matches exactly
// the positions holding that char, matches cannot overlap).
pub open spec fn repl(s: Seq<char>, from: char, to: Seq<char>) -> Seq<char>
    decreases s.len()
{
    if s.len() == 0 { seq![] } else { repl(s.drop_last(), from, to) + (if s.last() == from { to } else { seq![s.last()] }) }
}
pub uninterp spec fn pat_char<P>(p: P) -> char;
#[verifier::external_body]
pub broadcast proof fn ax_pat_char(c: char) ensures #[trigger] pat_char::<char>(c) == c {}
#[verifier::allow(undeclared_external_trait)]
pub assume_specification<P: core::str::pattern::Pattern> [str::replace::<P>] (s: &str, from: P, to: &str) -> (r: String)
    ensures r@ == repl(s@, pat_char(from), to@);

// `String::len` is the length in bytes of the UTF-8 encoding (vstd's own model of `str::len`); a String never
// holds more than isize::MAX bytes, so the value is exact.
pub open spec fn utf8_len(s: Seq<char>) -> nat { vstd::utf8::encode_utf8(s).len() }
pub assume_specification [String::len] (s: &String) -> (r: usize)
    ensures r == utf8_len(s@);

// ---- E11: transparent iterator newtype for `for _ in [0; 5]` (core::array::IntoIter has no vstd model) ----
#[verifier::external_body]
pub struct VxArrIter5(core::array::IntoIter<i32, 5>);
pub uninterp spec fn vx_arr_remaining(it: &VxArrIter5) -> Seq<i32>;
impl Iterator for VxArrIter5 {
    type Item = i32;
    #[verifier::external_body]
    fn next(&mut self) -> (r: Option<i32>) { self.0.next() }
}
impl vstd::std_specs::iter::IteratorSpecImpl for VxArrIter5 {
    open spec fn obeys_prophetic_iter_laws(&self) -> bool { true }
    open spec fn remaining(&self) -> Seq<i32> { vx_arr_remaining(self) }
    open spec fn will_return_none(&self) -> bool { true }
    open spec fn decrease(&self) -> Option<nat> { Some(vx_arr_remaining(self).len()) }
    open spec fn peek(&self, index: int) -> Option<i32> { if 0 <= index < vx_arr_remaining(self).len() { Some(vx_arr_remaining(self)[index]) } else { None } }
}

// ---- opaque std / dependency types met by the event reader (behaviour enters only through the specs below) ----
#[verifier::external_type_specification]
#[verifier::external_body]
pub struct ExPathBuf(std::path::PathBuf);
#[verifier::external_type_specification]
#[verifier::external_body]
pub struct ExPath(std::path::Path);
#[verifier::external_type_specification]
#[verifier::external_body]
pub struct ExIoError(std::io::Error);
#[verifier::external_type_specification]
#[verifier::external_body]
pub struct ExPathDisplay<'a>(std::path::Display<'a>);
#[verifier::external_type_specification]
#[verifier::external_body]
pub struct ExSerdeJsonError(serde_json::Error);

// `Path::display` only builds a Display adapter (no effect, cannot fail)
pub assume_specification<'a> [std::path::Path::display] (p: &'a std::path::Path) -> std::path::Display<'a>;

// Display of these values inside format! does not panic; the produced text is unconstrained (log lines only)
#[verifier::external_body]
pub broadcast proof fn axiom_fmt_path_display<'a>() ensures #[trigger] vstd::std_specs::fmt::fmt_req_all::<std::path::Display<'a>>() {}
#[verifier::external_body]
pub broadcast proof fn axiom_fmt_io_error() ensures #[trigger] vstd::std_specs::fmt::fmt_req_all::<std::io::Error>() {}
#[verifier::external_body]
pub broadcast proof fn axiom_fmt_error() ensures #[trigger] vstd::std_specs::fmt::fmt_req_all::<crate::common::error::Error>() {}
#[verifier::external_body]
pub broadcast proof fn axiom_fmt_shared_error() ensures #[trigger] vstd::std_specs::fmt::fmt_req_all::<crate::proxy_agent_shared::error::Error>() {}
pub broadcast group group_fmt_telemetry { axiom_fmt_path_display, axiom_fmt_io_error, axiom_fmt_error, axiom_fmt_shared_error }
