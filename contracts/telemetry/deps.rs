// ---- assumed specifications of std functions used by the telemetry unit (trusted; DESIGN 2.5 item 3) ----

// `str::replace(from: char, to: &str)` replaces every occurrence of the character: a per-character flat map
// (std documentation: "Replaces all matches of a pattern with another string"; a char pattern matches exactly
// the positions holding that char, matches cannot overlap).
pub open spec fn repl(s: Seq<char>, from: char, to: Seq<char>) -> Seq<char>
    decreases s.len()
{
    if s.len() == 0 { seq![] } else { repl(s.drop_last(), from, to) + (if s.last() == from { to } else { seq![s.last()] }) }
}
pub uninterp spec fn pat_char<P>(p: P) -> char;
#[verifier::external_body]
pub broadcast proof fn ax_pat_char(c: char) ensures #[trigger] pat_char::<char>(c) == c {}
#[verifier::allow(undeclared_external_trait)]
pub assume_specification<P: core::str::pattern::Pattern> [str::replace::<P>] (s: &str, from: P, to: &str) -> (r: String)
    ensures r@ == repl(s@, pat_char(from), to@);

// `String::len` is the length in bytes of the UTF-8 encoding (vstd's own model of `str::len`); a String never
// holds more than isize::MAX bytes, so the value is exact.
pub open spec fn utf8_len(s: Seq<char>) -> nat { vstd::utf8::encode_utf8(s).len() }
pub assume_specification [String::len] (s: &String) -> (r: usize)
    ensures r == utf8_len(s@);
