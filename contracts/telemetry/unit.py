# unit `telemetry` (C18): event_reader.rs send_events / send_data_to_wire_server / process_events_and_clean / clean_files,
# telemetry_event.rs TelemetryData::*, TelemetryEvent::to_xml_event, helpers.rs xml_escape
#
# Under contract (real bodies, verbatim): xml_escape; TelemetryData::{new,to_xml,get_size,add_event,remove_last_event,event_count};
#   TelemetryEvent::to_xml_event; EventReader::{clean_files,send_data_to_wire_server,send_events,process_events_and_clean}.
#   WireServerClient::send_telemetry_data (wire_server_client.rs) is under contract too (real body): the upload itself.
# Stubs (real signature, assumed contract): hyper_client::build_request (the request carries the given body: proved in unit sign),
#   TelemetryEvent::from_event_log (== tev_of), logger::write, logger::write_warning, misc_helpers::json_read_from_file (no contract).
# Ghost trace (E4): Trace{wire, posts, batches, attempts, last_ok, removed}; `wire` is written only by the redirect (E9) of
#   hyper_client::send_request (body bytes of the request + status of the host's response), `removed` only by the remove_file
#   redirect; posts/batches/attempts/last_ok are bookkeeping written by proof blocks: `posts` in send_telemetry_data, tied to
#   `wire` by that function's proved contract; batches/attempts/last_ok in send_data_to_wire_server, tied to `posts` by
#   Trace::wf (proved, not assumed).
import os
import re
HERE = os.path.dirname(os.path.abspath(__file__))
COMMON = os.path.join(os.path.dirname(HERE), "common")

ASSUMPTIONS = [
    "hyper_client::send_request is the write primitive of the upload (hyper plumbing, kept outside verus!{}); its awaited call in send_telemetry_data is redirected (E9+E4 vx_e9_send_request) to a stub that appends WirePost{body = every byte of the request's body, status = status code of the host's response, None when there is no response} to the ghost trace and touches nothing else; this is the only place where an upload enters the trace",
    "hyper_client::build_request (stub, real signature): when it returns Ok the request's body is exactly the given body (the clause @C04.build_request.body_sent_is_the_body_signed proved against its real body in unit sign); it may fail",
    "String::as_bytes is the UTF-8 encoding of the string (vstd::utf8::encode_utf8); http::StatusCode::is_success is 200 <= code <= 299 (http crate documentation); hyper::Response::status reads the response's status (contracts/common/http.rs)",
    "E9 in send_telemetry_data, no contract beyond the result type: `url.parse::<hyper::Uri>().map_err(closure)` (may fail), `Method::POST`; optional (not used by the pinned tree): the StatusCode constants have their documented codes, `==`/`!=` on StatusCode compare the numeric codes, as_u16 / is_informational / is_redirection / is_client_error / is_server_error as documented; format! of the URL and of the error texts is unconstrained",
    "TelemetryEvent::from_event_log (stub) is a function of (event, vm_meta_data): the system facts it reads (OS version, RAM, CPU count, CPU architecture) do not change during one call of send_events; tev_of is uninterpreted, so every result holds for whatever the function computes",
    "derived Clone of VmMetaData returns an equal value (E9 vx_e9_vm_meta_data_clone; Verus gives no spec to derived Clone of non-Copy structs)",
    "str::replace(char, &str) is the per-character flat map `repl` (std documentation)",
    "String::len is the length of the UTF-8 encoding (vstd::utf8::encode_utf8, the model vstd itself uses for str::len)",
    "format!(LIT, x) with one `{}` is text-before ++ Display(x) ++ text-after (23 generated E9 stubs in to_xml_event, contract generated from the literal found in the tree: DESIGN rule E6 carried out through E9); Display of a String is the string; Display of a u64 is a non-empty string of decimal digits (dec_u64, uninterpreted otherwise)",
    "`[0; 5].into_iter()` yields exactly 5 items (E11 newtype VxArrIter5, next() delegates)",
    "std::fs::remove_file is redirected (E9+E4) to a stub that records the path in the trace and touches no upload; the OS may still refuse the removal (clean_files only logs that)",
    "Display of std::path::Display, std::io::Error, common::error::Error, proxy_agent_shared::error::Error inside format! does not panic (text unconstrained; log lines only)",
    "logger::write / write_warning, misc_helpers::json_read_from_file, serde_json::to_string(&event) (E9), tokio::time::sleep(15 s) (E9): no contract, no effect on the trace",
    "`num_events_logged += events.len()` is redirected (E9 vx_e9_count_events): absence of usize overflow of this log-only counter is NOT proved here (C13 scope, physically unreachable)",
    "String::to_string on a String gives an equal string (contracts/common/std_string.rs axiom_to_string_string)",
    "at-most-once is per call of process_events_and_clean: an event file is read once per scan and handed to remove_file afterwards; if the OS refuses the removal the next scan reads the file again (file-system faults are outside the property's quantifier, which ranges over upload failures)",
    "the actor-handle field types of EventReader / WireServerClient (KeyKeeperSharedState, TelemetrySharedState, AgentStatusSharedState) are opaque placeholders (E13); the functions under contract never touch them",
]


ER_USES = """use super::telemetry_event::TelemetryData;
use super::telemetry_event::TelemetryEvent;
use crate::common::{logger, result::Result};
use crate::host_clients::wire_server_client::WireServerClient;
use crate::shared_state::agent_status_wrapper::AgentStatusSharedState;
use crate::shared_state::key_keeper_wrapper::KeyKeeperSharedState;
use crate::shared_state::telemetry_wrapper::TelemetrySharedState;
use crate::proxy_agent_shared::misc_helpers;
use crate::proxy_agent_shared::telemetry::Event;
use std::fs::remove_file;
use std::path::PathBuf;
use std::time::Duration;
use tokio_util::sync::CancellationToken;
"""

TR = "Tracked(tr): Tracked<&mut Trace>"


def build_to_xml_event(u, te):
    """TelemetryEvent::to_xml_event under contract. Verus leaves the value of `format!` unconstrained, so every
    `format!(LIT, arg)` of the function is redirected (E9) to a generated stub whose body is that very format! call and
    whose ASSUMED contract is generated from the literal found in the tree (DESIGN rule E6 carried out through E9):
    one `{}` placeholder => result == text-before ++ Display(arg) ++ text-after; Display of a String is the string,
    Display of a u64 is its decimal text (dec_u64). Editing the literal in /repo changes the assumption accordingly."""
    from vxlib import Undecided
    it = te.item("TelemetryEvent::to_xml_event", "fn")
    st = te.item("TelemetryEvent", "struct")
    u64_fields = set()
    for f in st["fields"]:
        ty = te.s(f["ty"][0], f["ty"][1]).strip() if "ty" in f else None
        if ty == "u64":
            u64_fields.add(f["name"])
    e9 = []
    n = 0
    for m in it["macros"]:
        if m["name"] != "format":
            raise Undecided("to_xml_event: unexpected macro %s" % m["name"])
        text = te.s(m["span"][0], m["span"][1])
        mm = re.match(r'format!\(\s*("(?:[^"\\]|\\.)*")\s*,\s*(.*?)\s*,?\s*\)$', text, re.S)
        if not mm:
            raise Undecided("to_xml_event: format! call not of the form format!(LITERAL, one_argument): %r" % text[:60])
        lit, arg = mm.group(1), mm.group(2)
        inner = lit[1:-1]
        if inner.count("{}") != 1 or inner.replace("{}", "").count("{") or inner.replace("{}", "").count("}"):
            raise Undecided("to_xml_event: format literal must contain exactly one {} placeholder: %s" % lit)
        pre, post = inner.split("{}")
        fm = re.match(r"self\.(\w+)$", arg)
        n += 1
        if fm and fm.group(1) in u64_fields:
            e9.append((text, None, "a0: u64", arg, "String", '    ensures r@ == "%s"@ + dec_u64(a0) + "%s"@,' % (pre, post),
                       dict(body="format!(%s, a0)" % lit, name="vx_e9_format_%d" % n)))
        else:
            e9.append((text, None, "a0: String", arg, "String", '    ensures r@ == "%s"@ + a0@ + "%s"@,' % (pre, post),
                       dict(body="format!(%s, a0)" % lit, name="vx_e9_format_%d" % n)))
    u.take_fn(te, "TelemetryEvent::to_xml_event", contract="""
        ensures r@ == event_xml(*self),  // @C18.to_xml_event.every_text_parameter_is_entity_encoded_inside_fixed_markup
""", pre_body="broadcast use axiom_to_string_string;\nproof { reveal(event_xml); }", e9=e9)


def _anchor_at(sf, it, a, b):
    """(text, ordinal) addressing the source range [a,b) of function `it` for vxlib's anchor search"""
    lo = it["body"][0] + 1
    text = sf.s(a, b)
    return text, sf.s(lo, a).count(text)


def loop_header_anchor(sf, it, k):
    """anchor for 'the statement that is loop k' (used with where='after': ghost text right after the loop)"""
    l = it["loops"][k]
    return _anchor_at(sf, it, l["span"][0], l["body"][0])


def loop_last_stmt_anchor(sf, it, k):
    """anchor for the last statement of the body of loop k (used with where='after': ghost text at the end of the body),
    located through the index so that edits of the statement's text do not lose the hint"""
    from vxlib import Undecided
    lb = it["loops"][k]["body"]
    blk = [b for b in it["blocks"] if b["span"] == lb]
    if len(blk) != 1 or not blk[0]["stmts"]:
        raise Undecided("%s: body of loop %d not found / empty" % (it["path"], k))
    st = blk[0]["stmts"][-1]
    return _anchor_at(sf, it, st[0], st[1])


def unit_ret(u, sf, path):
    """E7 (return value naming) for an `async fn` whose return type is implicit: this Verus build drops the
    postconditions of such a function at the awaiting call site unless the unit result is named.
    `fn f(..)` and `fn f(..) -> ()` are the same function."""
    it = sf.item(path, "fn")
    if it["output"] is not None:
        return []
    u.rule("E7", "%s: implicit unit return type written out as `-> (r: ())` (named result; same function)" % path)
    return [(it["sig"][1], it["sig"][1], " -> (r: ())")]


def ext_fns_verbatim(u, sf, modname, uses, fn_paths):
    """E1: functions copied byte-for-byte into a plain-Rust module OUTSIDE verus!{} (rustc checks them against the real
    crates; Verus never looks at them: they are reached only through E9 stubs whose contracts are assumptions)."""
    from vxlib import apply_edits
    saved = u.pieces
    u.pieces = u.ext_pieces
    u.emit("pub mod %s {\n#![allow(unused_imports, dead_code, non_snake_case)]\n%s" % (modname, uses), "glue", "E1")
    for p in fn_paths:
        it = sf.item(p, "fn")
        u.pieces += apply_edits(sf, it["span"][0], it["span"][1], [])
        u.emit("", "glue")
        u.rule("E1", "fn %s kept outside verus! verbatim (not verified)  <- %s:%d" % (p, sf.rel, sf.line_of(it["span"][0])))
    u.emit("} // mod %s" % modname, "glue", "E1")
    u.pieces = saved


STATUS_CONSTS = {"OK": 200, "CREATED": 201, "ACCEPTED": 202, "NO_CONTENT": 204, "MULTIPLE_CHOICES": 300, "BAD_REQUEST": 400, "FORBIDDEN": 403,
                 "NOT_FOUND": 404, "INTERNAL_SERVER_ERROR": 500, "BAD_GATEWAY": 502, "SERVICE_UNAVAILABLE": 503}
REQ_T = "hyper::Request<http_body_util::combinators::BoxBody<hyper::body::Bytes, hyper::Error>>"
FRAME_BUT_WIRE = "final(tr).posts == old(tr).posts, final(tr).batches == old(tr).batches, final(tr).attempts == old(tr).attempts, final(tr).last_ok == old(tr).last_ok, final(tr).removed == old(tr).removed"


def build_send_telemetry_data(u, wsc):
    """WireServerClient::send_telemetry_data under contract (real body). The contract is written from the statement: at-most-once
    delivery needs (a) an empty document is not sent, (b) one call sends at most ONE request and that request carries exactly the
    document, (c) the caller is told Ok if and only if the host accepted the document (2xx): an accepted batch reported as failed
    would be POSTed again by the retry loop, a refused one reported as sent would be lost silently.
    Ghost: `wire` is appended only by the redirect of hyper_client::send_request (assumed); the attempt entry of `posts` is
    bookkeeping: pushed as 'not accepted' when the call starts with a non-empty document and set to the host's verdict right after
    a request was handed to the network. Everything is located through the syn index (no text anchors into the body)."""
    from vxlib import Undecided
    path = "WireServerClient::send_telemetry_data"
    it = wsc.item(path, "fn")
    if len(it["params"]) != 2 or it["params"][0]["name"] != "self":
        raise Undecided("send_telemetry_data: expected (&self, document)")
    DOC = it["params"][1]["name"]
    e9, hints = [], []
    # E9: String::parse::<Uri>() + the closure building the crate's (opaque) error value; the String is moved into the closure
    for n, c in enumerate([c for c in it["calls"] if c["kind"] == "method" and c["callee"] == "map_err"]):
        recv = wsc.s(c["receiver"][0], c["receiver"][1])
        m = re.match(r"^(\w+)\s*\.\s*parse::<hyper::Uri>\(\)$", recv.strip())
        if not m:
            raise Undecided("send_telemetry_data: map_err on something that is not `<var>.parse::<hyper::Uri>()`")
        e9.append((tuple(c["span"]), None, "%s: String" % m.group(1), m.group(1), "Result<hyper::Uri>", "", dict(name="vx_e9_parse_wire_server_url_%d" % n)))
    # E9: associated consts of dependency types
    e9.append(("Method::POST", "all", "", "", "http::Method", "", dict(name="vx_e9_method_post", optional=True)))
    for nm, code in STATUS_CONSTS.items():   # not used by the pinned tree: an edit of the status check that names one is decided
        e9.append(("StatusCode::" + nm, "all", "", "", "http::StatusCode", "    ensures status_code(r) == %d," % code,
                   dict(name="vx_e9_status_" + nm.lower(), optional=True, body="http::StatusCode::" + nm)))
    # E9+E4: every awaited call of hyper_client::send_request: THE write primitive; the stub records what is handed to the network
    # and what the host answered
    for c in [c for c in it["calls"] if c["kind"] == "path" and c["callee"].replace(" ", "").split("::")[-1] == "send_request"]:
        aw = [a for a in it["awaits"] if a["base"] == c["span"]]
        if len(aw) != 1 or len(c["args"]) != 4 or wsc.s(c["args"][3][0], c["args"][3][1]).strip() != "logger::write_warning" \
                or c["callee"].replace(" ", "") != "hyper_client::send_request":
            raise Undecided("send_telemetry_data: call of send_request is not `hyper_client::send_request(host, port, request, logger::write_warning).await`")
        a0, a1, a2 = [wsc.s(x[0], x[1]).strip() for x in c["args"][:3]]
        e9.append((tuple(aw[0]["span"]), None, "host: &String, port: u16, request: %s, %s" % (REQ_T, TR), "%s, %s, %s, Tracked(tr)" % (a0, a1, a2),
                   "Result<hyper::Response<hyper::body::Incoming>>", """
    ensures final(tr).wire == old(tr).wire.push(WirePost { body: box_body_bytes(req_body(request)), status: match r { Ok(resp) => Some(status_code(resp_status(resp))), Err(_) => None } }),
            %s,""" % FRAME_BUT_WIRE,
                   dict(name="vx_e9_send_request", is_async=True, body="hyper_client::send_request(host, port, request, logger::write_warning).await")))
        # ghost bookkeeping: the attempt's outcome is the host's verdict on the request just handed to the network
        hints.append(_anchor_at(wsc, it, aw[0]["span"][0], aw[0]["span"][1]) + ("after", """proof {
            if %(DOC)s@.len() > 0 && tr.posts.len() > 0 {
                tr.posts = tr.posts.drop_last().push(Post { body: %(DOC)s@, ok: host_accepted(tr.wire.last()) });
            }
        }""" % dict(DOC=DOC)))
    u.take_fn(wsc, path, ghost=TR, contract="""
        ensures
            %(DOC)s@.len() == 0 ==> r is Ok && final(tr).wire == old(tr).wire,  // @C18.send_telemetry_data.empty_document_is_ok_and_nothing_is_sent
            %(DOC)s@.len() > 0 ==> (r is Err && final(tr).wire == old(tr).wire)
                || (final(tr).wire.len() == old(tr).wire.len() + 1 && final(tr).wire.drop_last() == old(tr).wire && final(tr).wire.last().body == utf8_bytes(%(DOC)s@)),  // @C18.send_telemetry_data.at_most_one_request_and_it_carries_exactly_the_document
            %(DOC)s@.len() > 0 && final(tr).wire.len() > old(tr).wire.len() ==> ((r is Ok) <==> host_accepted(final(tr).wire.last())),  // @C18.send_telemetry_data.ok_iff_the_host_answered_2xx
            final(tr).posts == (if %(DOC)s@.len() == 0 { old(tr).posts } else { old(tr).posts.push(Post { body: %(DOC)s@, ok: r is Ok }) }),  // @C18.send_telemetry_data.one_attempt_recorded_ok_iff_accepted
            old(tr).host_agrees() ==> final(tr).host_agrees(),  // @C18.send_telemetry_data.attempts_recorded_as_accepted_are_what_the_host_accepted
            final(tr).batches == old(tr).batches, final(tr).attempts == old(tr).attempts, final(tr).last_ok == old(tr).last_ok, final(tr).removed == old(tr).removed,
""" % dict(DOC=DOC), pre_body="""broadcast use group_upload, group_http_fmt, group_fmt_telemetry, lemma_wire_accepts_push, lemma_post_accepts_push;
proof {
    // an upload attempt begins: not accepted by the host unless it says so
    if %(DOC)s@.len() > 0 { tr.posts = tr.posts.push(Post { body: %(DOC)s@, ok: false }); }
}""" % dict(DOC=DOC), e9=e9, hints=hints)


def build_event_reader(u, er):
    u.take(er, "EventReader::MAX_MESSAGE_SIZE", "impl_const")
    u.take_fn(er, "EventReader::clean_files", ret="", ghost=TR, contract="""
        ensures final(tr).removed == old(tr).removed.push(file),  // @C18.clean_files.removes_the_file_it_is_given
                final(tr).same_uploads(*old(tr)),
""", e9=[("remove_file(&file)", None, "file: &PathBuf, " + TR, "&file, Tracked(tr)", "std::io::Result<()>",
          "    ensures final(tr).removed == old(tr).removed.push(*file), final(tr).same_uploads(*old(tr)),",
          dict(body="remove_file(file)", name="vx_e9_remove_file"))], pre_body="broadcast use group_fmt_telemetry;")
    u.take_fn(er, "EventReader::send_data_to_wire_server", ret="", ghost=TR, sig_edits=unit_ret(u, er, "EventReader::send_data_to_wire_server"),
              ghost_calls=[("send_telemetry_data", None, "Tracked(tr)")], contract="""
        requires old(tr).wf(),
                 telemetry_data@.len() > 0 ==> xml_len(telemetry_data@) < LIMIT(),  // @C18.send_data_to_wire_server.pre.batch_smaller_than_64KiB
        ensures final(tr).wf(),  // @C18.send_data_to_wire_server.uploads_are_the_batch_document_at_most_5_times
                final(tr).removed == old(tr).removed,
                final(tr).batches == (if telemetry_data@.len() > 0 { old(tr).batches.push(telemetry_data@) } else { old(tr).batches }),  // @C18.send_data_to_wire_server.one_batch_per_nonempty_data
                telemetry_data@.len() == 0 ==> final(tr).posts == old(tr).posts,  // @C18.send_data_to_wire_server.empty_batch_is_not_uploaded
""", pre_body="broadcast use lemma_fails_len, lemma_concat_push, lemma_xml_nonempty, group_fmt_telemetry;",
              loop_attrs={0: "#[verifier::loop_isolation(false)] #[verifier::allow_complex_invariants]"}, loops={0: """
            invariant_except_break
                tr.posts == old(tr).posts + fails(xml_of(telemetry_data@), it.index@ as int),  // @C18.send_data_to_wire_server.resent_only_after_failure
            invariant
                it.seq().len() == 5,
                tr.host_agrees(),  // @C18.send_data_to_wire_server.inv.host_accepted_exactly_the_attempts_recorded_as_accepted
                tr.batches == old(tr).batches, tr.attempts == old(tr).attempts, tr.last_ok == old(tr).last_ok, tr.removed == old(tr).removed,
            ensures
                1 <= tr.posts.len() - old(tr).posts.len() <= 5,  // @C18.send_data_to_wire_server.at_most_5_attempts
                tr.posts == old(tr).posts + fails(xml_of(telemetry_data@), tr.posts.len() - old(tr).posts.len() - 1).push(Post { body: xml_of(telemetry_data@), ok: tr.posts.last().ok }),  // @C18.send_data_to_wire_server.same_document_each_attempt
                tr.batches == old(tr).batches, tr.attempts == old(tr).attempts, tr.last_ok == old(tr).last_ok, tr.removed == old(tr).removed,
"""},
              e9=[("tokio::time::sleep(Duration::from_secs(15)).await", None, "", "", "", "", dict(is_async=True, name="vx_e9_sleep_15s", no_await=False)),
                  ("[0; 5]", None, "", "", "VxArrIter5", "    ensures vstd::std_specs::iter::IteratorSpec::remaining(&r).len() == 5,",
                   dict(wrap="VxArrIter5", body="[0; 5].into_iter()", name="vx_e11_retry_5", prefix="it: "))],   # prefix = E7 ghost iterator name
              hints=[loop_header_anchor(er, er.item("EventReader::send_data_to_wire_server", "fn"), 0) + ("after", """proof {
            let k = tr.posts.len() - old(tr).posts.len();
            tr.batches = tr.batches.push(telemetry_data@);
            tr.attempts = tr.attempts.push(k);
            tr.last_ok = tr.last_ok.push(tr.posts.last().ok);
            assert(tr.batches.drop_last() =~= old(tr).batches);
            assert(tr.attempts.drop_last() =~= old(tr).attempts);
            assert(tr.last_ok.drop_last() =~= old(tr).last_ok);
        }""")])
    # --- send_events: names of the parameters/locals the invariants talk about are read from the index, so that a renamed
    #     local does not lose the proof (the statements themselves are located by their initialiser, not by their name)
    from vxlib import Undecided
    it = er.item("EventReader::send_events", "fn")
    if len(it["params"]) != 3 or len(it["loops"]) != 2:
        raise Undecided("send_events: expected 3 parameters and 2 loops")
    EV, VM = it["params"][0]["name"], it["params"][2]["name"]

    def local_by_init(init_text):
        c = [l for l in it["lets"] if er.s(l["init"][0], l["init"][1]).strip() == init_text]
        if len(c) != 1:
            raise Undecided("send_events: expected exactly one `let .. = %s`, found %d" % (init_text, len(c)))
        name = re.sub(r"^mut\s+", "", er.s(c[0]["pat"][0], c[0]["pat"][1]).strip())
        if not re.match(r"^\w+$", name):
            raise Undecided("send_events: unexpected pattern %r" % name)
        return name, er.s(c[0]["span"][0], c[0]["span"][1])
    TD, td_stmt = local_by_init("TelemetryData::new()")
    FLAG, _ = local_by_init("true")
    N = dict(EV=EV, VM=VM, TD=TD, FLAG=FLAG)
    ACCT = """
                forall|t: TelemetryEvent| cnt(flat(tr.batches), t) + %%s cnt(tevs(%(EV)s@, vm), t) <= cnt(flat(old(tr).batches), t) + #[trigger] cnt(input, t),  // @C18.send_events.inv.no_event_counted_twice
                forall|t: TelemetryEvent| cnt(flat(tr.batches), t) + %%s cnt(tevs(%(EV)s@, vm), t) < cnt(flat(old(tr).batches), t) + #[trigger] cnt(input, t) ==> oversize_alone(t),  // @C18.send_events.inv.missing_only_if_too_large_alone
""" % N
    IN_DATA = "cnt(%(TD)s@, t) +" % N
    u.take_fn(er, "EventReader::send_events", ret="", ghost=TR, sig_edits=unit_ret(u, er, "EventReader::send_events"),
              ghost_calls=[("Self::send_data_to_wire_server", None, "Tracked(tr)")], contract=("""
        requires old(tr).wf(),
        ensures final(tr).wf(),
                final(tr).removed == old(tr).removed,
                old(tr).batches.len() <= final(tr).batches.len() && final(tr).batches.subrange(0, old(tr).batches.len() as int) == old(tr).batches,
                delivered_at_most_once(tevs(%(EV)s@, *%(VM)s), new_batches(*old(tr), *final(tr))),  // @C18.send_events.each_event_in_at_most_one_batch
                dropped_only_if_oversize(tevs(%(EV)s@, *%(VM)s), new_batches(*old(tr), *final(tr))),  // @C18.send_events.dropped_only_if_too_large_alone
                forall|i: int| 0 <= i < new_batches(*old(tr), *final(tr)).len() ==> batch_ok(#[trigger] new_batches(*old(tr), *final(tr))[i]),  // @C18.send_events.every_batch_nonempty_and_smaller_than_64KiB
""" % N), pre_body=("""broadcast use group_send_events;
let ghost vm = *%(VM)s;
let ghost input = tevs(%(EV)s@, vm);
proof { assert(old(tr).batches.subrange(0, old(tr).batches.len() as int) =~= old(tr).batches); }""" % N),
              loop_attrs={0: "#[verifier::loop_isolation(false)]", 1: "#[verifier::loop_isolation(false)] #[verifier::allow_complex_invariants]"},
              loops={0: """
            invariant
                tr.wf(),  // @C18.send_events.inv.trace_wf
                tr.removed == old(tr).removed,  // @C18.send_events.inv.no_file_removed
                old(tr).batches.len() <= tr.batches.len() && tr.batches.subrange(0, old(tr).batches.len() as int) == old(tr).batches,  // @C18.send_events.inv.earlier_batches_untouched
""" + ACCT % ("", "") + ("""
            decreases %(EV)s@.len(),  // @C18.send_events.terminates
""" % N), 1: ("""
                invariant
                    n0 >= 1,
                    %(FLAG)s ==> %(EV)s@.len() + %(TD)s@.len() == n0,  // @C18.send_events.inv.every_popped_event_is_in_the_batch
                    !%(FLAG)s ==> %(EV)s@.len() < n0,  // @C18.send_events.inv.progress_when_batch_closed
                    %(TD)s@.len() >= 1 ==> xml_len(%(TD)s@) < LIMIT(),  // @C18.send_events.inv.batch_below_64KiB
""" % N) + ACCT % (IN_DATA, IN_DATA) + ("""
                ensures %(EV)s@.len() < n0,  // @C18.send_events.inv.each_batch_consumes_an_event
                decreases %(EV)s@.len() + (if %(FLAG)s { 1int } else { 0int }),  // @C18.send_events.batch_filling_terminates
""" % N)},
              hints=[(td_stmt, None, "before", "let ghost n0 = %(EV)s@.len();" % N),
                     loop_header_anchor(er, it, 0) + ("after", "proof { lemma_new_batches(*old(tr), *tr, input); }")],
              e9=[("serde_json::to_string(&event)", None, "event: &Event", "&event", "core::result::Result<String, serde_json::Error>", "", dict(body="serde_json::to_string(event)", name="vx_e9_event_to_json")),
                  ("%(VM)s.clone()" % N, "all", "vm_meta_data: &VmMetaData", VM, "VmMetaData", "    ensures r == *vm_meta_data,", dict(body="vm_meta_data.clone()", name="vx_e9_vm_meta_data_clone"))])
    pit = er.item("EventReader::process_events_and_clean", "fn")
    u.take_fn(er, "EventReader::process_events_and_clean", ghost=TR,
              ghost_calls=[("Self::send_events", None, "Tracked(tr)"), ("Self::clean_files", None, "Tracked(tr)")], contract="""
        requires old(tr).wf(),
        ensures final(tr).wf(),
                final(tr).removed == old(tr).removed + files@,  // @C18.process_events_and_clean.every_input_file_is_cleaned
""", e9=[("num_events_logged += events.len()", None, "num_events_logged: &mut usize, events: &Vec<Event>", "&mut num_events_logged, &events", "", "",
              dict(body="*num_events_logged += events.len()", name="vx_e9_count_events"))],
              pre_body="broadcast use group_fmt_telemetry, lemma_concat_push;", loop_iter_names={0: "it"}, loop_attrs={0: "#[verifier::loop_isolation(false)]"}, loops={0: """
            invariant
                it.seq() == files@,
                tr.wf(),  // @C18.process_events_and_clean.inv.trace_wf
                tr.removed == old(tr).removed + files@.subrange(0, it.index@ as int),  // @C18.process_events_and_clean.inv.every_visited_file_is_cleaned
"""}, hints=[loop_last_stmt_anchor(er, pit, 0) + ("after", "proof { assert(files@.subrange(0, it.index@ + 1) =~= files@.subrange(0, it.index@ as int).push(files@[it.index@ as int])); }"),
             loop_header_anchor(er, pit, 0) + ("after", "proof { assert(files@.subrange(0, files@.len() as int) =~= files@); }")])


def build(u):
    from vxlib import Undecided
    helpers = u.src("proxy_agent/src/common/helpers.rs")
    te = u.src("proxy_agent/src/telemetry/telemetry_event.rs")
    er = u.src("proxy_agent/src/telemetry/event_reader.rs")
    tel = u.src("proxy_agent_shared/src/telemetry.rs")
    u.features.append("pattern")
    u.externs.append("serde_derive")
    u.raw(open(os.path.join(COMMON, "std_string.rs")).read())   # axiom_to_string_string (String::to_string gives an equal string)
    u.raw(open(os.path.join(COMMON, "http.rs")).read())   # http / hyper types and their assumed specs (Response::status, ...)
    u.raw_file("deps.rs")
    u.raw_file("spec.rs")

    serr = u.src("proxy_agent_shared/src/error.rs")
    smisc = u.src("proxy_agent_shared/src/misc_helpers.rs")
    err = u.src("proxy_agent/src/common/error.rs")
    logger = u.src("proxy_agent/src/common/logger.rs")
    kkw = u.src("proxy_agent/src/shared_state/key_keeper_wrapper.rs")
    tw = u.src("proxy_agent/src/shared_state/telemetry_wrapper.rs")
    asw = u.src("proxy_agent/src/shared_state/agent_status_wrapper.rs")
    wsc = u.src("proxy_agent/src/host_clients/wire_server_client.rs")
    hc = u.src("proxy_agent/src/common/hyper_client.rs")

    with u.mod("proxy_agent_shared"):
        with u.mod("telemetry"):
            u.take_ext(tel, ["Event"], "vx_ext_event", uses="use serde_derive::{Deserialize, Serialize};")
        with u.mod("error"):
            u.take_ext(serr, ["Error", "ParseVersionErrorType", "CommandErrorType"], "vx_ext_shared_error")
        with u.mod("result", uses="use super::error::Error;"):
            u.raw("pub type Result<T> = core::result::Result<T, Error>;", names=("Result",))
        with u.mod("misc_helpers", uses="use crate::proxy_agent_shared::result::Result;\nuse serde::de::DeserializeOwned;\nuse std::path::{Path, PathBuf};"):
            u.take_fn(smisc, "json_read_from_file", external_body=True)

    # the write primitive of the upload (hyper plumbing): outside verus!, reached only through vx_e9_send_request
    ext_fns_verbatim(u, hc, "vx_ext_send", "use crate::common::error::{Error, HyperErrorType};\nuse crate::common::result::Result;\nuse hyper::Request;\nuse hyper_util::rt::TokioIo;\nuse tokio::net::TcpStream;",
                     ["send_request", "build_http_sender"])
    with u.mod("common"):
        with u.mod("error"):
            # the error enums are kept verbatim outside verus!{} (thiserror derives intact). Error and WireServerErrorType are declared
            # TRANSPARENT external types: send_telemetry_data constructs Error::WireServer(WireServerErrorType::Telemetry, text)
            u.take_ext(err, ["Error", "HyperErrorType", "WireServerErrorType", "KeyErrorType", "AclErrorType", "BpfErrorType"], "vx_ext_error", uses="use http::{uri::InvalidUri, StatusCode};", opaque=False, transparent=False)
            for n in ("Error", "WireServerErrorType"):
                u.emit("#[verifier::external_type_specification]\npub struct VxEx_vx_ext_error_%s(crate::vx_ext_error::%s);" % (n, n), "glue", "E1")
            for n in ("HyperErrorType", "KeyErrorType", "AclErrorType", "BpfErrorType"):
                u.emit("#[verifier::external_type_specification]\n#[verifier::external_body]\npub struct VxEx_vx_ext_error_%s(crate::vx_ext_error::%s);" % (n, n), "glue", "E1")
        with u.mod("result", uses="use super::error::Error;"):
            u.raw("pub type Result<T> = core::result::Result<T, Error>;", names=("Result",))
        with u.mod("logger"):
            u.take_fn(logger, "write", external_body=True, ret="")
            u.take_fn(logger, "write_warning", external_body=True, ret="")
        with u.mod("hyper_client", uses="pub use crate::vx_ext_send::send_request;", auto_uses=hc):
            # stub with the real signature; the clause is the one proved against the real body in unit sign
            # (@C04.build_request.body_sent_is_the_body_signed)
            u.take_fn(hc, "build_request", external_body=True, contract="""
        ensures r matches Ok(req) ==> box_body_bytes(req_body(req)) == opt_slice(body),
""")
        with u.mod("helpers"):
            u.take_fn(helpers, "xml_escape", contract="""
    ensures r@ == esc(s@),  // @C18.xml_escape.is_entity_encoding
""", pre_body="broadcast use ax_pat_char;\nproof { lemma_chain_is_esc(s@); }")

    # --- types that exist in the unit only because EventReader / WireServerClient name them in their fields: actor handles,
    #     never inspected by the functions under contract -> opaque placeholders (rule E13)
    with u.mod("shared_state"):
        with u.mod("key_keeper_wrapper"):
            u.placeholder_ext(kkw, ["KeyKeeperSharedState"], "vx_ph_kkw")
        with u.mod("telemetry_wrapper"):
            u.placeholder_ext(tw, ["TelemetrySharedState"], "vx_ph_tw")
        with u.mod("agent_status_wrapper"):
            u.placeholder_ext(asw, ["AgentStatusSharedState"], "vx_ph_asw")
    with u.mod("host_clients"):
        with u.mod("wire_server_client", auto_uses=wsc):
            u.take(wsc, "WireServerClient", "struct")
            u.take(wsc, "TELEMETRY_DATA_URI", "const")
            with u.impl_(wsc, "WireServerClient"):
                build_send_telemetry_data(u, wsc)
            u.flush_e9()

    with u.mod("telemetry"):
        with u.mod("event_reader", uses=ER_USES):
            u.take(er, "VmMetaData", "struct", keep_derive=("Clone",))
            u.take(er, "EventReader", "struct", extra_attrs="#[verifier::external_body]")
            with u.impl_(er, "EventReader"):
                build_event_reader(u, er)
            u.flush_e9()   # generated E9/E11 stubs live in this module so that their verbatim bodies resolve
        with u.mod("telemetry_event", uses="use super::event_reader::VmMetaData;\nuse crate::common::helpers;\nuse crate::proxy_agent_shared::telemetry::Event;"):
            u.take(te, "TelemetryData", "struct")
            u.take(te, "TelemetryEvent", "struct")
            u.raw("""
impl View for TelemetryData {
    type V = Seq<TelemetryEvent>;
    open spec fn view(&self) -> Seq<TelemetryEvent> { self.events@ }
}
""")
            with u.impl_(te, "TelemetryData"):
                u.take_fn(te, "TelemetryData::new", contract="""
        ensures r@ == Seq::<TelemetryEvent>::empty(),  // @C18.TelemetryData.new.empty
""")
                txi = te.item("TelemetryData::to_xml", "fn")
                u.take_fn(te, "TelemetryData::to_xml", contract="""
        ensures r@ == xml_of(self@),  // @C18.TelemetryData.to_xml.document_of_view
""", loop_iter_names={0: "it"}, loops={0: """
            invariant
                it.seq().unref() == self.events@,
                xml@ == "<?xml version=\\"1.0\\"?><TelemetryData version=\\"1.0\\"><Provider id=\\"FFF0196F-EE4C-4EAF-9AA5-776F622DEB4F\\">"@ + events_xml(self.events@.subrange(0, it.index@ as int)),
"""}, hints=[loop_last_stmt_anchor(te, txi, 0) + ("after", """proof {
                assert(self.events@.subrange(0, it.index@ + 1).drop_last() =~= self.events@.subrange(0, it.index@ as int));
            }"""), loop_header_anchor(te, txi, 0) + ("after", "proof { assert(self.events@.subrange(0, self.events@.len() as int) =~= self.events@); }")])
                u.take_fn(te, "TelemetryData::get_size", contract="""
        ensures r == xml_len(self@),  // @C18.TelemetryData.get_size.is_document_size_in_bytes
""")
                u.take_fn(te, "TelemetryData::add_event", ret="", contract="""
        ensures final(self)@ == old(self)@.push(event),  // @C18.TelemetryData.add_event.appends
""")
                u.take_fn(te, "TelemetryData::remove_last_event", contract="""
        ensures old(self)@.len() > 0 ==> final(self)@ == old(self)@.drop_last() && r == Some(old(self)@.last()),  // @C18.TelemetryData.remove_last_event.removes_last
                old(self)@.len() == 0 ==> final(self)@ == old(self)@ && r is None,
""")
                u.take_fn(te, "TelemetryData::event_count", contract="""
        ensures r == self@.len(),  // @C18.TelemetryData.event_count.is_len
""")
            with u.impl_(te, "TelemetryEvent"):
                u.take_fn(te, "TelemetryEvent::from_event_log", external_body=True, contract="""
        ensures r == tev_of(*event_log, vm_meta_data),
""")
                build_to_xml_event(u, te)
            u.flush_e9()
