# unit `telemetry` (C18): event_reader.rs send_events / send_data_to_wire_server / process_events_and_clean / clean_files,
# telemetry_event.rs TelemetryData::*, TelemetryEvent::to_xml_event, helpers.rs xml_escape
import os
import re
HERE = os.path.dirname(os.path.abspath(__file__))
COMMON = os.path.join(os.path.dirname(HERE), "common")

ASSUMPTIONS = []


def build(u):
    from vxlib import Undecided
    helpers = u.src("proxy_agent/src/common/helpers.rs")
    te = u.src("proxy_agent/src/telemetry/telemetry_event.rs")
    er = u.src("proxy_agent/src/telemetry/event_reader.rs")
    tel = u.src("proxy_agent_shared/src/telemetry.rs")
    u.features.append("pattern")
    u.externs.append("serde_derive")
    for f in ("str_axioms.rs", "ext_types.rs", "std_string.rs"):
        u.raw(open(os.path.join(COMMON, f)).read())
    u.raw_file("deps.rs")
    u.raw_file("spec.rs")

    with u.mod("proxy_agent_shared"):
        with u.mod("telemetry"):
            u.take_ext(tel, ["Event"], "vx_ext_event", uses="use serde_derive::{Deserialize, Serialize};")

    with u.mod("common"):
        with u.mod("helpers"):
            u.take_fn(helpers, "xml_escape", contract="""
    ensures r@ == esc(s@),  // @C18.xml_escape.is_entity_encoding
""", pre_body="broadcast use ax_pat_char;\nproof { lemma_chain_is_esc(s@); }")

    with u.mod("telemetry"):
        with u.mod("event_reader"):
            u.take(er, "VmMetaData", "struct", keep_derive=("Clone",))
        with u.mod("telemetry_event", uses="use super::event_reader::VmMetaData;\nuse crate::common::helpers;\nuse crate::proxy_agent_shared::telemetry::Event;"):
            u.take(te, "TelemetryData", "struct")
            u.take(te, "TelemetryEvent", "struct")
            u.raw("""
impl View for TelemetryData {
    type V = Seq<TelemetryEvent>;
    open spec fn view(&self) -> Seq<TelemetryEvent> { self.events@ }
}
""")
            with u.impl_(te, "TelemetryData"):
                u.take_fn(te, "TelemetryData::new", contract="""
        ensures r@ == Seq::<TelemetryEvent>::empty(),  // @C18.TelemetryData.new.empty
""")
                u.take_fn(te, "TelemetryData::to_xml", contract="""
        ensures r@ == xml_of(self@),  // @C18.TelemetryData.to_xml.document_of_view
""")
                u.take_fn(te, "TelemetryData::get_size", contract="""
        ensures r == xml_len(self@),  // @C18.TelemetryData.get_size.is_document_size_in_bytes
""")
                u.take_fn(te, "TelemetryData::add_event", ret="", contract="""
        ensures final(self)@ == old(self)@.push(event),  // @C18.TelemetryData.add_event.appends
""")
                u.take_fn(te, "TelemetryData::remove_last_event", contract="""
        ensures old(self)@.len() > 0 ==> final(self)@ == old(self)@.drop_last() && r == Some(old(self)@.last()),  // @C18.TelemetryData.remove_last_event.removes_last
                old(self)@.len() == 0 ==> final(self)@ == old(self)@ && r is None,
""")
                u.take_fn(te, "TelemetryData::event_count", contract="""
        ensures r == self@.len(),  // @C18.TelemetryData.event_count.is_len
""")
            with u.impl_(te, "TelemetryEvent"):
                u.take_fn(te, "TelemetryEvent::from_event_log", external_body=True, contract="""
        ensures r == tev_of(*event_log, vm_meta_data),
""")
                u.take_fn(te, "TelemetryEvent::to_xml_event", external_body=True, contract="""
        ensures r@ == event_xml(*self),
""")
