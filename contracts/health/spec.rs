// Specification of C20, written from the property statement:
//  "Error only after at least 20 consecutive failed health observations, never directly
//   after a success; a single successful observation always moves the report away from
//   Error and two consecutive successes always yield Success; repeated identical state
//   notifications are emitted on change and then at most once per 120 repetitions."
pub enum St { T, S, E, Other }

pub open spec fn min(a: int, b: int) -> int { if a < b { a } else { b } }

pub struct Abs { pub st: St, pub fail: int, pub succ: int }

// the automaton: counters saturate at 10000; thresholds 1 (success/recovery) and 20 (error)
pub open spec fn step(a: Abs, ok: bool) -> Abs {
    let fail = if ok { 0 } else { min(a.fail + 1, 10000) };
    let succ = if ok { min(a.succ + 1, 10000) } else { 0 };
    let st = match a.st {
        St::S => if fail >= 1 { St::T } else { St::S },
        St::T => if succ >= 1 { St::S } else if fail >= 20 { St::E } else { St::T },
        St::E => if succ >= 1 { St::T } else { St::E },
        St::Other => St::T,
    };
    Abs { st, fail, succ }
}

pub open spec fn run(a: Abs, h: Seq<bool>) -> Abs decreases h.len() {
    if h.len() == 0 { a } else { step(run(a, h.drop_last()), h.last()) }
}
pub open spec fn trailing_fail(h: Seq<bool>) -> int decreases h.len() {
    if h.len() == 0 || h.last() { 0 } else { 1 + trailing_fail(h.drop_last()) }
}
pub open spec fn trailing_succ(h: Seq<bool>) -> int decreases h.len() {
    if h.len() == 0 || !h.last() { 0 } else { 1 + trailing_succ(h.drop_last()) }
}
pub open spec fn init_abs() -> Abs { Abs { st: St::T, fail: 0, succ: 0 } }

pub open spec fn good(a: Abs, h: Seq<bool>) -> bool {
    &&& a.fail == min(trailing_fail(h), 10000)
    &&& a.succ == min(trailing_succ(h), 10000)
    &&& (a.st is E ==> trailing_fail(h) >= 20)
    &&& !(a.st is Other)
    &&& 0 <= a.fail <= 10000 && 0 <= a.succ <= 10000
}

// (L1) after ANY history of observations starting from `new()`: Error implies >= 20 trailing failures
//      (in particular the last observation was not a success), counters are the saturated trailing runs.
pub proof fn lemma_history(h: Seq<bool>)
    ensures good(run(init_abs(), h), h)  // @C20.lemma_history.error_needs_20_failures
    decreases h.len()
{
    if h.len() > 0 { lemma_history(h.drop_last()); }
}

// (L1b) never Error directly after a success
pub proof fn lemma_no_error_after_success(h: Seq<bool>)
    requires h.len() > 0, h.last(),
    ensures !(run(init_abs(), h).st is E)  // @C20.lemma.never_error_directly_after_success
{
    lemma_history(h);
}

// (L2) a single success always leaves Error; (L3) two consecutive successes always give Success --
// for every reachable state (any history), including saturated counters.
pub proof fn lemma_success_leaves_error(h: Seq<bool>)
    ensures !(run(init_abs(), h.push(true)).st is E),  // @C20.lemma.one_success_leaves_error
            run(init_abs(), h.push(true).push(true)).st is S,  // @C20.lemma.two_successes_give_success
{
    lemma_history(h);
    let h1 = h.push(true);
    assert(h1.drop_last() =~= h);
    let h2 = h1.push(true);
    assert(h2.drop_last() =~= h1);
    lemma_history(h1);
    assert(h1.last() == true && h1.len() > 0);
    assert(trailing_fail(h1) == 0);
    assert(h2.last() == true && h2.len() > 0);
    assert(run(init_abs(), h1) == step(run(init_abs(), h), true));
    assert(run(init_abs(), h2) == step(run(init_abs(), h1), true));
}

// (L4) Error IS reached after 20 consecutive failures from any non-Success... (liveness of the alarm is
// not part of the statement; what is stated is only the lower bound). Saturation cannot wedge the machine:
// thresholds (1, 20) are below the cap 10000, proved as part of `step` refinement in update_state.

proof fn lits()
    ensures crate::constants::SUCCESS_STATUS@ != crate::constants::ERROR_STATUS@,
            crate::constants::SUCCESS_STATUS@ != crate::constants::TRANSITIONING_STATUS@,
            crate::constants::ERROR_STATUS@ != crate::constants::TRANSITIONING_STATUS@,
{
    reveal_strlit("success"); reveal_strlit("error"); reveal_strlit("transitioning");
    assert(crate::constants::SUCCESS_STATUS@.len() == 7);
    assert(crate::constants::ERROR_STATUS@.len() == 5);
    assert(crate::constants::TRANSITIONING_STATUS@.len() == 13);
}

// ---- ServiceState (notification throttling) -----------------------------------------
// Specification from the statement: "repeated identical state notifications are emitted on change and
// then at most once per 120 repetitions".  emit(old entry, value, max) and the new entry:
pub open spec fn emit_spec(m: Map<String, (String, u32)>, k: String, v: Seq<char>, max: u32) -> bool {
    !m.contains_key(k) || m[k].0@ != v || m[k].1 >= max
}
pub open spec fn next_count(m: Map<String, (String, u32)>, k: String, v: Seq<char>, max: u32) -> int {
    if emit_spec(m, k, v, max) { 1 } else { m[k].1 + 1 }
}

// History lemma for the throttle. Abstract one entry (same key, same value notified again and again):
// by emit_spec/next_count a repeated identical notification emits iff count >= max and the count becomes
// 1 on emission, count+1 otherwise. rep_count(c, max, n) is the count after n repetitions.
pub open spec fn rep_count(c: int, max: int, n: nat) -> int decreases n {
    if n == 0 { c } else { let p = rep_count(c, max, (n - 1) as nat); if p >= max { 1 } else { p + 1 } }
}
pub open spec fn rep_emit(c: int, max: int, n: nat) -> bool {   // does the n-th repetition (1-based) emit?
    n > 0 && rep_count(c, max, (n - 1) as nat) >= max
}
// the abstraction is the one the code implements (same key present, same value):
pub proof fn lemma_rep_matches_spec(m: Map<String, (String, u32)>, k: String, max: u32)
    requires m.contains_key(k),
    ensures emit_spec(m, k, m[k].0@, max) == (m[k].1 >= max),
            next_count(m, k, m[k].0@, max) == (if m[k].1 >= max { 1int } else { m[k].1 + 1 }),
{}
// after an emission (count == 1) the next max-1 identical notifications are silent: at most one emission
// per `max` repetitions (max == 120 at the call site, see write_state_event).
pub proof fn lemma_throttle(max: int, n: nat)
    requires max >= 1, n < max,
    ensures rep_count(1, max, n) == n + 1,
            n >= 1 ==> !rep_emit(1, max, n),    // @C20.lemma.at_most_once_per_max_repetitions
    decreases n
{
    if n > 0 { lemma_throttle(max, (n - 1) as nat); }
}
