// assumed specifications of std functions used by ServiceState (trusted; DESIGN 2.5 item 3)
use vstd::std_specs::hash::*;
