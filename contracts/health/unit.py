# unit `health` (C20): proxy_agent_extension StatusState::update_state, ServiceState::update_service_state_entry
import os
HERE = os.path.dirname(os.path.abspath(__file__))
COMMON = os.path.join(os.path.dirname(HERE), "common")

ASSUMPTIONS = [
    "&str extensionality axiom (axiom_str_ext): equal character sequences are equal &str values for `match`",
    "String::to_string / clone give view-equal strings (vstd specs)",
    "the extension's health loop calls update_state once per observation (call sites not under contract)",
]


def build(u):
    common = u.src("proxy_agent_extension/src/common.rs")
    consts = u.src("proxy_agent_extension/src/constants.rs")
    u.raw(open(os.path.join(COMMON, "str_axioms.rs")).read())
    u.raw_file("spec.rs")
    with u.mod("constants"):
        for n in ("TRANSITIONING_STATUS", "ERROR_STATUS", "SUCCESS_STATUS"):
            u.take(consts, n, "const")
    with u.mod("common"):
        u.raw("use crate::constants;")
        u.take(common, "StatusState", "struct")
        u.raw("""
impl StatusState {
    pub open spec fn abs(self) -> Abs {
        Abs { st: if self.current_state@ == constants::SUCCESS_STATUS@ { St::S }
                  else if self.current_state@ == constants::TRANSITIONING_STATUS@ { St::T }
                  else if self.current_state@ == constants::ERROR_STATUS@ { St::E } else { St::Other },
              fail: self.consecutive_fail_count as int, succ: self.consecutive_success_count as int }
    }
    pub open spec fn inv(self) -> bool {
        self.transition_to_error_threshold == 20 && self.consecutive_fail_count <= 10000 && self.consecutive_success_count <= 10000
    }
}
""")
        with u.impl_(common, "StatusState"):
            u.take(common, "StatusState::MAX_CONSECUTIVE_COUNT", "impl_const")
            u.take_fn(common, "StatusState::new", contract="""
    ensures r.inv(),  // @C20.new.inv
            r.abs() == init_abs(),  // @C20.new.initial_state
""", pre_body="proof { lits(); }")
            u.take_fn(common, "StatusState::update_state", contract="""
    requires old(self).inv(),
    ensures final(self).inv(),  // @C20.update_state.inv
            final(self).abs() == step(old(self).abs(), operation_success),  // @C20.update_state.refines_step
            r@ == final(self).current_state@,  // @C20.update_state.returns_state
""", pre_body="broadcast use axiom_str_ext;\nproof { lits(); }")
