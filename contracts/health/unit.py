# unit `health` (C20): proxy_agent_extension StatusState::update_state, ServiceState::update_service_state_entry
import os
HERE = os.path.dirname(os.path.abspath(__file__))
COMMON = os.path.join(os.path.dirname(HERE), "common")

ASSUMPTIONS = [
    "&str extensionality axiom (axiom_str_ext): equal character sequences are equal &str values for `match`",
    "String::to_string / clone give view-equal strings (vstd specs)",
    "call sites of update_state (one step per observation, published text == automaton state): proved in unit health_sites",
]


def build(u):
    common = u.src("proxy_agent_extension/src/common.rs")
    consts = u.src("proxy_agent_extension/src/constants.rs")
    u.raw(open(os.path.join(COMMON, "str_axioms.rs")).read())
    u.raw_file("spec.rs")
    with u.mod("constants"):
        for n in ("TRANSITIONING_STATUS", "ERROR_STATUS", "SUCCESS_STATUS"):
            u.take(consts, n, "const")
    with u.mod("common"):
        u.raw("use crate::constants;")
        u.take(common, "StatusState", "struct")
        u.raw("""
impl StatusState {
    pub open spec fn abs(self) -> Abs {
        Abs { st: if self.current_state@ == constants::SUCCESS_STATUS@ { St::S }
                  else if self.current_state@ == constants::TRANSITIONING_STATUS@ { St::T }
                  else if self.current_state@ == constants::ERROR_STATUS@ { St::E } else { St::Other },
              fail: self.consecutive_fail_count as int, succ: self.consecutive_success_count as int }
    }
    pub open spec fn inv(self) -> bool {
        self.transition_to_error_threshold == 20 && self.consecutive_fail_count <= 10000 && self.consecutive_success_count <= 10000
    }
}
""")
        with u.impl_(common, "StatusState"):
            u.take(common, "StatusState::MAX_CONSECUTIVE_COUNT", "impl_const")
            u.take_fn(common, "StatusState::new", contract="""
    ensures r.inv(),  // @C20.new.inv
            r.abs() == init_abs(),  // @C20.new.initial_state
""", pre_body="proof { lits(); }")
            u.take_fn(common, "StatusState::update_state", contract="""
    requires old(self).inv(),
    ensures final(self).inv(),  // @C20.update_state.inv
            final(self).abs() == step(old(self).abs(), operation_success),  // @C20.update_state.refines_step
            r@ == final(self).current_state@,  // @C20.update_state.returns_state
""", pre_body="broadcast use axiom_str_ext;\nproof { lits(); }")

    ss = u.src("proxy_agent_extension/src/service_main/service_state.rs")
    sm = u.src("proxy_agent_extension/src/service_main.rs")
    u.raw_file("deps.rs")
    u.raw(open(os.path.join(COMMON, "hash_str.rs")).read())
    u.raw(open(os.path.join(COMMON, "std_string.rs")).read())
    u.features.append("allocator_api")
    u.features.append("sized_hierarchy")
    with u.mod("service_state", uses="use std::collections::HashMap;\nuse vstd::std_specs::hash::*;"):
        u.take(ss, "ServiceState", "struct")
        with u.impl_(ss, "ServiceState"):
            u.take_fn(ss, "ServiceState::update_service_state_entry", contract="""
    requires obeys_key_model::<String>(),
    ensures
        r == emit_spec(old(self).state_map@, str_key(state_key@), state_value@, max_count),  // @C20.update_service_state_entry.emit_iff_changed_or_max
        final(self).state_map@.contains_key(str_key(state_key@)),  // @C20.update_service_state_entry.key_present
        final(self).state_map@[str_key(state_key@)].0@ == state_value@,   // @C20.update_service_state_entry.value_stored
        final(self).state_map@[str_key(state_key@)].1 == next_count(old(self).state_map@, str_key(state_key@), state_value@, max_count),  // @C20.update_service_state_entry.count
        forall|o: String| o != str_key(state_key@) ==> (#[trigger] final(self).state_map@.contains_key(o) == old(self).state_map@.contains_key(o)
                   && (old(self).state_map@.contains_key(o) ==> final(self).state_map@[o] == old(self).state_map@[o])),  // @C20.update_service_state_entry.frame
""", pre_body="broadcast use vstd::std_specs::hash::group_hash_axioms;\nbroadcast use axiom_string_ext;\nbroadcast use group_str_key;\nbroadcast use axiom_to_string_string;")

    # call site: write_state_event passes MAX_STATE_COUNT (= 120) and emits exactly when the entry says so
    el = u.src("proxy_agent_shared/src/telemetry/event_logger.rs")
    u.raw("""
#[verifier::external_type_specification]
pub struct ExLogLevel(log::Level);
pub tracked struct EvTrace { pub ghost n: int }
""")
    with u.mod("event_logger", uses="use log::Level;"):
        u.take_fn(el, "write_event", external_body=True, ghost="Tracked(tr): Tracked<&mut EvTrace>", contract="""
    ensures final(tr).n == old(tr).n + 1,
""")
    with u.mod("service_main", uses="use crate::service_state::ServiceState;\nuse crate::event_logger;\nuse log::Level as LoggerLevel;\nuse vstd::std_specs::hash::*;"):
        u.take(sm, "MAX_STATE_COUNT", "const")
        u.take_fn(sm, "write_state_event", ghost="Tracked(tr): Tracked<&mut EvTrace>", ghost_calls=[("event_logger::write_event", None, "Tracked(tr)")], contract="""
    requires obeys_key_model::<String>(),
    ensures
        final(tr).n == old(tr).n + (if emit_spec(old(service_state).state_map@, str_key(state_key@), state_value@, 120) { 1int } else { 0int }),  // @C20.write_state_event.emits_iff_changed_or_120
        final(service_state).state_map@.contains_key(str_key(state_key@)),
        final(service_state).state_map@[str_key(state_key@)].1 == next_count(old(service_state).state_map@, str_key(state_key@), state_value@, 120),  // @C20.write_state_event.max_is_120
""")
