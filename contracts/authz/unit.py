# unit `authz` (C02): authorization_rules.rs is_allowed / from_authorization_item, key.rs is_match, hyper_client query_pairs
import os
HERE = os.path.dirname(os.path.abspath(__file__))
COMMON = os.path.join(os.path.dirname(HERE), "common")

ASSUMPTIONS = [
    "str::to_lowercase is `lower` (uninterpreted, idempotent); Uri::path/query are uri_path/uri_query",
    "HashMap/HashSet iteration visits exactly the entries (vstd model, obeys_key_model::<String>())",
    "ConnectionLogger::write only logs",
]
FN_PROPS = {}


def build(u):
    ar = u.src("proxy_agent/src/proxy/authorization_rules.rs")
    pc = u.src("proxy_agent/src/proxy/proxy_connection.rs")
    px = u.src("proxy_agent/src/proxy.rs")
    key = u.src("proxy_agent/src/key_keeper/key.rs")
    hc = u.src("proxy_agent/src/common/hyper_client.rs")
    u.features += ["allocator_api", "sized_hierarchy"]
    for f in ("str_axioms.rs", "ext_types.rs", "std_string.rs"):
        u.raw(open(os.path.join(COMMON, f)).read())
    u.raw_file("deps.rs")
    u.raw_file("spec.rs")
    with u.mod("proxy", uses="use std::{ffi::OsString, path::PathBuf};"):
        u.take(px, "Claims", "struct", keep_derive=("Clone",))
        with u.mod("proxy_connection", uses="use log::Level as LoggerLevel;"):
            u.take(pc, "ConnectionLogger", "struct")
            with u.impl_(pc, "ConnectionLogger"):
                u.take_fn(pc, "ConnectionLogger::write", external_body=True)
        with u.mod("authorization_rules", uses="use super::{proxy_connection::ConnectionLogger, Claims};\nuse crate::key_keeper::key::{Identity, Privilege};\nuse std::collections::{HashMap, HashSet};\nuse log::Level as LoggerLevel;\nuse vstd::std_specs::hash::*;"):
            u.take(ar, "AuthorizationMode", "enum", structural=True)
            u.take(ar, "ComputedAuthorizationItem", "struct")
            with u.impl_(ar, "ComputedAuthorizationItem"):
                u.take_fn(ar, "ComputedAuthorizationItem::is_allowed",
                    extra_attrs="#[verifier::loop_isolation(false)]",
                    contract="""
        requires obeys_key_model::<String>(), self.wf(),
        ensures r == is_allowed_spec(*self, request_url, claims),  // @C02.is_allowed.equals_declared_decision
                self.mode == AuthorizationMode::Disabled ==> r,     // @C11.is_allowed.disabled_allows_without_consulting_rules
""",
                    pre_body="""broadcast use vstd::std_specs::hash::group_hash_axioms;
broadcast use axiom_fmt_uri;
let ghost mut done: Set<String> = Set::empty();
""",
                    loop_iter_names={0: "it", 1: "it2"},
                    loops={0: """
            invariant
                it.seq().unref().to_set() == self.privileges@.values(),
                forall|pn: String, idn: String| done.contains(pn) ==> !(#[trigger] self.grants(pn, idn, request_url, claims)),
                any_privilege_matched == exists|pn: String| done.contains(pn) && self.privileges@.contains_key(pn) && pmatch(#[trigger] self.privileges@[pn], request_url),
                forall|v: Privilege| #[trigger] it.seq().unref().contains(v) ==> done.contains(v.name)
                    || exists|i: int| it.index@ <= i < it.seq().len() && it.seq().unref()[i] == v,
""", 1: """
                        invariant
                            it2.seq().unref().to_set() == assignments@,
                            forall|idn: String| tried.contains(idn) ==> !(#[trigger] self.grants(privilege.name, idn, request_url, claims)),
                            forall|idn: String| #[trigger] it2.seq().unref().contains(idn) ==> tried.contains(idn)
                                || exists|j: int| it2.index@ <= j < it2.seq().len() && it2.seq().unref()[j] == idn,
                            self.privileges@.contains_key(privilege.name) && self.privileges@[privilege.name] == *privilege,
                            self.privilegeAssignments@.contains_key(privilege.name) && self.privilegeAssignments@[privilege.name] == *assignments,
"""},
                    hints=[
                        ("let privilege_name = &privilege.name;", None, "after", """
            proof {
                let i0 = it.index@;
                assert(it.seq().unref()[i0] == *privilege);
                assert(it.seq().unref().to_set().contains(*privilege));
                assert(self.privileges@.values().contains(*privilege));
                let k = choose|k: String| self.privileges@.contains_key(k) && self.privileges@[k] == *privilege;
                assert(k == privilege.name);
            }"""),
                        ("for assignment in assignments", None, "before", "let ghost mut tried: Set<String> = Set::empty();"),
                        ("let identity_name = assignment.clone();", None, "after", "proof { tried = tried.insert(*assignment); }"),
                        ("return true;", 1, "before", """
                                proof {
                                    let j0 = it2.index@;
                                    assert(it2.seq().unref()[j0] == *assignment);
                                    assert(it2.seq().unref().to_set().contains(*assignment));
                                    assert(self.grants(privilege.name, identity_name, request_url, claims));
                                }"""),
                        ("for assignment in assignments", None, "after", """
                    proof {
                        assert forall|idn: String| !self.grants(privilege.name, idn, request_url, claims) by {
                            if self.grants(privilege.name, idn, request_url, claims) {
                                assert(assignments@.contains(idn));
                                assert(tried.contains(idn));
                            }
                        }
                    }"""),
                        ("if any_privilege_matched {", None, "before", """
        proof {
            assert forall|pn: String| self.privileges@.contains_key(pn) implies done.contains(pn) by {
                let v = self.privileges@[pn];
                assert(self.privileges@.values().contains(v));
            }
        }"""),
                    ],
                    loop_ends={0: "proof { done = done.insert(privilege.name); }"},
                )
    with u.mod("key_keeper"):
        with u.mod("key", uses="use std::collections::HashMap;\nuse crate::proxy::{proxy_connection::ConnectionLogger, Claims};\nuse http::Uri;\nuse log::Level as LoggerLevel;"):
            u.take(key, "Privilege", "struct")
            u.take(key, "Identity", "struct")
            for t in ("Role", "RoleAssignment", "AccessControlRules", "AuthorizationItem"):
                u.take(key, t, "struct")
            with u.impl_(key, "Privilege"):
                u.take_fn(key, "Privilege::is_match", external_body=True, contract="""
        ensures r == pmatch(*self, *request_url),
""")
            with u.impl_(key, "Identity"):
                u.take_fn(key, "Identity::is_match", external_body=True, contract="""
        ensures r == imatch(*self, *claims),
""")
