# unit `authz` (C02): authorization_rules.rs is_allowed / from_authorization_item, key.rs is_match, hyper_client query_pairs
import os, sys
from vxlib import Undecided
sys.path.insert(0, os.path.join(os.path.dirname(os.path.dirname(os.path.abspath(__file__))), 'common'))
import stubs
HERE = os.path.dirname(os.path.abspath(__file__))
COMMON = os.path.join(os.path.dirname(HERE), "common")

ASSUMPTIONS = [
    "str::to_lowercase is `lower` (uninterpreted, idempotent); Uri::path/query are uri_path/uri_query",
    "HashMap/HashSet iteration visits exactly the entries (vstd model, obeys_key_model::<String>())",
    "ConnectionLogger::write only logs",
]
FN_PROPS = {}


def FAI(u, ar):
    """ComputedAuthorizationItem::from_authorization_item (document -> tables)"""
    it = ar.item("ComputedAuthorizationItem::from_authorization_item", "fn")
    colls = [c for c in it["calls"] if c["kind"] == "method" and c["callee"] == "collect"]
    if len(colls) != 3:
        raise Undecided("from_authorization_item: expected three `.into_iter().map(..).collect()` chains, found %d" % len(colls))
    e9 = []
    for c, (ty, last) in zip(sorted(colls, key=lambda c: c["span"][0]), (("Role", "last_role"), ("Identity", "last_ident"), ("Privilege", "last_priv"))):
        txt = ar.s(c["span"][0], c["span"][1])
        m = __import__("re").match(r"(\w+)\s*\.into_iter\(\)", txt)
        if not m:
            raise Undecided("from_authorization_item: collect chain does not start with `<vec>.into_iter()`")
        v = m.group(1)
        e9.append(((c["span"][0], c["span"][1]), None, "%s: Vec<crate::key_keeper::key::%s>" % (v, ty), v,
                   "std::collections::HashMap<String, crate::key_keeper::key::%s>" % ty, """
    ensures forall|k: String| #[trigger] r@.contains_key(k) <==> %s(%s@, k) >= 0,
            forall|k: String| r@.contains_key(k) ==> #[trigger] r@[k] == %s@[%s(%s@, k)],""" % (last, v, v, last, v),
                   dict(name="vx_e9_index_by_name_" + ty.lower(), local=True)))
    with u.impl_(ar, "ComputedAuthorizationItem"):
        u.take_fn(ar, "ComputedAuthorizationItem::from_authorization_item", e9=e9, extra_attrs="#[verifier::loop_isolation(false)]",
                  desugar_for={0: "vx_ra", 1: "vx_pn", 2: "vx_id"},
                  pre_body="broadcast use vstd::std_specs::hash::group_hash_axioms;\nbroadcast use axiom_str_ext, axiom_deref_key_updated, axiom_string_ext;\nproof { lits_modes(); }\nlet ghost d0 = authorization_item;",
                  loops={0: FAI_INV_OUTER, 1: FAI_INV_MID, 2: FAI_INV_IN},
                  loop_ends={1: """proof {
    if last_priv(l.privileges, *privilege_name) < 0 { assert(*privilege_name == rp[j]); lemma_tbl_priv_skipped(privilege_assignments@, l, n, j); }
    j = j + 1;
}"""},
                  hints=[
                      ("for role_assignment in role_assignments", None, "before", FAI_PRE_OUTER),
                      ("for privilege_name in &role.privileges", None, "before", FAI_PRE_MID),
                      ("let assignments =", 0, "before", FAI_PRE_ASSIGN),
                      ("for identity_name in &role_assignment.identities", None, "before", FAI_POST_ASSIGN),
                      ("if !identity_dict.contains_key(identity_name)", None, "before", "proof { assert(*identity_name == ri[t]); t = t + 1; }"),
                      ("for identity_name in &role_assignment.identities", None, "after", """
proof {
    let pa2 = privilege_assignments@;
    let pn0 = *privilege_name;
    assert(pa2.contains_key(pn0));
    assert forall|idn: String| #[trigger] pa2[pn0]@.contains(idn) <==> ((pa_b.contains_key(pn0) && pa_b[pn0]@.contains(idn))
        || (last_ident(l.identities, idn) >= 0 && l.assignments[n].identities@.contains(idn))) by {
        if l.assignments[n].identities@.contains(idn) { let y = l.assignments[n].identities@.index_of(idn); assert(ri[y] == idn); }
    }
    lemma_tbl_priv_done(pa_b, pa2, l, n, j, pn0);
}"""),
                      ("for privilege_name in &role.privileges", None, "after", "proof { lemma_tbl_assignment_done(privilege_assignments@, l, n); n = n + 1; }"),
                      ("continue;", 1, "before", "proof { lemma_last_role_range(l.roles, role_assignment.role); assert(role_assignment == ras[n]); lemma_tbl_assignment_done(privilege_assignments@, l, n); n = n + 1; }"),
                      ("ComputedAuthorizationItem {", None, "before", """
proof {
        assert forall|k: String| #[trigger] privilege_dict@.contains_key(k) implies privilege_dict@[k].name == k by {
        lemma_last_priv_range(doc_lists(d0).privileges, k);
    }
}"""),
                  ],
                  contract="""
        requires obeys_key_model::<String>(),
        ensures repr(authorization_item, r),  // @C02.from_authorization_item.tables_represent_the_document
                r.wf(),                       // @C02.from_authorization_item.entries_filed_under_their_own_name
""")


FAI_PRE_OUTER = '\nlet ghost l = doc_lists(d0);\nlet ghost ras = role_assignments@;\nlet ghost mut n: int = 0;\nproof {\n    assert(l.assignments == ras); assert(l.roles == roles@); assert(l.privileges == privileges@); assert(l.identities == identities@);\n}\n'
FAI_INV_OUTER = '\n    invariant\n        0 <= n <= ras.len(),\n        IteratorSpec::obeys_prophetic_iter_laws(&vx_ra), IteratorSpec::decrease(&vx_ra) is Some,\n        IteratorSpec::remaining(&vx_ra) == ras.subrange(n, ras.len() as int),\n        table_inv(privilege_assignments@, l, n, 0, 0),\n    decreases IteratorSpec::decrease(&vx_ra)->0,\n'
FAI_PRE_MID = '\nlet ghost rp = role.privileges@;\nlet ghost mut j: int = 0;\nproof {\n    lemma_last_role_range(l.roles, role_assignment.role);\n    assert(role_assignment == ras[n]);\n    assert(*role == l.roles[last_role(l.roles, role_assignment.role)]);\n}\n'
FAI_INV_MID = '\n    invariant\n        0 <= j <= rp.len(), 0 <= n < ras.len(),\n        IteratorSpec::obeys_prophetic_iter_laws(&vx_pn), IteratorSpec::decrease(&vx_pn) is Some,\n        IteratorSpec::remaining(&vx_pn).len() == rp.len() - j,\n        forall|i: int| 0 <= i < IteratorSpec::remaining(&vx_pn).len() ==> *(#[trigger] IteratorSpec::remaining(&vx_pn)[i]) == rp[j + i],\n        table_inv(privilege_assignments@, l, n, j, 0),\n    decreases IteratorSpec::decrease(&vx_pn)->0,\n'
FAI_PRE_ASSIGN = '\nlet ghost pa_b = privilege_assignments@;\nproof { assert(*privilege_name == rp[j]); }\n'
FAI_POST_ASSIGN = '\nlet ghost base = assignments@;\nlet ghost ri = role_assignment.identities@;\nlet ghost mut t: int = 0;\nproof {\n    assert(base == (if pa_b.contains_key(*privilege_name) { pa_b[*privilege_name]@ } else { Set::<String>::empty() }));\n}\n'
FAI_INV_IN = '\n    invariant\n        0 <= t <= ri.len(),\n        IteratorSpec::obeys_prophetic_iter_laws(&vx_id), IteratorSpec::decrease(&vx_id) is Some,\n        IteratorSpec::remaining(&vx_id).len() == ri.len() - t,\n        forall|i: int| 0 <= i < IteratorSpec::remaining(&vx_id).len() ==> *(#[trigger] IteratorSpec::remaining(&vx_id)[i]) == ri[t + i],\n        forall|idn: String| #[trigger] assignments@.contains(idn) <==> (base.contains(idn) || (last_ident(l.identities, idn) >= 0 && exists|y: int| 0 <= y < t && #[trigger] ri[y] == idn)),\n    decreases IteratorSpec::decrease(&vx_id)->0,\n'


def build(u):
    ar = u.src("proxy_agent/src/proxy/authorization_rules.rs")
    pc = u.src("proxy_agent/src/proxy/proxy_connection.rs")
    px = u.src("proxy_agent/src/proxy.rs")
    key = u.src("proxy_agent/src/key_keeper/key.rs")
    hc = u.src("proxy_agent/src/common/hyper_client.rs")
    u.features += ["allocator_api", "sized_hierarchy"]
    u.features += ["pattern"]
    for f in ("str_axioms.rs", "ext_types.rs", "std_string.rs"):
        u.raw(open(os.path.join(COMMON, f)).read())
    u.raw("use vstd::std_specs::hash::*;")
    u.raw(open(os.path.join(COMMON, "hash_iter.rs")).read())
    u.raw(open(os.path.join(COMMON, "hash_str.rs")).read())
    u.raw_file("spec.rs")
    u.raw_file("fai_spec.rs")
    u.raw_file("deps.rs")
    with u.mod("proxy", uses="use std::{ffi::OsString, path::PathBuf};"):
        u.take(px, "Claims", "struct", keep_derive=("Clone",))
        with u.mod("proxy_connection", uses="use log::Level as LoggerLevel;"):
            u.take(pc, "ConnectionLogger", "struct")
            with u.impl_(pc, "ConnectionLogger"):
                u.take_fn(pc, "ConnectionLogger::write", external_body=True)
        with u.mod("authorization_rules", uses="use super::{proxy_connection::ConnectionLogger, Claims};\nuse crate::key_keeper::key::{Identity, Privilege};\nuse std::collections::{HashMap, HashSet};\nuse log::Level as LoggerLevel;\nuse vstd::std_specs::hash::*;\nuse crate::key_keeper::key::{AuthorizationItem, Role};\nuse crate::common::logger;\nuse std::str::FromStr;"):
            u.take(ar, "AuthorizationMode", "enum", structural=True)
            with u.impl_(ar, "<AuthorizationMode as std::str::FromStr>"):
                u.take(ar, "<AuthorizationMode as std::str::FromStr>::Err", "impl_type", make_pub=False)
                u.take_fn(ar, "<AuthorizationMode as std::str::FromStr>::from_str", make_pub=False,
                          pre_body="broadcast use axiom_str_ext;\nproof { lits_modes(); }",
                          contract="""
        ensures (r matches Ok(m) ==> m == mode_of(s@) && (m == AuthorizationMode::Disabled ==> lower(s@) == "disabled"@)),
                (r is Err ==> mode_of(s@) == AuthorizationMode::Disabled),   // @C02+C11+C01.AuthorizationMode_from_str.three_modes_case_insensitive
""")
            u.take(ar, "ComputedAuthorizationItem", "struct")
            FAI(u, ar)
            with u.impl_(ar, "ComputedAuthorizationItem"):
                u.take_fn(ar, "ComputedAuthorizationItem::is_allowed",
                    extra_attrs="#[verifier::loop_isolation(false)]",
                    contract="""
        requires obeys_key_model::<String>(), self.wf(),
        ensures r == is_allowed_spec(*self, request_url, claims),  // @C02.is_allowed.equals_declared_decision
                self.mode == AuthorizationMode::Disabled ==> r,     // @C11.is_allowed.disabled_allows_without_consulting_rules
""",
                    pre_body="""broadcast use vstd::std_specs::hash::group_hash_axioms;
broadcast use axiom_fmt_uri;
let ghost mut done: Set<String> = Set::empty();
""",
                    loop_iter_names={0: "it", 1: "it2"},
                    loops={0: """
            invariant
                it.seq().unref().to_set() == self.privileges@.values(),
                forall|pn: String, idn: String| done.contains(pn) ==> !(#[trigger] self.grants(pn, idn, request_url, claims)),
                any_privilege_matched == exists|pn: String| done.contains(pn) && self.privileges@.contains_key(pn) && pmatch(#[trigger] self.privileges@[pn], request_url),
                forall|v: Privilege| #[trigger] it.seq().unref().contains(v) ==> done.contains(v.name)
                    || exists|i: int| it.index@ <= i < it.seq().len() && it.seq().unref()[i] == v,
""", 1: """
                        invariant
                            it2.seq().unref().to_set() == assignments@,
                            forall|idn: String| tried.contains(idn) ==> !(#[trigger] self.grants(privilege.name, idn, request_url, claims)),
                            forall|idn: String| #[trigger] it2.seq().unref().contains(idn) ==> tried.contains(idn)
                                || exists|j: int| it2.index@ <= j < it2.seq().len() && it2.seq().unref()[j] == idn,
                            self.privileges@.contains_key(privilege.name) && self.privileges@[privilege.name] == *privilege,
                            self.privilegeAssignments@.contains_key(privilege.name) && self.privilegeAssignments@[privilege.name] == *assignments,
"""},
                    hints=[
                        ("let privilege_name = &privilege.name;", None, "after", """
            proof {
                let i0 = it.index@;
                assert(it.seq().unref()[i0] == *privilege);
                assert(it.seq().unref().to_set().contains(*privilege));
                assert(self.privileges@.values().contains(*privilege));
                let k = choose|k: String| self.privileges@.contains_key(k) && self.privileges@[k] == *privilege;
                assert(k == privilege.name);
            }"""),
                        ("for assignment in assignments", None, "before", "let ghost mut tried: Set<String> = Set::empty();"),
                        ("let identity_name = assignment.clone();", None, "after", "proof { tried = tried.insert(*assignment); }"),
                        ("return true;", 1, "before", """
                                proof {
                                    let j0 = it2.index@;
                                    assert(it2.seq().unref()[j0] == *assignment);
                                    assert(it2.seq().unref().to_set().contains(*assignment));
                                    assert(self.grants(privilege.name, identity_name, request_url, claims));
                                }"""),
                        ("for assignment in assignments", None, "after", """
                    proof {
                        assert forall|idn: String| !self.grants(privilege.name, idn, request_url, claims) by {
                            if self.grants(privilege.name, idn, request_url, claims) {
                                assert(assignments@.contains(idn));
                                assert(tried.contains(idn));
                            }
                        }
                    }"""),
                        ("if any_privilege_matched {", None, "before", """
        proof {
            assert forall|pn: String| self.privileges@.contains_key(pn) implies done.contains(pn) by {
                let v = self.privileges@[pn];
                assert(self.privileges@.values().contains(v));
            }
        }"""),
                    ],
                    loop_ends={0: "proof { done = done.insert(privilege.name); }"},
                )
    with u.mod("common"):
        stubs.agent_logger_mod(u)
        with u.mod("hyper_client", uses="use http::Uri;"):
            u.take_fn(hc, "query_pairs",
                extra_attrs="#[verifier::loop_isolation(false)]",
                contract="""
        ensures pairs_view(r@) == url_pairs(*uri),  // @C02+C04.query_pairs.parses_every_parameter
""",
                pre_body="proof { reveal_strlit(\"\"); assert(\"\"@.len() == 0); assert(\"\"@ =~= Seq::<char>::empty()); }\nlet ghost q: Seq<char> = match uri_query(*uri) { Some(x) => x, None => Seq::<char>::empty() };",
                desugar_for={0: "vx_it"},
                loops={0: """
        invariant
            query@ == q,
            vx_split_remaining(&vx_it).len() <= split_char(q, '&').len(),
            forall|j: int| 0 <= j < vx_split_remaining(&vx_it).len() ==> (#[trigger] vx_split_remaining(&vx_it)[j])@ == split_char(q, '&')[split_char(q, '&').len() - vx_split_remaining(&vx_it).len() + j],
            pairs_view(pairs@) == pairs_of_pieces(split_char(q, '&').subrange(0, split_char(q, '&').len() - vx_split_remaining(&vx_it).len())),
        decreases vx_split_remaining(&vx_it).len(),
"""},
                hints=[
                    ("for pair in", None, "before", "proof { assert(split_char(q, '&').subrange(0, 0) =~= Seq::<Seq<char>>::empty()); assert(pairs_view(pairs@) =~= Seq::<(Seq<char>, Seq<char>)>::empty()); }"),
                    ("let mut split = ", None, "before", """
            proof {
                let ps = split_char(q, '&');
                let i0 = ps.len() - vx_split_remaining(&vx_it).len() - 1;
                assert(ps.subrange(0, i0 + 1).drop_last() =~= ps.subrange(0, i0));
                assert(ps.subrange(0, i0 + 1).last() == pair@);
            }"""),
                    ("pairs.push(", None, "after", """
            proof {
                let ps = split_char(q, '&');
                let i0 = ps.len() - vx_split_remaining(&vx_it).len() - 1;
                assert(pairs@.last().0@ == key@ && pairs@.last().1@ == value@);
                assert(pairs_view(pairs@) =~= pairs_of_pieces(ps.subrange(0, i0)).push((key@, value@)));
                assert(piece_to_pair(pair@) == (key@, value@));
            }"""),
                    ("pairs", -1, "before", "proof { assert(split_char(q, '&').subrange(0, split_char(q, '&').len() as int) =~= split_char(q, '&')); }"),
                ],
                e9=[
                    ("query.split('&')", None, "query: &'a str", "query", "VxSplit<'a>", """
    ensures vx_split_remaining(&r).len() == split_char(query@, '&').len(),
            forall|i: int| 0 <= i < vx_split_remaining(&r).len() ==> (#[trigger] vx_split_remaining(&r)[i])@ == split_char(query@, '&')[i],""",
                     dict(name="vx_e11_split_amp", generics="<'a>", wrap="VxSplit")),
                    ("pair.splitn(2, '=')", None, "pair: &'a str", "pair", "VxSplitN<'a>", """
    ensures vx_splitn_remaining(&r).len() == (if split_once_eq(pair@).1 is Some { 2int } else { 1int }),
            vx_splitn_remaining(&r)[0]@ == split_once_eq(pair@).0,
            split_once_eq(pair@).1 matches Some(v) ==> vx_splitn_remaining(&r)[1]@ == v,""",
                     dict(name="vx_e11_splitn_eq", generics="<'a>", wrap="VxSplitN")),
                ],
            )
    with u.mod("key_keeper"):
        with u.mod("key", uses="use std::collections::HashMap;\nuse crate::proxy::{proxy_connection::ConnectionLogger, Claims};\nuse http::Uri;\nuse log::Level as LoggerLevel;\nuse std::ffi::OsString;\nuse std::path::PathBuf;\nuse crate::common::hyper_client;\nuse vstd::std_specs::hash::*;"):
            u.take(key, "Privilege", "struct")
            u.take(key, "Identity", "struct")
            for t in ("Role", "RoleAssignment", "AccessControlRules", "AuthorizationItem"):
                u.take(key, t, "struct")
            with u.impl_(key, "Privilege"):
                pit = key.item("Privilege::is_match", "fn")
                finds = [c for c in pit["calls"] if c["kind"] == "method" and c["callee"] == "find"]
                intos = [c for c in pit["calls"] if c["kind"] == "method" and c["callee"] == "into_iter"]
                if len(finds) != 1 or len(intos) != 1 or len(pit["closures"]) != 1:
                    raise Undecided("Privilege::is_match: expected one .into_iter().find(closure) chain")
                fnd, into, clo = finds[0], intos[0], pit["closures"][0]
                if not (fnd["receiver"] == into["span"] and fnd["span"][0] <= clo["span"][0] and clo["span"][1] <= fnd["span"][1]):
                    raise Undecided("Privilege::is_match: find/into_iter/closure nesting changed")
                recv = key.s(into["receiver"][0], into["receiver"][1])          # hyper_client::query_pairs(request_url)
                tail = key.s(into["receiver"][1], fnd["span"][1])               # .into_iter().find(|(k, _)| ...)
                u.take_fn(key, "Privilege::is_match",
                    extra_attrs="#[verifier::loop_isolation(false)]",
                    contract="""
        requires obeys_key_model::<String>(),
        ensures r == pmatch(*self, *request_url),  // @C02.Privilege_is_match.equals_declared_match
""",
                    pre_body="broadcast use vstd::std_specs::hash::group_hash_axioms;\nbroadcast use axiom_pat_view_string;\nbroadcast use axiom_lower_idempotent;",
                    loop_iter_names={0: "it"},
                    loops={0: """
                    invariant
                        self.queryParameters == Some(*query_parameters),
                        forall|i: int| 0 <= i < it.seq().len() ==> query_parameters@.contains_key(*(#[trigger] it.seq()[i]).0) && query_parameters@[*it.seq()[i].0] == *it.seq()[i].1,
                        forall|k: String| query_parameters@.contains_key(k) ==> exists|i: int| 0 <= i < it.seq().len() && *(#[trigger] it.seq()[i]).0 == k,
                        forall|i: int| 0 <= i < it.index@ ==> param_ok(url_pairs(*request_url), (*(#[trigger] it.seq()[i]).0)@, (*it.seq()[i].1)@),
"""},
                    hints=[
                        ("return false;", 0, "before", "proof { let i0 = it.index@; assert(*it.seq()[i0].0 == *key); assert(query_parameters@.contains_key(*key)); }"),
                        ("return false;", 1, "before", "proof { let i0 = it.index@; assert(*it.seq()[i0].0 == *key); assert(query_parameters@.contains_key(*key)); }"),
                    ],
                    e9=[((fnd["span"][0], fnd["span"][1]), None, "pairs: Vec<(String, String)>, key: &String", recv + ", key",
                         "Option<(String, String)>", """
    ensures (r matches Some(p) ==> first_value(pairs_view(pairs@), key@) == Some(p.1@)),
            (r is None ==> first_value(pairs_view(pairs@), key@) is None),""",
                         dict(name="vx_e9_first_pair_with_key", body="pairs" + tail))],
                )
            # E5c: the closure given to `find` is lifted verbatim and verified: it is the predicate of first_value
            u.slice_fn(key, "Privilege::is_match", "vx_closure_find_key", clo["body"][0], clo["body"][1],
                       "k: &String, key: &String", ret_type="bool", contract="""
        ensures r == (lower(k@) == lower(key@)),  // @C02.Privilege_is_match.query_key_compared_case_insensitively
""", what="(closure passed to find)")
            with u.impl_(key, "Identity"):
                u.take_fn(key, "Identity::is_match",
                    extra_attrs="#[verifier::loop_isolation(false)]",
                    contract="""
        ensures r == imatch(*self, *claims),  // @C02.Identity_is_match.every_stated_attribute_equals_callers
""",
                    pre_body="broadcast use axiom_os_of_string, axiom_path_of_string, axiom_string_obeys_eq_spec, axiom_string_eq_spec;",
                    loop_iter_names={0: "it"},
                    loops={0: """
                invariant
                    it.seq().len() == claims.userGroups@.len(),
                    forall|i: int| 0 <= i < it.seq().len() ==> *(#[trigger] it.seq()[i]) == claims.userGroups@[i],
                    !matched,
                    forall|i: int| 0 <= i < it.index@ ==> claims.userGroups@[i]@ != group_name@,
"""},
                    hints=[("matched = true;", None, "before", "proof { let i0 = it.index@; assert(*it.seq()[i0] == claims.userGroups@[i0]); }")],
                )
