// ---- proof vocabulary for from_authorization_item (ghost only) ---------------------------------------------------
// granted by one of the first n role assignments
pub open spec fn granted_upto(l: DocLists, pn: String, idn: String, n: int) -> bool {
    &&& last_priv(l.privileges, pn) >= 0
    &&& last_ident(l.identities, idn) >= 0
    &&& exists|a: int| 0 <= a < n && #[trigger] assignment_grants(l, l.assignments[a], pn, idn)
}
// ... or by the part of assignment number n processed so far: privileges [0, j) of its role completely, and for
// privilege number j the identities [0, t)
pub open spec fn granted_by_current(l: DocLists, pn: String, idn: String, n: int, j: int, t: int) -> bool {
    let ra = l.assignments[n];
    let r = last_role(l.roles, ra.role);
    &&& last_priv(l.privileges, pn) >= 0
    &&& last_ident(l.identities, idn) >= 0
    &&& r >= 0
    &&& ((exists|x: int| 0 <= x < j && #[trigger] l.roles[r].privileges@[x] == pn && ra.identities@.contains(idn))
         || (0 <= j < l.roles[r].privileges@.len() && l.roles[r].privileges@[j] == pn
             && exists|y: int| 0 <= y < t && #[trigger] ra.identities@[y] == idn))
}
pub open spec fn tbl_row(pa: Map<String, std::collections::HashSet<String>>, pn: String, idn: String) -> bool {
    pa.contains_key(pn) && pa[pn]@.contains(idn)
}
pub open spec fn table_inv(pa: Map<String, std::collections::HashSet<String>>, l: DocLists, n: int, j: int, t: int) -> bool {
    forall|pn: String, idn: String| #[trigger] tbl_row(pa, pn, idn) <==> (granted_upto(l, pn, idn, n) || granted_by_current(l, pn, idn, n, j, t))
}
pub proof fn lemma_last_priv_range(s: Seq<Privilege>, n: String)
    ensures -1 <= last_priv(s, n) < s.len(), last_priv(s, n) >= 0 ==> s[last_priv(s, n)].name == n,
    decreases s.len()
{ if s.len() > 0 { lemma_last_priv_range(s.drop_last(), n); } }
pub proof fn lemma_last_ident_range(s: Seq<Identity>, n: String)
    ensures -1 <= last_ident(s, n) < s.len(), last_ident(s, n) >= 0 ==> s[last_ident(s, n)].name == n,
    decreases s.len()
{ if s.len() > 0 { lemma_last_ident_range(s.drop_last(), n); } }
pub proof fn lemma_last_role_range(s: Seq<Role>, n: String)
    ensures -1 <= last_role(s, n) < s.len(), last_role(s, n) >= 0 ==> s[last_role(s, n)].name == n,
    decreases s.len()
{ if s.len() > 0 { lemma_last_role_range(s.drop_last(), n); } }

pub proof fn lemma_tbl_at(pa: Map<String, std::collections::HashSet<String>>, l: DocLists, n: int, j: int, t: int, p: String, idn: String)
    requires table_inv(pa, l, n, j, t),
    ensures tbl_row(pa, p, idn) <==> (granted_upto(l, p, idn, n) || granted_by_current(l, p, idn, n, j, t)),
{}
pub proof fn lemma_tbl_priv_done(pa_b: Map<String, std::collections::HashSet<String>>, pa2: Map<String, std::collections::HashSet<String>>, l: DocLists, n: int, j: int, pn: String)
    requires
        table_inv(pa_b, l, n, j, 0), 0 <= n < l.assignments.len(),
        last_role(l.roles, l.assignments[n].role) >= 0,
        0 <= j < l.roles[last_role(l.roles, l.assignments[n].role)].privileges@.len(),
        pn == l.roles[last_role(l.roles, l.assignments[n].role)].privileges@[j],
        last_priv(l.privileges, pn) >= 0,
        pa2.contains_key(pn),
        forall|o: String| o != pn ==> (#[trigger] pa2.contains_key(o) == pa_b.contains_key(o)) && (pa_b.contains_key(o) ==> pa2[o] == pa_b[o]),
        forall|idn: String| #[trigger] pa2[pn]@.contains(idn) <==> ((pa_b.contains_key(pn) && pa_b[pn]@.contains(idn))
            || (last_ident(l.identities, idn) >= 0 && l.assignments[n].identities@.contains(idn))),
    ensures table_inv(pa2, l, n, j + 1, 0),
{
    let ra = l.assignments[n];
    let r = last_role(l.roles, ra.role);
    let ps = l.roles[r].privileges@;
    assert forall|p: String, idn: String| #[trigger] tbl_row(pa2, p, idn)
        <==> (granted_upto(l, p, idn, n) || granted_by_current(l, p, idn, n, j + 1, 0)) by {
        lemma_tbl_at(pa_b, l, n, j, 0, p, idn);
        if granted_by_current(l, p, idn, n, j + 1, 0) {
            let x = choose|x: int| 0 <= x < j + 1 && #[trigger] ps[x] == p && ra.identities@.contains(idn);
            if x < j { assert(granted_by_current(l, p, idn, n, j, 0)); } else { assert(p == pn); }
        }
        if granted_by_current(l, p, idn, n, j, 0) {
            let x = choose|x: int| 0 <= x < j && #[trigger] ps[x] == p && ra.identities@.contains(idn);
            assert(0 <= x < j + 1 && ps[x] == p);
            assert(granted_by_current(l, p, idn, n, j + 1, 0));
        }
        if p == pn && last_ident(l.identities, idn) >= 0 && ra.identities@.contains(idn) {
            assert(ps[j] == p);
            assert(granted_by_current(l, p, idn, n, j + 1, 0));
        }
    }
}
pub proof fn lemma_tbl_priv_skipped(pa: Map<String, std::collections::HashSet<String>>, l: DocLists, n: int, j: int)
    requires
        table_inv(pa, l, n, j, 0), 0 <= n < l.assignments.len(),
        last_role(l.roles, l.assignments[n].role) >= 0,
        0 <= j < l.roles[last_role(l.roles, l.assignments[n].role)].privileges@.len(),
        last_priv(l.privileges, l.roles[last_role(l.roles, l.assignments[n].role)].privileges@[j]) < 0,
    ensures table_inv(pa, l, n, j + 1, 0),
{
    let ra = l.assignments[n];
    let r = last_role(l.roles, ra.role);
    let ps = l.roles[r].privileges@;
    assert forall|p: String, idn: String| #[trigger] tbl_row(pa, p, idn)
        <==> (granted_upto(l, p, idn, n) || granted_by_current(l, p, idn, n, j + 1, 0)) by {
        lemma_tbl_at(pa, l, n, j, 0, p, idn);
        if granted_by_current(l, p, idn, n, j + 1, 0) {
            let x = choose|x: int| 0 <= x < j + 1 && #[trigger] ps[x] == p && ra.identities@.contains(idn);
            assert(x < j);
            assert(granted_by_current(l, p, idn, n, j, 0));
        }
        if granted_by_current(l, p, idn, n, j, 0) {
            let x = choose|x: int| 0 <= x < j && #[trigger] ps[x] == p && ra.identities@.contains(idn);
            assert(0 <= x < j + 1 && ps[x] == p);
            assert(granted_by_current(l, p, idn, n, j + 1, 0));
        }
    }
}
pub proof fn lemma_tbl_assignment_done(pa: Map<String, std::collections::HashSet<String>>, l: DocLists, n: int)
    requires
        0 <= n < l.assignments.len(),
        last_role(l.roles, l.assignments[n].role) >= 0 ==> table_inv(pa, l, n, l.roles[last_role(l.roles, l.assignments[n].role)].privileges@.len() as int, 0),
        last_role(l.roles, l.assignments[n].role) < 0 ==> table_inv(pa, l, n, 0, 0),
    ensures table_inv(pa, l, n + 1, 0, 0),
{
    let ra = l.assignments[n];
    let r = last_role(l.roles, ra.role);
    assert forall|p: String, idn: String| #[trigger] tbl_row(pa, p, idn)
        <==> (granted_upto(l, p, idn, n + 1) || granted_by_current(l, p, idn, n + 1, 0, 0)) by {
        assert(!granted_by_current(l, p, idn, n + 1, 0, 0));
        let jj = if r >= 0 { l.roles[r].privileges@.len() as int } else { 0 };
        lemma_tbl_at(pa, l, n, jj, 0, p, idn);
        if granted_upto(l, p, idn, n + 1) {
            let a = choose|a: int| 0 <= a < n + 1 && #[trigger] assignment_grants(l, l.assignments[a], p, idn);
            if a < n { assert(granted_upto(l, p, idn, n)); } else {
                assert(assignment_grants(l, ra, p, idn));
                let x = l.roles[r].privileges@.index_of(p);
                assert(granted_by_current(l, p, idn, n, jj, 0));
            }
        }
        if granted_upto(l, p, idn, n) {
            let a = choose|a: int| 0 <= a < n && #[trigger] assignment_grants(l, l.assignments[a], p, idn);
            assert(0 <= a < n + 1);
        }
        if granted_by_current(l, p, idn, n, jj, 0) {
            let x = choose|x: int| 0 <= x < jj && #[trigger] l.roles[r].privileges@[x] == p && ra.identities@.contains(idn);
            assert(l.roles[r].privileges@.contains(p));
            assert(assignment_grants(l, l.assignments[n], p, idn));
        }
    }
}
pub proof fn lemma_tbl_final(pa: Map<String, std::collections::HashSet<String>>, l: DocLists)
    requires table_inv(pa, l, l.assignments.len() as int, 0, 0),
    ensures forall|pn: String, idn: String| #[trigger] tbl_row(pa, pn, idn) <==> granted_doc(l, pn, idn),
{
    assert forall|pn: String, idn: String| #[trigger] tbl_row(pa, pn, idn) <==> granted_doc(l, pn, idn) by {
        lemma_tbl_at(pa, l, l.assignments.len() as int, 0, 0, pn, idn);
        assert(!granted_by_current(l, pn, idn, l.assignments.len() as int, 0, 0));
        assert(granted_upto(l, pn, idn, l.assignments.len() as int) <==> granted_doc(l, pn, idn));
    }
}
