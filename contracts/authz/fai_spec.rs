// ---- proof vocabulary for from_authorization_item (ghost only) ---------------------------------------------------
// granted by one of the first n role assignments
pub open spec fn granted_upto(l: DocLists, pn: String, idn: String, n: int) -> bool {
    &&& last_priv(l.privileges, pn) >= 0
    &&& last_ident(l.identities, idn) >= 0
    &&& exists|a: int| 0 <= a < n && #[trigger] assignment_grants(l, l.assignments[a], pn, idn)
}
// ... or by the part of assignment number n processed so far: privileges [0, j) of its role completely, and for
// privilege number j the identities [0, t)
pub open spec fn granted_by_current(l: DocLists, pn: String, idn: String, n: int, j: int, t: int) -> bool {
    let ra = l.assignments[n];
    let r = last_role(l.roles, ra.role);
    &&& last_priv(l.privileges, pn) >= 0
    &&& last_ident(l.identities, idn) >= 0
    &&& r >= 0
    &&& ((exists|x: int| 0 <= x < j && #[trigger] l.roles[r].privileges@[x] == pn && ra.identities@.contains(idn))
         || (0 <= j < l.roles[r].privileges@.len() && l.roles[r].privileges@[j] == pn
             && exists|y: int| 0 <= y < t && #[trigger] ra.identities@[y] == idn))
}
pub open spec fn tbl_row(pa: Map<String, std::collections::HashSet<String>>, pn: String, idn: String) -> bool {
    pa.contains_key(pn) && pa[pn]@.contains(idn)
}
pub open spec fn table_inv(pa: Map<String, std::collections::HashSet<String>>, l: DocLists, n: int, j: int, t: int) -> bool {
    forall|pn: String, idn: String| #[trigger] tbl_row(pa, pn, idn) <==> (granted_upto(l, pn, idn, n) || granted_by_current(l, pn, idn, n, j, t))
}
pub proof fn lemma_last_priv_range(s: Seq<Privilege>, n: String)
    ensures -1 <= last_priv(s, n) < s.len(), last_priv(s, n) >= 0 ==> s[last_priv(s, n)].name == n,
    decreases s.len()
{ if s.len() > 0 { lemma_last_priv_range(s.drop_last(), n); } }
pub proof fn lemma_last_ident_range(s: Seq<Identity>, n: String)
    ensures -1 <= last_ident(s, n) < s.len(), last_ident(s, n) >= 0 ==> s[last_ident(s, n)].name == n,
    decreases s.len()
{ if s.len() > 0 { lemma_last_ident_range(s.drop_last(), n); } }
pub proof fn lemma_last_role_range(s: Seq<Role>, n: String)
    ensures -1 <= last_role(s, n) < s.len(), last_role(s, n) >= 0 ==> s[last_role(s, n)].name == n,
    decreases s.len()
{ if s.len() > 0 { lemma_last_role_range(s.drop_last(), n); } }

pub proof fn lemma_tbl_at(pa: Map<String, std::collections::HashSet<String>>, l: DocLists, n: int, j: int, t: int, p: String, idn: String)
    requires table_inv(pa, l, n, j, t),
    ensures tbl_row(pa, p, idn) <==> (granted_upto(l, p, idn, n) || granted_by_current(l, p, idn, n, j, t)),
{}
pub proof fn lemma_tbl_priv_done(pa_b: Map<String, std::collections::HashSet<String>>, pa2: Map<String, std::collections::HashSet<String>>, l: DocLists, n: int, j: int, pn: String)
    requires
        table_inv(pa_b, l, n, j, 0), 0 <= n < l.assignments.len(),
        last_role(l.roles, l.assignments[n].role) >= 0,
        0 <= j < l.roles[last_role(l.roles, l.assignments[n].role)].privileges@.len(),
        pn == l.roles[last_role(l.roles, l.assignments[n].role)].privileges@[j],
        last_priv(l.privileges, pn) >= 0,
        pa2.contains_key(pn),
        forall|o: String| o != pn ==> (#[trigger] pa2.contains_key(o) == pa_b.contains_key(o)) && (pa_b.contains_key(o) ==> pa2[o] == pa_b[o]),
        forall|idn: String| #[trigger] pa2[pn]@.contains(idn) <==> ((pa_b.contains_key(pn) && pa_b[pn]@.contains(idn))
            || (last_ident(l.identities, idn) >= 0 && l.assignments[n].identities@.contains(idn))),
    ensures table_inv(pa2, l, n, j + 1, 0),
{
    let ra = l.assignments[n];
    let r = last_role(l.roles, ra.role);
    let ps = l.roles[r].privileges@;
    assert forall|p: String, idn: String| #[trigger] tbl_row(pa2, p, idn)
        <==> (granted_upto(l, p, idn, n) || granted_by_current(l, p, idn, n, j + 1, 0)) by {
        lemma_tbl_at(pa_b, l, n, j, 0, p, idn);
        lemma_last_priv_range(l.privileges, p);
        let gb_old = granted_by_current(l, p, idn, n, j, 0);
        let gb_new = granted_by_current(l, p, idn, n, j + 1, 0);
        let hit = p == pn && last_ident(l.identities, idn) >= 0 && ra.identities@.contains(idn);
        // gb_new <==> gb_old || hit
        if gb_new {
            let x = choose|x: int| 0 <= x < j + 1 && #[trigger] ps[x] == p && ra.identities@.contains(idn);
            if x < j { assert(gb_old); } else { assert(x == j); assert(p == pn); assert(hit); }
        }
        if gb_old {
            let x = choose|x: int| 0 <= x < j && #[trigger] ps[x] == p && ra.identities@.contains(idn);
            assert(0 <= x < j + 1 && ps[x] == p);
            assert(gb_new);
        }
        if hit {
            assert(ps[j] == p && 0 <= j < j + 1);
            assert(gb_new);
        }
        assert(gb_new <==> (gb_old || hit));
        // table rows
        if p == pn {
            assert(tbl_row(pa2, p, idn) <==> (tbl_row(pa_b, p, idn) || (last_ident(l.identities, idn) >= 0 && ra.identities@.contains(idn))));
        } else {
            assert(pa2.contains_key(p) == pa_b.contains_key(p));
            assert(tbl_row(pa2, p, idn) <==> tbl_row(pa_b, p, idn));
            assert(!hit);
        }
    }
}
pub proof fn lemma_tbl_priv_skipped(pa: Map<String, std::collections::HashSet<String>>, l: DocLists, n: int, j: int)
    requires
        table_inv(pa, l, n, j, 0), 0 <= n < l.assignments.len(),
        last_role(l.roles, l.assignments[n].role) >= 0,
        0 <= j < l.roles[last_role(l.roles, l.assignments[n].role)].privileges@.len(),
        last_priv(l.privileges, l.roles[last_role(l.roles, l.assignments[n].role)].privileges@[j]) < 0,
    ensures table_inv(pa, l, n, j + 1, 0),
{
    let ra = l.assignments[n];
    let r = last_role(l.roles, ra.role);
    let ps = l.roles[r].privileges@;
    assert forall|p: String, idn: String| #[trigger] tbl_row(pa, p, idn)
        <==> (granted_upto(l, p, idn, n) || granted_by_current(l, p, idn, n, j + 1, 0)) by {
        lemma_tbl_at(pa, l, n, j, 0, p, idn);
        if granted_by_current(l, p, idn, n, j + 1, 0) {
            let x = choose|x: int| 0 <= x < j + 1 && #[trigger] ps[x] == p && ra.identities@.contains(idn);
            assert(x < j);
            assert(granted_by_current(l, p, idn, n, j, 0));
        }
        if granted_by_current(l, p, idn, n, j, 0) {
            let x = choose|x: int| 0 <= x < j && #[trigger] ps[x] == p && ra.identities@.contains(idn);
            assert(0 <= x < j + 1 && ps[x] == p);
            assert(granted_by_current(l, p, idn, n, j + 1, 0));
        }
    }
}
pub proof fn lemma_tbl_assignment_done(pa: Map<String, std::collections::HashSet<String>>, l: DocLists, n: int)
    requires
        0 <= n < l.assignments.len(),
        last_role(l.roles, l.assignments[n].role) >= 0 ==> table_inv(pa, l, n, l.roles[last_role(l.roles, l.assignments[n].role)].privileges@.len() as int, 0),
        last_role(l.roles, l.assignments[n].role) < 0 ==> table_inv(pa, l, n, 0, 0),
    ensures table_inv(pa, l, n + 1, 0, 0),
{
    let ra = l.assignments[n];
    let r = last_role(l.roles, ra.role);
    assert forall|p: String, idn: String| #[trigger] tbl_row(pa, p, idn)
        <==> (granted_upto(l, p, idn, n + 1) || granted_by_current(l, p, idn, n + 1, 0, 0)) by {
        assert(!granted_by_current(l, p, idn, n + 1, 0, 0));
        let jj = if r >= 0 { l.roles[r].privileges@.len() as int } else { 0 };
        lemma_tbl_at(pa, l, n, jj, 0, p, idn);
        if granted_upto(l, p, idn, n + 1) {
            let a = choose|a: int| 0 <= a < n + 1 && #[trigger] assignment_grants(l, l.assignments[a], p, idn);
            if a < n { assert(granted_upto(l, p, idn, n)); } else {
                assert(assignment_grants(l, ra, p, idn));
                let x = l.roles[r].privileges@.index_of(p);
                assert(granted_by_current(l, p, idn, n, jj, 0));
            }
        }
        if granted_upto(l, p, idn, n) {
            let a = choose|a: int| 0 <= a < n && #[trigger] assignment_grants(l, l.assignments[a], p, idn);
            assert(0 <= a < n + 1);
        }
        if granted_by_current(l, p, idn, n, jj, 0) {
            let x = choose|x: int| 0 <= x < jj && #[trigger] l.roles[r].privileges@[x] == p && ra.identities@.contains(idn);
            assert(l.roles[r].privileges@.contains(p));
            assert(assignment_grants(l, l.assignments[n], p, idn));
        }
    }
}
pub proof fn lemma_tbl_final(pa: Map<String, std::collections::HashSet<String>>, l: DocLists)
    requires table_inv(pa, l, l.assignments.len() as int, 0, 0),
    ensures forall|pn: String, idn: String| #[trigger] tbl_row(pa, pn, idn) <==> granted_doc(l, pn, idn),
{
    assert forall|pn: String, idn: String| #[trigger] tbl_row(pa, pn, idn) <==> granted_doc(l, pn, idn) by {
        lemma_tbl_at(pa, l, l.assignments.len() as int, 0, 0, pn, idn);
        assert(!granted_by_current(l, pn, idn, l.assignments.len() as int, 0, 0));
        assert(granted_upto(l, pn, idn, l.assignments.len() as int) <==> granted_doc(l, pn, idn));
    }
}

// The decision taken on the tables equals the decision the statement defines on the document, for every document
// (dangling names, missing sections, duplicate names = last occurrence), caller and URL.
pub proof fn lemma_tables_decision_is_document_decision(d: AuthorizationItem, c: ComputedAuthorizationItem, u: http::Uri, cl: Claims)
    requires repr(d, c),
    ensures c.decision(u, cl) == decision_doc(d, u, cl),   // @C02.lemma.decision_on_tables_equals_declared_decision_on_document
{
    let l = doc_lists(d);
    if c.mode != AuthorizationMode::Disabled {
        // grants
        if exists|pn: String, idn: String| c.grants(pn, idn, u, cl) {
            let (pn, idn) = choose|pn: String, idn: String| c.grants(pn, idn, u, cl);
            assert(tbl_row(c.privilegeAssignments@, pn, idn));
            assert(granted_doc(l, pn, idn) && pmatch(l.privileges[last_priv(l.privileges, pn)], u) && imatch(l.identities[last_ident(l.identities, idn)], cl));
        }
        if exists|pn: String, idn: String| #[trigger] granted_doc(l, pn, idn)
                && pmatch(l.privileges[last_priv(l.privileges, pn)], u) && imatch(l.identities[last_ident(l.identities, idn)], cl) {
            let (pn, idn) = choose|pn: String, idn: String| #[trigger] granted_doc(l, pn, idn)
                && pmatch(l.privileges[last_priv(l.privileges, pn)], u) && imatch(l.identities[last_ident(l.identities, idn)], cl);
            assert(tbl_row(c.privilegeAssignments@, pn, idn));
            assert(c.privileges@.contains_key(pn) && c.identities@.contains_key(idn));
            assert(c.grants(pn, idn, u, cl));
        }
        // some privilege matches
        if c.some_privilege_matches(u) {
            let pn = choose|pn: String| c.privileges@.contains_key(pn) && pmatch(#[trigger] c.privileges@[pn], u);
            assert(last_priv(l.privileges, pn) >= 0 && pmatch(l.privileges[last_priv(l.privileges, pn)], u));
        }
        if exists|pn: String| last_priv(l.privileges, pn) >= 0 && pmatch(#[trigger] l.privileges[last_priv(l.privileges, pn)], u) {
            let pn = choose|pn: String| last_priv(l.privileges, pn) >= 0 && pmatch(#[trigger] l.privileges[last_priv(l.privileges, pn)], u);
            assert(c.privileges@.contains_key(pn));
            assert(c.privileges@[pn] == l.privileges[last_priv(l.privileges, pn)]);
            assert(c.some_privilege_matches(u));
        }
    }
}
// for a section whose names are distinct, "the last item named n" is simply "the item named n"
pub proof fn lemma_doc_item_any(s: Seq<Privilege>, i: int)
    requires 0 <= i < s.len(), forall|a: int, b: int| 0 <= a < b < s.len() ==> s[a].name != s[b].name,
    ensures last_priv(s, s[i].name) == i,   // @C02.lemma.distinct_names_last_is_the_item
    decreases s.len()
{
    if i < s.len() - 1 {
        assert(s.last().name != s[i].name);
        assert(s.drop_last()[i] == s[i]);
        assert forall|a: int, b: int| 0 <= a < b < s.drop_last().len() implies s.drop_last()[a].name != s.drop_last()[b].name by {}
        lemma_doc_item_any(s.drop_last(), i);
    }
}
