// assumed specifications of std / dependency functions used by the authorization code (trusted, from their docs)
use vstd::std_specs::hash::*;
use vstd::std_specs::iter::IteratorSpec;
pub assume_specification [<http::Uri as Clone>::clone] (u: &http::Uri) -> (r: http::Uri)
    ensures r == *u;
#[verifier::external_body]
pub broadcast proof fn axiom_fmt_uri() ensures #[trigger] vstd::std_specs::fmt::fmt_req_all::<http::Uri>() {}
// `for x in &set` is `set.iter()` (std: impl IntoIterator for &HashSet calls iter()); vstd specifies `iter` only.
pub assume_specification<'a, T, S, A: std::alloc::Allocator> [<&'a std::collections::HashSet<T, S, A> as IntoIterator>::into_iter] (s: &'a std::collections::HashSet<T, S, A>) -> (r: std::collections::hash_set::Iter<'a, T>)
    ensures
        obeys_key_model::<T>() && builds_valid_hashers::<S>() ==> {
            &&& IteratorSpec::remaining(&r).unref().to_set() == s@
            &&& IteratorSpec::remaining(&r).no_duplicates()
            &&& IteratorSpec::remaining(&r).len() == s@.len()
            &&& IteratorSpec::obeys_prophetic_iter_laws(&r)
            &&& IteratorSpec::decrease(&r) is Some
        };
