// assumed specifications of std / dependency functions used by the authorization code (trusted, from their docs)
use vstd::std_specs::hash::*;
use vstd::std_specs::iter::IteratorSpec;
pub assume_specification [<http::Uri as Clone>::clone] (u: &http::Uri) -> (r: http::Uri)
    ensures r == *u;
#[verifier::external_body]
pub broadcast proof fn axiom_fmt_uri() ensures #[trigger] vstd::std_specs::fmt::fmt_req_all::<http::Uri>() {}

// ---- http::Uri ----
pub assume_specification [http::Uri::path] (u: &http::Uri) -> (r: &str)
    ensures r@ == uri_path(*u);
pub assume_specification [http::Uri::query] (u: &http::Uri) -> (r: Option<&str>)
    ensures match r { Some(q) => uri_query(*u) == Some(q@), None => uri_query(*u) is None };

// ---- core::str ----
pub assume_specification [str::to_lowercase] (s: &str) -> (r: String)
    ensures r@ == lower(s@);
pub uninterp spec fn pat_view<P>(p: P) -> Seq<char>;
pub assume_specification<P: core::str::pattern::Pattern> [str::starts_with::<P>] (s: &str, p: P) -> (r: bool)
    ensures r == is_prefix(pat_view(p), s@);
#[verifier::external_body]
pub broadcast proof fn axiom_pat_view_string(p: &String)
    ensures #[trigger] pat_view::<&String>(p) == p@ {}
// lower is idempotent (Unicode lower-casing of an already lower-cased string changes nothing)
#[verifier::external_body]
pub broadcast proof fn axiom_lower_idempotent(s: Seq<char>)
    ensures #[trigger] lower(lower(s)) == lower(s) {}

// ---- OsString / PathBuf built from a String and compared with == (std: From<&T: AsRef<OsStr>>, PartialEq) ----
pub uninterp spec fn os_of<T: ?Sized>(s: &T) -> Seq<char>;
pub uninterp spec fn path_of<T: ?Sized>(s: &T) -> Seq<Seq<char>>;
#[verifier::external_body]
pub broadcast proof fn axiom_os_of_string(s: &String) ensures #[trigger] os_of::<String>(s) == os_of_str(s@) {}
#[verifier::external_body]
pub broadcast proof fn axiom_path_of_string(s: &String) ensures #[trigger] path_of::<String>(s) == path_of_str(s@) {}
pub assume_specification<'a, T: ?Sized + AsRef<std::ffi::OsStr>> [<std::ffi::OsString as From<&'a T>>::from] (s: &T) -> (r: std::ffi::OsString)
    ensures os_view(r) == os_of::<T>(s);
pub assume_specification [<std::ffi::OsString as PartialEq>::eq] (a: &std::ffi::OsString, b: &std::ffi::OsString) -> (r: bool)
    ensures r == (os_view(*a) == os_view(*b));
pub assume_specification<'a, T: ?Sized + AsRef<std::ffi::OsStr>> [<std::path::PathBuf as From<&'a T>>::from] (s: &T) -> (r: std::path::PathBuf)
    ensures path_view(r) == path_of::<T>(s);
pub assume_specification [<std::path::PathBuf as PartialEq>::eq] (a: &std::path::PathBuf, b: &std::path::PathBuf) -> (r: bool)
    ensures r == (path_view(*a) == path_view(*b));

// ---- E11 transparent iterator newtypes for core::str::Split / SplitN (vstd cannot describe these types) ----
use vstd::std_specs::iter::*;
#[verifier::external_body]
pub struct VxSplit<'a>(core::str::Split<'a, char>);
pub uninterp spec fn vx_split_remaining<'a>(it: &VxSplit<'a>) -> Seq<&'a str>;
impl<'a> VxSplit<'a> {
    // delegates to Split::next; contract = Iterator::next on the remaining pieces
    #[verifier::external_body]
    pub fn next(&mut self) -> (r: Option<&'a str>)
        ensures
            vx_split_remaining(old(self)).len() == 0 ==> r is None && vx_split_remaining(final(self)) == vx_split_remaining(old(self)),
            vx_split_remaining(old(self)).len() > 0 ==> r == Some(vx_split_remaining(old(self))[0]) && vx_split_remaining(final(self)) == vx_split_remaining(old(self)).drop_first(),
    { self.0.next() }
}
impl<'a> Iterator for VxSplit<'a> {
    type Item = &'a str;
    #[verifier::external_body]
    fn next(&mut self) -> (r: Option<&'a str>) { self.0.next() }
}
#[verifier::external_body]
pub struct VxSplitN<'a>(core::str::SplitN<'a, char>);
pub uninterp spec fn vx_splitn_remaining<'a>(it: &VxSplitN<'a>) -> Seq<&'a str>;
impl<'a> VxSplitN<'a> {
    // delegates to SplitN::next; contract = Iterator::next on the remaining pieces
    #[verifier::external_body]
    pub fn next(&mut self) -> (r: Option<&'a str>)
        ensures
            vx_splitn_remaining(old(self)).len() == 0 ==> r is None && vx_splitn_remaining(final(self)) == vx_splitn_remaining(old(self)),
            vx_splitn_remaining(old(self)).len() > 0 ==> r == Some(vx_splitn_remaining(old(self))[0]) && vx_splitn_remaining(final(self)) == vx_splitn_remaining(old(self)).drop_first(),
    { self.0.next() }
}

