// assumed specifications of std / dependency functions used by the authorization code (trusted, from their docs)
use vstd::std_specs::hash::*;
use vstd::std_specs::iter::IteratorSpec;
pub assume_specification [<http::Uri as Clone>::clone] (u: &http::Uri) -> (r: http::Uri)
    ensures r == *u;
#[verifier::external_body]
pub broadcast proof fn axiom_fmt_uri() ensures #[trigger] vstd::std_specs::fmt::fmt_req_all::<http::Uri>() {}

// ---- http::Uri ----
pub assume_specification [http::Uri::path] (u: &http::Uri) -> (r: &str)
    ensures r@ == uri_path(*u);
pub assume_specification [http::Uri::query] (u: &http::Uri) -> (r: Option<&str>)
    ensures match r { Some(q) => uri_query(*u) == Some(q@), None => uri_query(*u) is None };

// ---- core::str ----
pub assume_specification [str::to_lowercase] (s: &str) -> (r: String)
    ensures r@ == lower(s@);
pub uninterp spec fn pat_view<P>(p: P) -> Seq<char>;
pub assume_specification<P: core::str::pattern::Pattern> [str::starts_with::<P>] (s: &str, p: P) -> (r: bool)
    ensures r == is_prefix(pat_view(p), s@);
#[verifier::external_body]
pub broadcast proof fn axiom_pat_view_string(p: &String)
    ensures #[trigger] pat_view::<&String>(p) == p@ {}
// lower is idempotent (Unicode lower-casing of an already lower-cased string changes nothing)
#[verifier::external_body]
pub broadcast proof fn axiom_lower_idempotent(s: Seq<char>)
    ensures #[trigger] lower(lower(s)) == lower(s) {}
