// Specification of C02, written from the property statement:
//  "allow if the rule set is disabled; otherwise allow iff some privilege matches the URL (case-insensitive path
//   prefix plus all listed query parameters, case-insensitively) and is granted through a role assignment to a
//   defined identity whose every stated attribute (user, group, process name, executable path) equals the
//   caller's; otherwise deny if any privilege matched the URL, else the rule set's default access. The decision
//   does not depend on the order in which privileges, roles, identities or assignments are listed, on letter
//   case of the rule's or request's path and query, or on anything else."
use crate::key_keeper::key::{Privilege, Identity, Role, RoleAssignment, AuthorizationItem, AccessControlRules};
use crate::proxy::Claims;
use crate::proxy::authorization_rules::{ComputedAuthorizationItem, AuthorizationMode};

// ---- vocabulary (uninterpreted views of std / dependency values; pinned by the assumed specs in deps.rs) ----
pub uninterp spec fn lower(s: Seq<char>) -> Seq<char>;              // str::to_lowercase
pub uninterp spec fn uri_path(u: http::Uri) -> Seq<char>;            // Uri::path
pub uninterp spec fn uri_query(u: http::Uri) -> Option<Seq<char>>;   // Uri::query
pub uninterp spec fn split_char(s: Seq<char>, c: char) -> Seq<Seq<char>>;   // str::split(char) pieces, in order
pub uninterp spec fn split_once_eq(s: Seq<char>) -> (Seq<char>, Option<Seq<char>>);  // s.splitn(2,'='): head, optional rest
pub uninterp spec fn os_of_str(s: Seq<char>) -> Seq<char>;           // OsString::from(&String) as comparable value
pub uninterp spec fn os_view(s: std::ffi::OsString) -> Seq<char>;
pub uninterp spec fn path_of_str(s: Seq<char>) -> Seq<Seq<char>>;    // PathBuf::from(&String): component view (what == compares)
pub uninterp spec fn path_view(p: std::path::PathBuf) -> Seq<Seq<char>>;

pub open spec fn is_prefix(p: Seq<char>, s: Seq<char>) -> bool { p.len() <= s.len() && s.subrange(0, p.len() as int) == p }

// ---- query parameters of a URL: pieces between '&', key = text before the first '=', value = the rest (or empty);
//      pieces with an empty key are not parameters ----
pub open spec fn piece_to_pair(piece: Seq<char>) -> (Seq<char>, Seq<char>) {
    let (k, v) = split_once_eq(piece);
    (k, match v { Some(x) => x, None => Seq::<char>::empty() })
}
pub open spec fn pairs_of_pieces(ps: Seq<Seq<char>>) -> Seq<(Seq<char>, Seq<char>)>
    decreases ps.len()
{
    if ps.len() == 0 { Seq::empty() } else {
        let rest = pairs_of_pieces(ps.drop_last());
        let pr = piece_to_pair(ps.last());
        if pr.0.len() == 0 { rest } else { rest.push(pr) }
    }
}
pub open spec fn url_pairs(u: http::Uri) -> Seq<(Seq<char>, Seq<char>)> {
    pairs_of_pieces(split_char(match uri_query(u) { Some(q) => q, None => Seq::<char>::empty() }, '&'))
}

// the value a request gives to parameter `key` (case-insensitive key): that of its FIRST occurrence.
// (Corner case the statement leaves open: a request repeating a key. lemma_first_is_any shows that for requests
//  whose keys are distinct case-insensitively this is the same as "some occurrence".)
pub open spec fn first_value(ps: Seq<(Seq<char>, Seq<char>)>, key: Seq<char>) -> Option<Seq<char>>
    decreases ps.len()
{
    if ps.len() == 0 { None } else if lower(ps[0].0) == lower(key) { Some(ps[0].1) } else { first_value(ps.subrange(1, ps.len() as int), key) }
}
pub open spec fn param_ok(ps: Seq<(Seq<char>, Seq<char>)>, key: Seq<char>, value: Seq<char>) -> bool {
    match first_value(ps, key) { Some(v) => lower(v) == lower(value), None => false }
}

pub open spec fn pairs_view(v: Seq<(String, String)>) -> Seq<(Seq<char>, Seq<char>)> {
    Seq::new(v.len(), |i: int| (v[i].0@, v[i].1@))
}

// ---- a privilege matches a URL ----
pub open spec fn pmatch(p: Privilege, u: http::Uri) -> bool {
    &&& is_prefix(lower(p.path@), lower(uri_path(u)))
    &&& match p.queryParameters {
            None => true,
            Some(qp) => forall|k: String| #[trigger] qp@.contains_key(k) ==> param_ok(url_pairs(u), k@, qp@[k]@),
        }
}

// ---- an identity matches a caller: every stated attribute equals the caller's ----
pub open spec fn imatch(i: Identity, c: Claims) -> bool {
    &&& (i.userName matches Some(n) ==> n@ == c.userName@)
    &&& (i.processName matches Some(n) ==> os_of_str(n@) == os_view(c.processName))
    &&& (i.exePath matches Some(n) ==> path_of_str(n@) == path_view(c.processFullPath))
    &&& (i.groupName matches Some(g) ==> exists|j: int| 0 <= j < c.userGroups@.len() && (#[trigger] c.userGroups@[j])@ == g@)
}

// ---- the decision, over the rule set as the agent holds it (name-indexed tables) --------------------------
impl ComputedAuthorizationItem {
    // representation invariant of the name-indexed tables: a table entry is filed under its own name
    pub open spec fn wf(&self) -> bool {
        forall|k: String| #[trigger] self.privileges@.contains_key(k) ==> self.privileges@[k].name == k
    }
    // privilege pn matches the URL and is granted to identity idn, which is defined and matches the caller
    pub open spec fn grants(&self, pn: String, idn: String, u: http::Uri, c: Claims) -> bool {
        self.privileges@.contains_key(pn) && pmatch(self.privileges@[pn], u)
        && self.privilegeAssignments@.contains_key(pn) && self.privilegeAssignments@[pn]@.contains(idn)
        && self.identities@.contains_key(idn) && imatch(self.identities@[idn], c)
    }
    pub open spec fn some_privilege_matches(&self, u: http::Uri) -> bool {
        exists|pn: String| self.privileges@.contains_key(pn) && pmatch(#[trigger] self.privileges@[pn], u)
    }
    pub open spec fn decision(&self, u: http::Uri, c: Claims) -> bool {
        if self.mode == AuthorizationMode::Disabled { true }
        else if exists|pn: String, idn: String| self.grants(pn, idn, u, c) { true }
        else if self.some_privilege_matches(u) { false }
        else { self.defaultAllowed }
    }
}
pub open spec fn is_allowed_spec(rules: ComputedAuthorizationItem, url: http::Uri, claims: Claims) -> bool {
    rules.decision(url, claims)
}

// =====================================================================================================================
// The decision over the rule DOCUMENT the host delivers (AuthorizationItem), written from the statement, and the
// representation relation between the document and the name-indexed tables the agent computes from it.
// A name that occurs more than once inside a section denotes its LAST occurrence (corner case the statement does not
// settle; lemma_doc_item_any shows that for documents with distinct names this is simply "the item with that name").
// =====================================================================================================================
pub open spec fn mode_of(m: Seq<char>) -> AuthorizationMode {
    if lower(m) == "audit"@ { AuthorizationMode::Audit } else if lower(m) == "enforce"@ { AuthorizationMode::Enforce } else { AuthorizationMode::Disabled }
}
pub struct DocLists { pub privileges: Seq<Privilege>, pub identities: Seq<Identity>, pub roles: Seq<Role>, pub assignments: Seq<RoleAssignment> }
// a missing section is an empty section
pub open spec fn opt_seq<T>(o: Option<Vec<T>>) -> Seq<T> { match o { Some(v) => v@, None => Seq::<T>::empty() } }
pub open spec fn doc_lists(d: AuthorizationItem) -> DocLists {
    match d.rules {
        Some(r) => DocLists { privileges: opt_seq(r.privileges), identities: opt_seq(r.identities), roles: opt_seq(r.roles), assignments: opt_seq(r.roleAssignments) },
        None => DocLists { privileges: seq![], identities: seq![], roles: seq![], assignments: seq![] },
    }
}
// index of the last item named `n`, or -1
pub open spec fn last_priv(s: Seq<Privilege>, n: String) -> int decreases s.len() {
    if s.len() == 0 { -1 } else if s.last().name == n { s.len() - 1 } else { last_priv(s.drop_last(), n) }
}
pub open spec fn last_ident(s: Seq<Identity>, n: String) -> int decreases s.len() {
    if s.len() == 0 { -1 } else if s.last().name == n { s.len() - 1 } else { last_ident(s.drop_last(), n) }
}
pub open spec fn last_role(s: Seq<Role>, n: String) -> int decreases s.len() {
    if s.len() == 0 { -1 } else if s.last().name == n { s.len() - 1 } else { last_role(s.drop_last(), n) }
}
// privilege named pn is granted to identity named idn: both defined, and some role assignment names a defined role that
// lists pn and lists idn among its identities
pub open spec fn granted_doc(l: DocLists, pn: String, idn: String) -> bool {
    &&& last_priv(l.privileges, pn) >= 0
    &&& last_ident(l.identities, idn) >= 0
    &&& exists|a: int| 0 <= a < l.assignments.len() && #[trigger] assignment_grants(l, l.assignments[a], pn, idn)
}
pub open spec fn assignment_grants(l: DocLists, ra: RoleAssignment, pn: String, idn: String) -> bool {
    let r = last_role(l.roles, ra.role);
    r >= 0 && l.roles[r].privileges@.contains(pn) && ra.identities@.contains(idn)
}
pub open spec fn decision_doc(d: AuthorizationItem, u: http::Uri, c: Claims) -> bool {
    let l = doc_lists(d);
    if mode_of(d.mode@) == AuthorizationMode::Disabled { true }
    else if exists|pn: String, idn: String| #[trigger] granted_doc(l, pn, idn)
                && pmatch(l.privileges[last_priv(l.privileges, pn)], u) && imatch(l.identities[last_ident(l.identities, idn)], c) { true }
    else if exists|pn: String| last_priv(l.privileges, pn) >= 0 && pmatch(#[trigger] l.privileges[last_priv(l.privileges, pn)], u) { false }
    else { lower(d.defaultAccess@) == "allow"@ }
}
// the tables represent the document
pub open spec fn repr(d: AuthorizationItem, c: ComputedAuthorizationItem) -> bool {
    let l = doc_lists(d);
    &&& c.mode == mode_of(d.mode@)
    &&& c.defaultAllowed == (lower(d.defaultAccess@) == "allow"@)
    &&& c.id == d.id
    &&& forall|k: String| #[trigger] c.privileges@.contains_key(k) <==> last_priv(l.privileges, k) >= 0
    &&& forall|k: String| c.privileges@.contains_key(k) ==> #[trigger] c.privileges@[k] == l.privileges[last_priv(l.privileges, k)]
    &&& forall|k: String| #[trigger] c.identities@.contains_key(k) <==> last_ident(l.identities, k) >= 0
    &&& forall|k: String| c.identities@.contains_key(k) ==> #[trigger] c.identities@[k] == l.identities[last_ident(l.identities, k)]
    &&& forall|pn: String, idn: String| #[trigger] tbl_row(c.privilegeAssignments@, pn, idn) <==> granted_doc(l, pn, idn)
}

proof fn lits_modes()
    ensures "disabled"@ != "audit"@, "disabled"@ != "enforce"@, "audit"@ != "enforce"@, "allow"@.len() == 5,
{
    reveal_strlit("disabled"); reveal_strlit("audit"); reveal_strlit("enforce"); reveal_strlit("allow");
    assert("disabled"@.len() == 8); assert("audit"@.len() == 5); assert("enforce"@.len() == 7);
}
