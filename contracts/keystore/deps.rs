// ---- assumed specifications of std / serde_json functions used by unit `keystore` (trusted, DESIGN 2.5 items 3 and 5) ----
#[verifier::external_type_specification] #[verifier::external_body]
pub struct ExPath(std::path::Path);
#[verifier::external_type_specification] #[verifier::external_body]
pub struct ExIoError(std::io::Error);
#[verifier::external_type_specification] #[verifier::external_body]
pub struct ExFile(std::fs::File);
#[verifier::external_type_specification] #[verifier::external_body]
pub struct ExSerdeJsonError(serde_json::Error);
#[verifier::external_type_specification] #[verifier::external_body]
pub struct ExPathDisplay<'a>(std::path::Display<'a>);

// Display / Debug of these types does not panic (needed by format!); the produced text is unconstrained.
#[verifier::external_body]
pub broadcast proof fn axiom_fmt_path_display<'a>() ensures #[trigger] vstd::std_specs::fmt::fmt_req_all::<std::path::Display<'a>>() {}
#[verifier::external_body]
pub broadcast proof fn axiom_fmt_io_error() ensures #[trigger] vstd::std_specs::fmt::fmt_req_all::<std::io::Error>() {}
#[verifier::external_body]
pub broadcast proof fn axiom_fmt_serde_json_error() ensures #[trigger] vstd::std_specs::fmt::fmt_req_all::<serde_json::Error>() {}
#[verifier::external_body]
pub broadcast proof fn axiom_fmt_shared_error() ensures #[trigger] vstd::std_specs::fmt::fmt_req_all::<proxy_agent_shared::error::Error>() {}
#[verifier::external_body]
pub broadcast proof fn axiom_fmt_error() ensures #[trigger] vstd::std_specs::fmt::fmt_req_all::<common::error::Error>() {}
pub broadcast group group_fmt { axiom_fmt_path_display, axiom_fmt_io_error, axiom_fmt_serde_json_error, axiom_fmt_shared_error, axiom_fmt_error }

// ---- std::path -----------------------------------------------------------------------------------------------------
/// the text of an `AsRef<OsStr>` / `AsRef<Path>` argument (extension, joined name)
pub uninterp spec fn os_text<S>(s: S) -> Seq<char>;
#[verifier::external_body]
pub broadcast proof fn axiom_os_text_str(s: &str) ensures #[trigger] os_text::<&str>(s) == s@ {}
#[verifier::external_body]
pub broadcast proof fn axiom_os_text_string(s: String) ensures #[trigger] os_text::<String>(s) == s@ {}
pub broadcast group group_os_text { axiom_os_text_str, axiom_os_text_string }

pub assume_specification [<std::path::PathBuf as std::ops::Deref>::deref] (p: &std::path::PathBuf) -> (r: &std::path::Path)
    ensures pid(r) == pbid(*p);
pub assume_specification [std::path::Path::to_path_buf] (p: &std::path::Path) -> (r: std::path::PathBuf)
    ensures pbid(r) == pid(p);
// std docs: "Creates an owned PathBuf with path adjoined to self."
pub assume_specification<P: core::convert::AsRef<std::path::Path>> [std::path::Path::join::<P>] (d: &std::path::Path, name: P) -> (r: std::path::PathBuf)
    ensures pbid(r) == p_join(pid(d), os_text::<P>(name));
// std docs: "Creates an owned PathBuf like self but with the given extension. See PathBuf::set_extension for more details."
pub assume_specification<S: core::convert::AsRef<std::ffi::OsStr>> [std::path::Path::with_extension::<S>] (p: &std::path::Path, ext: S) -> (r: std::path::PathBuf)
    ensures pbid(r) == p_set_ext(pid(p), os_text::<S>(ext));
pub assume_specification<S: core::convert::AsRef<std::ffi::OsStr>> [std::path::PathBuf::set_extension::<S>] (p: &mut std::path::PathBuf, ext: S) -> (r: bool)
    ensures pbid(*final(p)) == p_set_ext(pbid(*old(p)), os_text::<S>(ext));
pub assume_specification [std::path::Path::display] (_0: &std::path::Path) -> std::path::Display<'_>;

// ---- files ---------------------------------------------------------------------------------------------------------
/// the name a File handle was created / opened on
pub uninterp spec fn file_pid(f: std::fs::File) -> PathId;

// ---- field types of the (transparent) error enums: opaque ------------------------------------------------------------
#[verifier::external_type_specification] #[verifier::external_body]
pub struct ExFromHexError(hex::FromHexError);
#[verifier::external_type_specification] #[verifier::external_body]
pub struct ExInvalidUri(http::uri::InvalidUri);
#[verifier::external_type_specification] #[verifier::external_body]
pub struct ExStatusCode(http::StatusCode);
#[verifier::external_type_specification] #[verifier::external_body]
pub struct ExRecvError(tokio::sync::oneshot::error::RecvError);
#[verifier::external_type_specification] #[verifier::external_body]
pub struct ExHyperError(hyper::Error);
