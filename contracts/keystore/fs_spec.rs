// ---- C08: abstract file system (ghost, E4) shared by units `keystore` and `keykeeper` ---------------------------------
// A path is an abstract identity (`PathId`); the operations std::path offers on it are uninterpreted functions pinned by
// the assumed specs in deps.rs (written from the std documentation of Path::join / PathBuf::set_extension / extension /
// file_name). Nothing is assumed about the textual form of a path.
pub struct PathId { pub n: int }
pub uninterp spec fn pid(p: &std::path::Path) -> PathId;              // the path a &Path denotes
pub uninterp spec fn pbid(p: std::path::PathBuf) -> PathId;           // the path a PathBuf holds
pub uninterp spec fn p_join(d: PathId, name: Seq<char>) -> PathId;    // Path::join(d, name)
pub uninterp spec fn p_set_ext(p: PathId, e: Seq<char>) -> PathId;    // PathBuf::set_extension / Path::with_extension
pub uninterp spec fn p_ext(p: PathId) -> Option<Seq<char>>;           // Path::extension
pub uninterp spec fn p_has_name(p: PathId) -> bool;                   // Path::file_name().is_some()

/// an extension text for which the std documentation of set_extension promises `extension() == Some(e)` afterwards:
/// non-empty, no '.', no path separator
pub open spec fn simple_ext(e: Seq<char>) -> bool {
    e.len() > 0 && (forall|i: int| 0 <= i < e.len() ==> e[i] != '.' && e[i] != '/')
}
// std docs, PathBuf::set_extension: "Returns false and does nothing if self.file_name is None, returns true and updates
// the extension otherwise. If self.extension is None, the extension is added; otherwise it is replaced."
// std docs, Path::extension: "None, if there is no file name".
#[verifier::external_body]
pub broadcast proof fn axiom_set_ext(p: PathId, e: Seq<char>)
    ensures
        p_has_name(p) && simple_ext(e) ==> p_ext(#[trigger] p_set_ext(p, e)) == Some(e) && p_has_name(p_set_ext(p, e)),
        !p_has_name(p) ==> p_set_ext(p, e) == p,
{}
#[verifier::external_body]
pub broadcast proof fn axiom_no_name_no_ext(p: PathId)
    ensures !p_has_name(p) ==> #[trigger] p_ext(p) is None,
{}

/// the temporary names json_write_to_file uses: extension "tmp"
pub open spec fn is_tmp(p: PathId) -> bool { p_ext(p) == Some("tmp"@) }

/// THE path term under which a key with this guid is kept: `dir.join(guid)` + `set_extension("key")`.
/// store_local_key writes it and fetch_local_key reads it: the same term (C08 "is found there after restart").
pub open spec fn key_path(dir: PathId, guid: Seq<char>) -> PathId { p_set_ext(p_join(dir, guid), "key"@) }
pub open spec fn enc_path(dir: PathId, guid: Seq<char>) -> PathId { p_set_ext(p_join(dir, guid), "encrypted"@) }

pub proof fn lemma_ext_lits()
    ensures simple_ext("tmp"@), simple_ext("key"@), simple_ext("encrypted"@), "tmp"@ != "key"@, "tmp"@ != "encrypted"@, "key"@ != "encrypted"@,
{
    reveal_strlit("tmp"); reveal_strlit("key"); reveal_strlit("encrypted");
    assert("tmp"@.len() == 3); assert("key"@.len() == 3); assert("encrypted"@.len() == 9);
    assert("tmp"@[0] == 't'); assert("key"@[0] == 'k');
}
/// a key's final name is never a temporary name
pub proof fn lemma_key_path_not_tmp(dir: PathId, guid: Seq<char>)
    ensures !is_tmp(key_path(dir, guid)), !is_tmp(enc_path(dir, guid)),
{
    lemma_ext_lits();
    axiom_set_ext(p_join(dir, guid), "key"@);
    axiom_set_ext(p_join(dir, guid), "encrypted"@);
    axiom_no_name_no_ext(p_join(dir, guid));
}

/// what is under a name: nothing, a file whose content is not (yet) what any writer intended (created / truncated /
/// partly written), or a file holding the complete text a writer produced
pub enum FileState { Absent, Partial, Complete(Seq<char>) }

pub tracked struct Fs { pub ghost m: Map<PathId, FileState> }
impl Fs {
    pub open spec fn state(self, p: PathId) -> FileState { if self.m.contains_key(p) { self.m[p] } else { FileState::Absent } }
    pub open spec fn set(self, p: PathId, s: FileState) -> Fs { Fs { m: self.m.insert(p, s) } }
    /// CRASH INVARIANT (C08 "a crash never leaves a truncated or corrupt file under a key's final name"): every name that
    /// is not a temporary name is Absent or Complete. It is the precondition of every file-system primitive, i.e. it has
    /// to hold at every point where the process can die between two primitives, and the postcondition of the writers.
    pub open spec fn safe(self) -> bool { forall|p: PathId| #[trigger] self.state(p) is Partial ==> is_tmp(p) }
}

pub broadcast proof fn lemma_state_set(fs: Fs, p: PathId, s: FileState, q: PathId)
    ensures #[trigger] fs.set(p, s).state(q) == (if q == p { s } else { fs.state(q) }),
{}
pub broadcast proof fn lemma_safe_set(fs: Fs, p: PathId, s: FileState)
    requires fs.safe(), s is Partial ==> is_tmp(p),
    ensures #[trigger] fs.set(p, s).safe(),
{
    assert forall|q: PathId| #[trigger] fs.set(p, s).state(q) is Partial implies is_tmp(q) by {
        lemma_state_set(fs, p, s, q);
        if q != p { assert(fs.state(q) is Partial); }
    }
}
pub broadcast group group_fs { axiom_set_ext, axiom_no_name_no_ext, lemma_state_set, lemma_safe_set }

// ---- JSON ---------------------------------------------------------------------------------------------------------
/// the text serde_json::to_writer_pretty writes for a value (uninterpreted)
pub uninterp spec fn json_of<T: ?Sized>(obj: &T) -> Seq<char>;
// serde: `impl<T: Serialize + ?Sized> Serialize for &T` forwards to T
#[verifier::external_body]
pub broadcast proof fn axiom_json_of_ref<T>(r: &&T)
    ensures #[trigger] json_of::<&T>(r) == json_of::<T>(*r),
{}
/// what serde_json makes of a text when asked for a T (None: not a document of that type). Uninterpreted.
pub uninterp spec fn parse_json<T>(text: Seq<char>) -> Option<T>;
