# unit `keystore` (C08 file part; the atomic-write pattern also serves C16): key_keeper.rs store_local_key / store_key /
# fetch_local_key / fetch_key / check_local_key / check_key, misc_helpers.rs json_write_to_file / json_read_from_file
import os
import re
HERE = os.path.dirname(os.path.abspath(__file__))
COMMON = os.path.join(os.path.dirname(HERE), "common")

ASSUMPTIONS = [
]
FN_PROPS = {}

FS = "Tracked(fs): Tracked<&mut Fs>"
FS_RO = "Tracked(fs): Tracked<&Fs>"

# ---- the file-system primitives (E9 + E4): ASSUMED contracts, written from POSIX / std documentation ------------------
# Every primitive REQUIRES the crash invariant: the process can die right before (= right after the previous) primitive.
# File::create = open(O_WRONLY|O_CREAT|O_TRUNC): on success the name holds an empty/truncated file (Partial: not what any
# writer intended); on failure nothing changed. A path without a file name ("/", "..", "") is a directory or invalid.
CREATE_CONTRACT = """
        requires old(fs).safe(),  // @C08.File_create.crash_invariant_holds_at_this_boundary
        ensures r is Ok ==> *final(fs) == old(fs).set(pbid(*path), FileState::Partial) && file_pid(r->Ok_0) == pbid(*path),
                r is Err ==> *final(fs) == *old(fs),
                !p_has_name(pbid(*path)) ==> r is Err,
"""
# serde_json::to_writer_pretty(file, obj): writes json_of(obj) to the handle and drops (closes) it. Ok: the whole text was
# handed to the kernel (File has no user-space buffer); Err: some prefix was.
TO_WRITER_CONTRACT = """
        requires old(fs).safe(),  // @C08.to_writer_pretty.crash_invariant_holds_at_this_boundary
        ensures r is Ok ==> *final(fs) == old(fs).set(file_pid(file), FileState::Complete(json_of::<T>(obj))),
                r is Err ==> *final(fs) == old(fs).set(file_pid(file), FileState::Partial),
"""
# POSIX rename(2): atomic replacement of `to` by `from`; on failure nothing changed
RENAME_CONTRACT = """
        requires old(fs).safe(),  // @C08.fs_rename.crash_invariant_holds_at_this_boundary
        ensures r is Ok ==> !(old(fs).state(pbid(from)) is Absent),
                r is Ok && pbid(from) != pid(to) ==> *final(fs) == old(fs).set(pid(to), old(fs).state(pbid(from))).set(pbid(from), FileState::Absent),
                r is Ok && pbid(from) == pid(to) ==> *final(fs) == *old(fs),
                r is Err ==> *final(fs) == *old(fs),
"""

JSON_WRITE_CONTRACT = """
        requires
            old(fs).safe(),
            !is_tmp(pid(file_path)),
        ensures
            final(fs).safe(),  // @C08.json_write_to_file.crash_invariant_holds_on_every_exit
            r is Ok ==> final(fs).state(pid(file_path)) == FileState::Complete(json_of::<T>(obj)),  // @C08.json_write_to_file.ok_means_complete_under_final_name
            r is Err ==> final(fs).state(pid(file_path)) == old(fs).state(pid(file_path)),  // @C08.json_write_to_file.failure_leaves_final_name_as_it_was
            forall|q: PathId| q != pid(file_path) && !is_tmp(q) ==> #[trigger] final(fs).state(q) == old(fs).state(q),  // @C08.json_write_to_file.other_final_names_untouched
"""


def build(u):
    u.externs.append("serde_derive")
    mh = u.src("proxy_agent_shared/src/misc_helpers.rs")
    sherr = u.src("proxy_agent_shared/src/error.rs")
    for f in ("str_axioms.rs", "ext_types.rs", "std_string.rs"):
        u.raw(open(os.path.join(COMMON, f)).read())
    u.raw_file("fs_spec.rs")
    u.raw_file("deps.rs")
    with u.mod("proxy_agent_shared"):
        with u.mod("error"):
            u.take_ext(sherr, ["Error", "ParseVersionErrorType", "CommandErrorType"], "vx_ext_shared_error")
        with u.mod("result", uses="use super::error::Error;"):
            u.raw("pub type Result<T> = core::result::Result<T, Error>;")
        with u.mod("misc_helpers", uses="use super::result::Result;\nuse serde::de::DeserializeOwned;\nuse serde::Serialize;\nuse std::fs::{self, File};\nuse std::path::{Path, PathBuf};"):
            u.take_fn(mh, "json_write_to_file", ghost=FS,
                      pre_body="broadcast use axiom_set_ext, group_os_text;\nproof { lemma_ext_lits(); }",
                      e9=[("File::create(&temp_file_path)", None, "path: &PathBuf, " + FS, "&temp_file_path, Tracked(fs)", "std::io::Result<File>",
                           CREATE_CONTRACT, dict(name="vx_e9_file_create", body="File::create(path)", local=True)),
                          ("serde_json::to_writer_pretty(file, obj)", None, "file: File, obj: &T, " + FS, "file, obj, Tracked(fs)", "serde_json::Result<()>",
                           TO_WRITER_CONTRACT, dict(name="vx_e9_to_writer_pretty", generics="<T: ?Sized + Serialize>", local=True)),
                          ("std::fs::rename(temp_file_path, file_path)", None, "from: PathBuf, to: &Path, " + FS, "temp_file_path, file_path, Tracked(fs)", "std::io::Result<()>",
                           RENAME_CONTRACT, dict(name="vx_e9_rename", body="std::fs::rename(from, to)", local=True))],
                      contract=JSON_WRITE_CONTRACT)
