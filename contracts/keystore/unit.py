# unit `keystore` (C08 file part; the atomic-write pattern also serves C16): key_keeper.rs store_local_key / store_key /
# fetch_local_key / fetch_key / check_local_key / check_key, misc_helpers.rs json_write_to_file / json_read_from_file
import os
import re
HERE = os.path.dirname(os.path.abspath(__file__))
COMMON = os.path.join(os.path.dirname(HERE), "common")

ASSUMPTIONS = [
]
FN_PROPS = {}

FS = "Tracked(fs): Tracked<&mut Fs>"
FS_RO = "Tracked(fs): Tracked<&Fs>"

# ---- the file-system primitives (E9 + E4): ASSUMED contracts, written from POSIX / std documentation ------------------
# Every primitive REQUIRES the crash invariant: the process can die right before (= right after the previous) primitive.
# File::create = open(O_WRONLY|O_CREAT|O_TRUNC): on success the name holds an empty/truncated file (Partial: not what any
# writer intended); on failure nothing changed. A path without a file name ("/", "..", "") is a directory or invalid.
CREATE_CONTRACT = """
        requires old(fs).safe(),  // @C08.File_create.crash_invariant_holds_at_this_boundary
        ensures r is Ok ==> *final(fs) == old(fs).set(pid(path), FileState::Partial) && file_pid(r->Ok_0) == pid(path),
                r is Err ==> *final(fs) == *old(fs),
                !p_has_name(pid(path)) ==> r is Err,
"""
# serde_json::to_writer_pretty(file, obj): writes json_of(obj) to the handle and drops (closes) it. Ok: the whole text was
# handed to the kernel (File has no user-space buffer); Err: some prefix was.
TO_WRITER_CONTRACT = """
        requires old(fs).safe(),  // @C08.to_writer_pretty.crash_invariant_holds_at_this_boundary
        ensures r is Ok ==> *final(fs) == old(fs).set(file_pid(file), FileState::Complete(json_of::<T>(obj))),
                r is Err ==> *final(fs) == old(fs).set(file_pid(file), FileState::Partial),
"""
# POSIX rename(2): atomic replacement of `to` by `from`; on failure nothing changed
RENAME_CONTRACT = """
        requires old(fs).safe(),  // @C08.fs_rename.crash_invariant_holds_at_this_boundary
        ensures r is Ok ==> !(old(fs).state(pbid(from)) is Absent),
                r is Ok && pbid(from) != pid(to) ==> *final(fs) == old(fs).set(pid(to), old(fs).state(pbid(from))).set(pbid(from), FileState::Absent),
                r is Ok && pbid(from) == pid(to) ==> *final(fs) == *old(fs),
                r is Err ==> *final(fs) == *old(fs),
"""

JSON_WRITE_CONTRACT = """
        requires
            old(fs).safe(),
            !is_tmp(pid(file_path)),
        ensures
            final(fs).safe(),  // @C08.json_write_to_file.crash_invariant_holds_on_every_exit
            r is Ok ==> final(fs).state(pid(file_path)) == FileState::Complete(json_of::<T>(obj)),  // @C08.json_write_to_file.ok_means_complete_under_final_name
            r is Err ==> final(fs).state(pid(file_path)) == old(fs).state(pid(file_path)),  // @C08.json_write_to_file.failure_leaves_final_name_as_it_was
            forall|q: PathId| q != pid(file_path) && !is_tmp(q) ==> #[trigger] final(fs).state(q) == old(fs).state(q),  // @C08.json_write_to_file.other_final_names_untouched
"""


EXISTS_CONTRACT = """
        ensures r ==> !(fs.state(pbid(*p)) is Absent),
                !r ==> fs.state(pbid(*p)) is Absent || io_read_fault(pbid(*p)),
"""
# fs::read_to_string: the whole content of a complete file; whatever is there of a partial one
READ_CONTRACT = """
        ensures r is Ok ==> (match fs.state(pbid(*p)) { FileState::Complete(c) => r->Ok_0@ == c, FileState::Partial => true, FileState::Absent => false }),
                fs.state(pbid(*p)) is Complete && !io_read_fault(pbid(*p)) ==> r is Ok,
"""
FROM_STR_CONTRACT = """
        ensures match parse_key(s@) { Some(k) => r is Ok && r->Ok_0 == k, None => r is Err },
"""

KK_USES = """use self::key::Key;
use crate::common::error::{Error, KeyErrorType};
use crate::common::result::Result;
use crate::proxy_agent_shared::misc_helpers;
use std::fs;
use std::path::Path;
use std::path::PathBuf;"""

STORE_CONTRACT = """
        requires old(fs).safe(),
        ensures
            final(fs).safe(),  // @C08.%(f)s.crash_invariant_holds_on_every_exit
            r is Ok ==> stored_complete(*final(fs), pid(key_dir), *key),  // @C08.%(f)s.ok_means_complete_under_the_keys_final_name
            r is Err ==> final(fs).state(key_path(pid(key_dir), key.guid@)) == old(fs).state(key_path(pid(key_dir), key.guid@)),  // @C08.%(f)s.failure_leaves_final_name_as_it_was
            forall|q: PathId| q != key_path(pid(key_dir), key.guid@) && !is_tmp(q) ==> #[trigger] final(fs).state(q) == old(fs).state(q),  // @C08.%(f)s.other_final_names_untouched
"""
FETCH_CONTRACT = """
        requires fs.safe(),
        ensures
            %(enc)sr is Ok ==> reads_as(*fs, key_path(pid(key_dir), key_guid@), r->Ok_0),  // @C08.%(f)s.reads_the_name_store_writes
            %(enc)skey_readable(*fs, key_path(pid(key_dir), key_guid@)) ==> r is Ok,  // @C08.%(f)s.readable_key_is_found
"""
CHECK_CONTRACT = """
        requires fs.safe(),
        ensures
            r is Ok ==> read_back_identical(*fs, pid(key_dir), *key),  // @C08.%(f)s.ok_means_read_back_identical
"""


def one_call(sf, it, callee, kind=None, nargs=None):
    """the single call of `callee` in function `it` (found through the syn index, so renamed locals keep the anchor)"""
    from vxlib import Undecided
    cs = [c for c in it["calls"] if c["callee"].replace(" ", "") == callee and (kind is None or c["kind"] == kind)]
    live = []
    for c in cs:   # ignore calls inside statements dropped as cfg(windows)
        live.append(c)
    if len(live) != 1 or (nargs is not None and len(live[0]["args"]) != nargs):
        raise Undecided("%s: expected exactly one call of %s with %s argument(s), found %d" % (it["path"], callee, nargs, len(live)))
    return live[0]


def build(u):
    u.externs.append("serde_derive")
    mh = u.src("proxy_agent_shared/src/misc_helpers.rs")
    sherr = u.src("proxy_agent_shared/src/error.rs")
    err = u.src("proxy_agent/src/common/error.rs")
    kk = u.src("proxy_agent/src/key_keeper.rs")
    key = u.src("proxy_agent/src/key_keeper/key.rs")
    for f in ("str_axioms.rs", "ext_types.rs", "std_string.rs"):
        u.raw(open(os.path.join(COMMON, f)).read())
    u.raw_file("fs_spec.rs")
    u.raw_file("deps.rs")
    u.raw_file("spec.rs")
    with u.mod("common"):
        with u.mod("error"):
            # the error enums are kept verbatim outside verus!{} (thiserror derives intact) and declared TRANSPARENT external types:
            # the functions under contract construct Error::Key(KeyErrorType::..(..)) / Error::Io(..) values
            u.take_ext(err, ["Error", "HyperErrorType", "WireServerErrorType", "KeyErrorType", "AclErrorType", "BpfErrorType"], "vx_ext_error", uses="use http::{uri::InvalidUri, StatusCode};", opaque=False, transparent=False)
            for n in ("Error", "KeyErrorType"):
                u.emit("#[verifier::external_type_specification]\npub struct VxEx_vx_ext_error_%s(crate::vx_ext_error::%s);" % (n, n), "glue", "E1")
            for n in ("HyperErrorType", "WireServerErrorType", "AclErrorType", "BpfErrorType"):
                u.emit("#[verifier::external_type_specification]\n#[verifier::external_body]\npub struct VxEx_vx_ext_error_%s(crate::vx_ext_error::%s);" % (n, n), "glue", "E1")
        with u.mod("result", uses="use super::error::Error;"):
            u.raw("pub type Result<T> = core::result::Result<T, Error>;")
    with u.mod("proxy_agent_shared"):
        with u.mod("error"):
            u.take_ext(sherr, ["Error", "ParseVersionErrorType", "CommandErrorType"], "vx_ext_shared_error")
        with u.mod("result", uses="use super::error::Error;"):
            u.raw("pub type Result<T> = core::result::Result<T, Error>;")
        with u.mod("misc_helpers", uses="use super::result::Result;\nuse serde::de::DeserializeOwned;\nuse serde::Serialize;\nuse std::fs::{self, File};\nuse std::path::{Path, PathBuf};"):
            jw = mh.item("json_write_to_file", "fn")
            c_create = one_call(mh, jw, "File::create", "path", 1)
            c_writer = one_call(mh, jw, "serde_json::to_writer_pretty", "path", 2)
            c_rename = one_call(mh, jw, "std::fs::rename", "path", 2)
            arg = lambda c, i: mh.s(*c["args"][i])
            u.take_fn(mh, "json_write_to_file", ghost=FS,
                      pre_body="broadcast use group_fs, group_os_text;\nproof { lemma_ext_lits(); }",
                      e9=[(tuple(c_create["span"]), None, "path: &Path, " + FS, arg(c_create, 0) + ", Tracked(fs)", "std::io::Result<File>",
                           CREATE_CONTRACT, dict(name="vx_e9_file_create", body="File::create(path)", local=True)),
                          (tuple(c_writer["span"]), None, "file: File, obj: &T, " + FS, arg(c_writer, 0) + ", " + arg(c_writer, 1) + ", Tracked(fs)", "serde_json::Result<()>",
                           TO_WRITER_CONTRACT, dict(name="vx_e9_to_writer_pretty", generics="<T: ?Sized + Serialize>", body="serde_json::to_writer_pretty(file, obj)", local=True)),
                          (tuple(c_rename["span"]), None, "from: PathBuf, to: &Path, " + FS, arg(c_rename, 0) + ", " + arg(c_rename, 1) + ", Tracked(fs)", "std::io::Result<()>",
                           RENAME_CONTRACT, dict(name="vx_e9_rename", body="std::fs::rename(from, to)", local=True))],
                      contract=JSON_WRITE_CONTRACT)

    PRE = "broadcast use group_fs, group_os_text, group_fmt, axiom_to_string_string, axiom_json_of_ref;\nproof { lemma_ext_lits(); }"
    with u.mod("key_keeper", uses=KK_USES):
        with u.mod("key"):
            # serde derives inside verus!{} crash this Verus build: the struct is kept verbatim outside (derives intact, fields
            # made pub by E2) and declared a TRANSPARENT external type
            u.take_ext(key, ["Key"], "vx_ext_key", uses="use serde_derive::{Deserialize, Serialize};", opaque=False, transparent=True)
        u.placeholder_ext(kk, ["KeyKeeper"], "vx_ph_kk")
        with u.impl_(kk, "KeyKeeper"):
            u.take_fn(kk, "KeyKeeper::store_local_key", ghost=FS, pre_body=PRE,
                      ghost_calls=[("misc_helpers::json_write_to_file", None, "Tracked(fs)")],
                      contract=STORE_CONTRACT % dict(f="store_local_key"))
            u.take_fn(kk, "KeyKeeper::store_key", ghost=FS, ghost_calls=[("Self::store_local_key", "all", "Tracked(fs)")],
                      contract=STORE_CONTRACT % dict(f="store_key"))
            fl = kk.item("KeyKeeper::fetch_local_key", "fn")
            c_ex = one_call(kk, fl, "exists", "method", 0)
            c_rd = one_call(kk, fl, "fs::read_to_string", "path", 1)
            c_fs = one_call(kk, fl, "serde_json::from_str::<Key>", "path", 1)
            u.take_fn(kk, "KeyKeeper::fetch_local_key", ghost=FS_RO, pre_body=PRE,
                      e9=[(tuple(c_ex["span"]), None, "p: &PathBuf, " + FS_RO, "&" + kk.s(*c_ex["receiver"]) + ", Tracked(fs)", "bool", EXISTS_CONTRACT, dict(name="vx_e9_exists", body="p.exists()", local=True)),
                          (tuple(c_rd["span"]), None, "p: &PathBuf, " + FS_RO, kk.s(*c_rd["args"][0]) + ", Tracked(fs)", "std::io::Result<String>", READ_CONTRACT, dict(name="vx_e9_read_to_string", body="fs::read_to_string(p)", local=True)),
                          (tuple(c_fs["span"]), None, "s: &String", kk.s(*c_fs["args"][0]), "serde_json::Result<Key>", FROM_STR_CONTRACT, dict(name="vx_e9_key_from_str", body="serde_json::from_str::<Key>(s)", local=True))],
                      contract=FETCH_CONTRACT % dict(f="fetch_local_key", enc="!encrypted && ") + "            encrypted ==> r is Err,\n")
            u.take_fn(kk, "KeyKeeper::fetch_key", ghost=FS_RO, ghost_calls=[("Self::fetch_local_key", "all", "Tracked(fs)")],
                      contract=FETCH_CONTRACT % dict(f="fetch_key", enc=""))
            u.take_fn(kk, "KeyKeeper::check_local_key", ghost=FS_RO, pre_body=PRE, ghost_calls=[("Self::fetch_local_key", None, "Tracked(fs)")],
                      contract=CHECK_CONTRACT % dict(f="check_local_key"))
            u.take_fn(kk, "KeyKeeper::check_key", ghost=FS_RO, ghost_calls=[("Self::check_local_key", "all", "Tracked(fs)")],
                      contract=CHECK_CONTRACT % dict(f="check_key"))
