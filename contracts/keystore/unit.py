# unit `keystore` (C08 file part; the atomic-write pattern also serves C16): key_keeper.rs store_local_key / store_key /
# fetch_local_key / fetch_key / check_local_key / check_key, misc_helpers.rs json_write_to_file / json_read_from_file
import os
import re
HERE = os.path.dirname(os.path.abspath(__file__))
COMMON = os.path.join(os.path.dirname(HERE), "common")

ASSUMPTIONS = [
    "abstract file system (E4 ghost `Fs`: name -> Absent | Partial | Complete(text)); only the agent process writes the key directory "
    "(no other process, no second thread writing the same names between two primitives of one call)",
    "file-system primitives (E9 stubs whose body is the original call): File::create = open(O_CREAT|O_TRUNC): Ok leaves that name Partial and nothing "
    "else changed, Err changes nothing, a path without a file name cannot be created; serde_json::to_writer_pretty(file, obj): Ok means the whole "
    "text json_of(obj) was handed to the kernel for the name the handle was created on (File has no user-space buffer; the handle is dropped = "
    "closed on return), Err leaves it Partial; POSIX rename: atomic, Ok moves the source state onto the target and removes the source, Err changes "
    "nothing; Path::exists / fs::read_to_string / File::open / serde_json::from_reader read the state of the name (a Partial file reads as anything)",
    "durability is NOT claimed: no fsync is issued, so 'Complete' means complete in the kernel's view; the crash points covered are deaths of the "
    "agent PROCESS between two primitives, not power loss",
    "std::path (from its documentation): Path::join / to_path_buf / with_extension / PathBuf::set_extension as uninterpreted functions on abstract "
    "path identities with: set_extension(e) on a path with a file name yields extension e (e non-empty, without '.' and '/'), on a path without a "
    "file name it does nothing; a path without a file name has no extension; PathBuf derefs to the same path",
    "serde_json: json_of(&&T) == json_of(&T) (Serialize for &T forwards); round trip parse_key(json_of(k)) == Some(k) for the derived "
    "Serialize/Deserialize of Key -- used ONLY by the pure restart / naming lemmas, never by a function under contract",
    "io_read_fault(p): the 'found after restart' clauses are stated for names the OS lets the agent read (exists/read_to_string may fail on "
    "permission or device errors even for a complete file)",
    "Display/Debug of std::path::Display, io::Error, serde_json::Error and the two crate Error types do not panic (text unconstrained)",
    "Error / KeyErrorType (kept verbatim outside verus!{}, transparent) are only constructed; Result::map_err as specified by vstd",
    "E13 placeholder: KeyKeeper (the six functions are associated functions that never touch a KeyKeeper value)",
    "&str / String extensionality axioms; String::to_string of a String is an equal string",
]
FN_PROPS = {}

FS = "Tracked(fs): Tracked<&mut Fs>"
FS_RO = "Tracked(fs): Tracked<&Fs>"

# ---- the file-system primitives (E9 + E4): ASSUMED contracts, written from POSIX / std documentation ------------------
# Every primitive REQUIRES the crash invariant: the process can die right before (= right after the previous) primitive.
# File::create = open(O_WRONLY|O_CREAT|O_TRUNC): on success the name holds an empty/truncated file (Partial: not what any
# writer intended); on failure nothing changed. A path without a file name ("/", "..", "") is a directory or invalid.
CREATE_CONTRACT = """
        requires old(fs).safe(),  // @C08.File_create.crash_invariant_holds_at_this_boundary
        ensures r is Ok ==> *final(fs) == old(fs).set(pid(path), FileState::Partial) && file_pid(r->Ok_0) == pid(path),
                r is Err ==> *final(fs) == *old(fs),
                !p_has_name(pid(path)) ==> r is Err,
"""
# serde_json::to_writer_pretty(file, obj): writes json_of(obj) to the handle and drops (closes) it. Ok: the whole text was
# handed to the kernel (File has no user-space buffer); Err: some prefix was.
TO_WRITER_CONTRACT = """
        requires old(fs).safe(),  // @C08.to_writer_pretty.crash_invariant_holds_at_this_boundary
        ensures r is Ok ==> *final(fs) == old(fs).set(file_pid(file), FileState::Complete(json_of::<T>(obj))),
                r is Err ==> *final(fs) == old(fs).set(file_pid(file), FileState::Partial),
"""
# POSIX rename(2): atomic replacement of `to` by `from`; on failure nothing changed
RENAME_CONTRACT = """
        requires old(fs).safe(),  // @C08.fs_rename.crash_invariant_holds_at_this_boundary
        ensures r is Ok ==> !(old(fs).state(pbid(from)) is Absent),
                r is Ok && pbid(from) != pid(to) ==> *final(fs) == old(fs).set(pid(to), old(fs).state(pbid(from))).set(pbid(from), FileState::Absent),
                r is Ok && pbid(from) == pid(to) ==> *final(fs) == *old(fs),
                r is Err ==> *final(fs) == *old(fs),
"""

# File::open (read-only): succeeds only on an existing name
OPEN_CONTRACT = """
        ensures r is Ok ==> !(fs.state(pid(path)) is Absent) && file_pid(r->Ok_0) == pid(path),
"""
# serde_json::from_reader(file): parses the whole content of the file behind the handle
FROM_READER_CONTRACT = """
        ensures r is Ok ==> (match fs.state(file_pid(file)) {
                    FileState::Complete(c) => parse_json::<T>(c) == Some(r->Ok_0), FileState::Partial => true, FileState::Absent => false }),
"""
JSON_READ_CONTRACT = """
        requires
            fs.safe(),  // @C08.json_read_from_file.crash_invariant_on_entry
            !is_tmp(pid(file_path)),  // @C08.json_read_from_file.final_name_is_not_a_temporary_name
        ensures
            r is Ok ==> (fs.state(pid(file_path)) matches FileState::Complete(c) && parse_json::<T>(c) == Some(r->Ok_0)),  // @C08.json_read_from_file.a_reader_of_a_final_name_only_ever_parses_a_complete_document
"""

JSON_WRITE_CONTRACT = """
        requires
            old(fs).safe(),  // @C08.json_write_to_file.crash_invariant_on_entry
            !is_tmp(pid(file_path)),  // @C08.json_write_to_file.final_name_is_not_a_temporary_name
        ensures
            final(fs).safe(),  // @C08.json_write_to_file.crash_invariant_holds_on_every_exit
            r is Ok ==> final(fs).state(pid(file_path)) == FileState::Complete(json_of::<T>(obj)),  // @C08.json_write_to_file.ok_means_complete_under_final_name
            r is Err ==> final(fs).state(pid(file_path)) == old(fs).state(pid(file_path)),  // @C08.json_write_to_file.failure_leaves_final_name_as_it_was
            forall|q: PathId| q != pid(file_path) && !is_tmp(q) ==> #[trigger] final(fs).state(q) == old(fs).state(q),  // @C08.json_write_to_file.other_final_names_untouched
"""


EXISTS_CONTRACT = """
        ensures r ==> !(fs.state(pbid(*p)) is Absent),
                !r ==> fs.state(pbid(*p)) is Absent || io_read_fault(pbid(*p)),
"""
# fs::read_to_string: the whole content of a complete file; whatever is there of a partial one
READ_CONTRACT = """
        ensures r is Ok ==> (match fs.state(pbid(*p)) { FileState::Complete(c) => r->Ok_0@ == c, FileState::Partial => true, FileState::Absent => false }),
                fs.state(pbid(*p)) is Complete && !io_read_fault(pbid(*p)) ==> r is Ok,
"""
FROM_STR_CONTRACT = """
        ensures match parse_key(s@) { Some(k) => r is Ok && r->Ok_0 == k, None => r is Err },
"""

KK_USES = """use self::key::Key;
use crate::common::error::{Error, KeyErrorType};
use crate::common::result::Result;
use crate::proxy_agent_shared::misc_helpers;
use std::fs;
use std::path::Path;
use std::path::PathBuf;"""

STORE_CONTRACT = """
        requires old(fs).safe(),  // @C08.%(f)s.crash_invariant_on_entry
        ensures
            final(fs).safe(),  // @C08.%(f)s.crash_invariant_holds_on_every_exit
            r is Ok ==> stored_complete(*final(fs), pid(key_dir), *key),  // @C08.%(f)s.ok_means_complete_under_the_keys_final_name
            r is Err ==> final(fs).state(key_path(pid(key_dir), key.guid@)) == old(fs).state(key_path(pid(key_dir), key.guid@)),  // @C08.%(f)s.failure_leaves_final_name_as_it_was
            forall|q: PathId| q != key_path(pid(key_dir), key.guid@) && !is_tmp(q) ==> #[trigger] final(fs).state(q) == old(fs).state(q),  // @C08.%(f)s.other_final_names_untouched
"""
FETCH_CONTRACT = """
        requires fs.safe(),  // @C08.%(f)s.crash_invariant_on_entry
        ensures
            %(enc)sr is Ok ==> reads_as(*fs, key_path(pid(key_dir), key_guid@), r->Ok_0),  // @C08.%(f)s.reads_the_name_store_writes
            %(enc)skey_readable(*fs, key_path(pid(key_dir), key_guid@)) ==> r is Ok,  // @C08.%(f)s.readable_key_is_found
"""
CHECK_CONTRACT = """
        requires fs.safe(),  // @C08.%(f)s.crash_invariant_on_entry
        ensures
            r is Ok ==> read_back_identical(*fs, pid(key_dir), *key),  // @C08.%(f)s.ok_means_read_back_identical
"""


def one_call(sf, it, callee, kind=None, nargs=None):
    """the single call of `callee` in function `it` (found through the syn index, so renamed locals keep the anchor)"""
    from vxlib import Undecided
    cs = [c for c in it["calls"] if c["callee"].replace(" ", "") == callee and (kind is None or c["kind"] == kind)]
    live = []
    for c in cs:   # ignore calls inside statements dropped as cfg(windows)
        live.append(c)
    if len(live) != 1 or (nargs is not None and len(live[0]["args"]) != nargs):
        raise Undecided("%s: expected exactly one call of %s with %s argument(s), found %d" % (it["path"], callee, nargs, len(live)))
    return live[0]


def build(u):
    u.externs.append("serde_derive")
    mh = u.src("proxy_agent_shared/src/misc_helpers.rs")
    sherr = u.src("proxy_agent_shared/src/error.rs")
    err = u.src("proxy_agent/src/common/error.rs")
    kk = u.src("proxy_agent/src/key_keeper.rs")
    key = u.src("proxy_agent/src/key_keeper/key.rs")
    # census: the only thing in key_keeper.rs (non-test, linux) that creates or replaces a file is the json_write_to_file call
    # of store_local_key, so `Fs.safe()` -- preserved by every writer under contract -- is an invariant of the key directory
    from vxlib import Undecided
    writers = []
    for it in kk.all_fns():
        if it["path"].startswith("tests::") or it.get("body") is None:
            continue
        code = "\n".join(l for l in kk.s(it["body"][0], it["body"][1]).split("\n") if not l.strip().startswith("//"))
        code = re.sub(r"#\[cfg\(windows\)\]\s*\{.*?\n\s*\}", "", code, flags=re.S)
        for m in re.finditer(r"\b(json_write_to_file|File::create|fs::write|OpenOptions|fs::copy|fs::rename|fs::remove_file|create_dir_all)\s*(?:::\s*new\s*)?\(", code):
            writers.append((it["path"], m.group(1)))
    if set(writers) != {("KeyKeeper::store_local_key", "json_write_to_file")}:
        raise Undecided("census: key_keeper.rs writes files other than through store_local_key -> json_write_to_file: %s" % writers)
    u.rule("census", "key_keeper.rs creates/replaces files only through store_local_key -> misc_helpers::json_write_to_file")
    for f in ("str_axioms.rs", "ext_types.rs", "std_string.rs"):
        u.raw(open(os.path.join(COMMON, f)).read())
    u.raw_file("fs_spec.rs")
    u.raw_file("deps.rs")
    u.raw_file("spec.rs")
    with u.mod("common"):
        with u.mod("error"):
            # the error enums are kept verbatim outside verus!{} (thiserror derives intact) and declared TRANSPARENT external types:
            # the functions under contract construct Error::Key(KeyErrorType::..(..)) / Error::Io(..) values
            u.take_ext(err, ["Error", "HyperErrorType", "WireServerErrorType", "KeyErrorType", "AclErrorType", "BpfErrorType"], "vx_ext_error", uses="use http::{uri::InvalidUri, StatusCode};", opaque=False, transparent=False)
            for n in ("Error", "KeyErrorType"):
                u.emit("#[verifier::external_type_specification]\npub struct VxEx_vx_ext_error_%s(crate::vx_ext_error::%s);" % (n, n), "glue", "E1")
            for n in ("HyperErrorType", "WireServerErrorType", "AclErrorType", "BpfErrorType"):
                u.emit("#[verifier::external_type_specification]\n#[verifier::external_body]\npub struct VxEx_vx_ext_error_%s(crate::vx_ext_error::%s);" % (n, n), "glue", "E1")
        with u.mod("result", uses="use super::error::Error;"):
            u.raw("pub type Result<T> = core::result::Result<T, Error>;")
    with u.mod("proxy_agent_shared"):
        with u.mod("error"):
            u.take_ext(sherr, ["Error", "ParseVersionErrorType", "CommandErrorType"], "vx_ext_shared_error")
        with u.mod("result", uses="use super::error::Error;"):
            u.raw("pub type Result<T> = core::result::Result<T, Error>;")
        with u.mod("misc_helpers", uses="use super::result::Result;\nuse serde::de::DeserializeOwned;\nuse serde::Serialize;\nuse std::fs::{self, File};\nuse std::path::{Path, PathBuf};"):
            jw = mh.item("json_write_to_file", "fn")
            c_create = one_call(mh, jw, "File::create", "path", 1)
            c_writer = one_call(mh, jw, "serde_json::to_writer_pretty", "path", 2)
            c_rename = one_call(mh, jw, "std::fs::rename", "path", 2)
            arg = lambda c, i: mh.s(*c["args"][i])
            u.take_fn(mh, "json_write_to_file", ghost=FS,
                      pre_body="broadcast use group_fs, group_os_text;\nproof { lemma_ext_lits(); }",
                      e9=[(tuple(c_create["span"]), None, "path: &Path, " + FS, arg(c_create, 0) + ", Tracked(fs)", "std::io::Result<File>",
                           CREATE_CONTRACT, dict(name="vx_e9_file_create", body="File::create(path)", local=True)),
                          (tuple(c_writer["span"]), None, "file: File, obj: &T, " + FS, arg(c_writer, 0) + ", " + arg(c_writer, 1) + ", Tracked(fs)", "serde_json::Result<()>",
                           TO_WRITER_CONTRACT, dict(name="vx_e9_to_writer_pretty", generics="<T: ?Sized + Serialize>", body="serde_json::to_writer_pretty(file, obj)", local=True)),
                          (tuple(c_rename["span"]), None, "from: PathBuf, to: &Path, " + FS, arg(c_rename, 0) + ", " + arg(c_rename, 1) + ", Tracked(fs)", "std::io::Result<()>",
                           RENAME_CONTRACT, dict(name="vx_e9_rename", body="std::fs::rename(from, to)", local=True))],
                      contract=JSON_WRITE_CONTRACT)
            jr = mh.item("json_read_from_file", "fn")
            c_open = one_call(mh, jr, "File::open", "path", 1)
            c_rdr = one_call(mh, jr, "serde_json::from_reader", "path", 1)
            u.take_fn(mh, "json_read_from_file", ghost=FS_RO,
                      e9=[(tuple(c_open["span"]), None, "path: &Path, " + FS_RO, arg(c_open, 0) + ", Tracked(fs)", "std::io::Result<File>",
                           OPEN_CONTRACT, dict(name="vx_e9_file_open", body="File::open(path)", local=True)),
                          (tuple(c_rdr["span"]), None, "file: File, " + FS_RO, arg(c_rdr, 0) + ", Tracked(fs)", "serde_json::Result<T>",
                           FROM_READER_CONTRACT, dict(name="vx_e9_from_reader", generics="<T: DeserializeOwned>", body="serde_json::from_reader(file)", local=True))],
                      contract=JSON_READ_CONTRACT)

    PRE = "broadcast use group_fs, group_os_text, group_fmt, axiom_to_string_string, axiom_json_of_ref;\nproof { lemma_ext_lits(); }"
    with u.mod("key_keeper", uses=KK_USES):
        with u.mod("key"):
            # serde derives inside verus!{} crash this Verus build: the struct is kept verbatim outside (derives intact, fields
            # made pub by E2) and declared a TRANSPARENT external type
            u.take_ext(key, ["Key"], "vx_ext_key", uses="use serde_derive::{Deserialize, Serialize};", opaque=False, transparent=True)
        u.placeholder_ext(kk, ["KeyKeeper"], "vx_ph_kk")
        with u.impl_(kk, "KeyKeeper"):
            u.take_fn(kk, "KeyKeeper::store_local_key", ghost=FS, pre_body=PRE,
                      ghost_calls=[("misc_helpers::json_write_to_file", None, "Tracked(fs)")],
                      contract=STORE_CONTRACT % dict(f="store_local_key"))
            u.take_fn(kk, "KeyKeeper::store_key", ghost=FS, ghost_calls=[("Self::store_local_key", "all", "Tracked(fs)")],
                      contract=STORE_CONTRACT % dict(f="store_key"))
            fl = kk.item("KeyKeeper::fetch_local_key", "fn")
            c_ex = one_call(kk, fl, "exists", "method", 0)
            c_rd = one_call(kk, fl, "fs::read_to_string", "path", 1)
            c_fs = one_call(kk, fl, "serde_json::from_str::<Key>", "path", 1)
            u.take_fn(kk, "KeyKeeper::fetch_local_key", ghost=FS_RO, pre_body=PRE,
                      e9=[(tuple(c_ex["span"]), None, "p: &PathBuf, " + FS_RO, "&" + kk.s(*c_ex["receiver"]) + ", Tracked(fs)", "bool", EXISTS_CONTRACT, dict(name="vx_e9_exists", body="p.exists()", local=True)),
                          (tuple(c_rd["span"]), None, "p: &PathBuf, " + FS_RO, kk.s(*c_rd["args"][0]) + ", Tracked(fs)", "std::io::Result<String>", READ_CONTRACT, dict(name="vx_e9_read_to_string", body="fs::read_to_string(p)", local=True)),
                          (tuple(c_fs["span"]), None, "s: &String", kk.s(*c_fs["args"][0]), "serde_json::Result<Key>", FROM_STR_CONTRACT, dict(name="vx_e9_key_from_str", body="serde_json::from_str::<Key>(s)", local=True))],
                      contract=FETCH_CONTRACT % dict(f="fetch_local_key", enc="!encrypted && ") + "            encrypted ==> r is Err,\n")
            u.take_fn(kk, "KeyKeeper::fetch_key", ghost=FS_RO, ghost_calls=[("Self::fetch_local_key", "all", "Tracked(fs)")],
                      contract=FETCH_CONTRACT % dict(f="fetch_key", enc=""))
            u.take_fn(kk, "KeyKeeper::check_local_key", ghost=FS_RO, pre_body=PRE, ghost_calls=[("Self::fetch_local_key", None, "Tracked(fs)")],
                      contract=CHECK_CONTRACT % dict(f="check_local_key"))
            u.take_fn(kk, "KeyKeeper::check_key", ghost=FS_RO, ghost_calls=[("Self::check_local_key", "all", "Tracked(fs)")],
                      contract=CHECK_CONTRACT % dict(f="check_key"))
