// ---- C08 (key store part): spec functions written from the statement ------------------------------------------------
use crate::key_keeper::key::Key;

/// what serde_json::from_str::<Key> makes of a text (None: not a key document)
pub open spec fn parse_key(text: Seq<char>) -> Option<Key> { parse_json::<Key>(text) }
/// "the OS refuses to read this (existing, complete) file": permission / device errors. Uninterpreted; the "found after
/// restart" clauses are stated for names the OS lets the agent read.
pub uninterp spec fn io_read_fault(p: PathId) -> bool;

/// "present, complete and readable in the local key store": under the key's final name there is a complete file, it parses
/// as a key, and the OS lets the agent read it
pub open spec fn key_readable(fs: Fs, p: PathId) -> bool {
    fs.state(p) matches FileState::Complete(c) && parse_key(c) is Some && !io_read_fault(p)
}
/// the key `k` is what a reader gets from the name `p`
pub open spec fn reads_as(fs: Fs, p: PathId, k: Key) -> bool {
    fs.state(p) matches FileState::Complete(c) && parse_key(c) == Some(k)
}
/// "stored": the complete JSON text of `k` is under the final name derived from its guid
pub open spec fn stored_complete(fs: Fs, dir: PathId, k: Key) -> bool {
    fs.state(key_path(dir, k.guid@)) == FileState::Complete(json_of::<Key>(&k))
}
/// "read back identically": what a reader gets from the key's final name carries the same guid and the same key material
/// (the two fields that identify and constitute the key towards the host)
pub open spec fn read_back_identical(fs: Fs, dir: PathId, k: Key) -> bool {
    exists|k2: Key| #[trigger] reads_as(fs, key_path(dir, k.guid@), k2) && k2.guid@ == k.guid@ && k2.key@ == k.key@
}

// serde_json round trip of the derived Serialize / Deserialize of Key (ASSUMED; used only by the restart lemma)
#[verifier::external_body]
pub proof fn axiom_key_json_round_trip(k: Key)
    ensures parse_key(json_of::<Key>(&k)) == Some(k),
{}

/// RESTART LEMMA (C08 "a key the host regards as attested is always present, complete and readable in the local key store,
/// is found there after restart"): in any file-system state in which `k` is stored under its final name -- the
/// precondition the agent has to establish before it may call attest_key -- a reader of THAT name gets exactly `k`; with
/// fetch_key's postconditions (`key_readable ==> Ok`, `Ok(k2) ==> reads_as(k2)`) a fresh process therefore gets Ok(k).
pub proof fn lemma_restart_finds_the_stored_key(fs: Fs, dir: PathId, k: Key)
    requires stored_complete(fs, dir, k), !io_read_fault(key_path(dir, k.guid@)),
    ensures
        key_readable(fs, key_path(dir, k.guid@)),  // @C08.restart.attested_key_is_readable
        forall|k2: Key| reads_as(fs, key_path(dir, k.guid@), k2) ==> k2 == k,  // @C08.restart.reader_gets_the_same_key
        read_back_identical(fs, dir, k),
{
    axiom_key_json_round_trip(k);
    assert(reads_as(fs, key_path(dir, k.guid@), k));
}

/// writing some OTHER final name (another guid's key, any other file) with json_write_to_file does not disturb a stored key:
/// this is json_write_to_file's frame clause, restated for keys
pub proof fn lemma_other_writes_keep_the_key(fs0: Fs, fs1: Fs, written: PathId, dir: PathId, k: Key)
    requires
        stored_complete(fs0, dir, k),
        written != key_path(dir, k.guid@),
        forall|q: PathId| q != written && !is_tmp(q) ==> #[trigger] fs1.state(q) == fs0.state(q),
    ensures stored_complete(fs1, dir, k),  // @C08.restart.stored_key_survives_other_writes
{
    lemma_key_path_not_tmp(dir, k.guid@);
}

/// key-store naming invariant: the file <g>.key holds a key whose guid is g (fetch_local_key itself does not compare the two;
/// the poll slice's "the key is the one the host names" clause is stated under this invariant)
pub open spec fn names_agree(fs: Fs, dir: PathId) -> bool {
    forall|g: Seq<char>, k: Key| #[trigger] reads_as(fs, key_path(dir, g), k) ==> k.guid@ == g
}
/// store_local_key -- the only writer of *.key names -- preserves it, provided distinct guids give distinct file names
/// (true for guids without '.', '/' : set_extension would otherwise replace the part after the last dot)
pub proof fn lemma_store_keeps_names_agree(fs0: Fs, fs1: Fs, dir: PathId, k: Key)
    requires
        names_agree(fs0, dir), stored_complete(fs1, dir, k),
        forall|q: PathId| q != key_path(dir, k.guid@) && !is_tmp(q) ==> #[trigger] fs1.state(q) == fs0.state(q),
        forall|g: Seq<char>| g != k.guid@ ==> #[trigger] key_path(dir, g) != key_path(dir, k.guid@),
    ensures names_agree(fs1, dir),  // @C08.store.naming_invariant_preserved
{
    axiom_key_json_round_trip(k);
    assert forall|g: Seq<char>, k2: Key| #[trigger] reads_as(fs1, key_path(dir, g), k2) implies k2.guid@ == g by {
        if g == k.guid@ {
            assert(k2 == k);
        } else {
            lemma_key_path_not_tmp(dir, g);
            assert(fs1.state(key_path(dir, g)) == fs0.state(key_path(dir, g)));
            assert(reads_as(fs0, key_path(dir, g), k2));
        }
    }
}
