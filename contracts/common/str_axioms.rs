// ---- shared trusted axioms (DESIGN 2.5 item 4) -------------------------------
// &str extensionality: two string slices with the same character sequence are the
// same value for `match`/`==` on &str (T6). Trusted.
#[verifier::external_body]
pub broadcast proof fn axiom_str_ext(a: &str, b: &str)
    ensures (#[trigger] a@ == #[trigger] b@) ==> a == b
{}
