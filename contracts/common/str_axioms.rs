// ---- shared trusted axioms (DESIGN 2.5 item 4) -------------------------------
// &str extensionality: two string slices with the same character sequence are the
// same value for `match`/`==` on &str (T6). Trusted.
#[verifier::external_body]
pub broadcast proof fn axiom_str_ext(a: &str, b: &str)
    ensures (#[trigger] a@ == #[trigger] b@) ==> a == b
{}
// String extensionality: a String is determined by its character sequence. Trusted.
#[verifier::external_body]
pub broadcast proof fn axiom_string_ext(a: String, b: String)
    ensures (#[trigger] a@ == #[trigger] b@) ==> a == b
{}
