// ---- `for x in &set` / `for (k, v) in &map`: std implements IntoIterator for &HashSet / &HashMap by calling
//      iter(); vstd specifies only iter(). These assumed specs repeat exactly what vstd ensures for iter(). ----
pub assume_specification<'a, T, S, A: std::alloc::Allocator> [<&'a std::collections::HashSet<T, S, A> as IntoIterator>::into_iter] (s: &'a std::collections::HashSet<T, S, A>) -> (r: std::collections::hash_set::Iter<'a, T>)
    ensures
        obeys_key_model::<T>() && builds_valid_hashers::<S>() ==> {
            &&& vstd::std_specs::iter::IteratorSpec::remaining(&r).unref().to_set() == s@
            &&& vstd::std_specs::iter::IteratorSpec::remaining(&r).no_duplicates()
            &&& vstd::std_specs::iter::IteratorSpec::remaining(&r).len() == s@.len()
            &&& vstd::std_specs::iter::IteratorSpec::obeys_prophetic_iter_laws(&r)
            &&& vstd::std_specs::iter::IteratorSpec::decrease(&r) is Some
        };
pub assume_specification<'a, K, V, S, A: std::alloc::Allocator> [<&'a std::collections::HashMap<K, V, S, A> as IntoIterator>::into_iter] (m: &'a std::collections::HashMap<K, V, S, A>) -> (r: std::collections::hash_map::Iter<'a, K, V>)
    ensures
        obeys_key_model::<K>() && builds_valid_hashers::<S>() ==> {
            let rem = vstd::std_specs::iter::IteratorSpec::remaining(&r);
            &&& vstd::std_specs::iter::IteratorSpec::obeys_prophetic_iter_laws(&r)
            &&& vstd::std_specs::iter::IteratorSpec::decrease(&r) is Some
            &&& rem.len() == m@.len()
            &&& rem.no_duplicates()
            &&& forall|i: int| 0 <= i < rem.len() ==> m@.contains_key(*(#[trigger] rem[i]).0) && m@[*rem[i].0] == *rem[i].1
            &&& forall|k: K| m@.contains_key(k) ==> exists|i: int| 0 <= i < rem.len() && *(#[trigger] rem[i]).0 == k
        };
