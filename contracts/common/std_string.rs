// ---- assumed specifications of alloc::string / core::str functions (trusted, from std documentation) ----
#[verifier::external_body]
pub broadcast proof fn axiom_to_string_string(t: &String, s: String)
    ensures #[trigger] vstd::string::to_string_from_display_ensures::<String>(t, s) <==> t@ == s@
{}
pub assume_specification<'a> [<String as PartialEq<&'a str>>::ne] (a: &String, b: &&str) -> (r: bool)
    ensures r == (a@ != b@);
pub assume_specification<'a> [<String as PartialEq<&'a str>>::eq] (a: &String, b: &&str) -> (r: bool)
    ensures r == (a@ == b@);
