// ---- assumed specifications of alloc::string / core::str functions (trusted, from std documentation) ----
#[verifier::external_body]
pub broadcast proof fn axiom_to_string_string(t: &String, s: String)
    ensures #[trigger] vstd::string::to_string_from_display_ensures::<String>(t, s) <==> t@ == s@
{}
pub assume_specification<'a> [<String as PartialEq<&'a str>>::ne] (a: &String, b: &&str) -> (r: bool)
    ensures r == (a@ != b@);
pub assume_specification<'a> [<String as PartialEq<&'a str>>::eq] (a: &String, b: &&str) -> (r: bool)
    ensures r == (a@ == b@);
// `&String == &String` goes through vstd's PartialEqSpec; String's eq is character-sequence equality (trusted).
#[verifier::external_body]
pub broadcast proof fn axiom_string_obeys_eq_spec() ensures #[trigger] <String as vstd::std_specs::cmp::PartialEqSpec>::obeys_eq_spec() {}
#[verifier::external_body]
pub broadcast proof fn axiom_string_eq_spec(a: String, b: String)
    ensures #[trigger] vstd::std_specs::cmp::PartialEqSpec::eq_spec(&a, &b) == (a@ == b@) {}
// ---- core::result / core::option adapters missing from vstd ----
pub assume_specification<T, E> [core::result::Result::<T, E>::unwrap_or] (r: core::result::Result<T, E>, d: T) -> (o: T)
    where E: core::marker::Destruct, T: core::marker::Destruct,
    ensures o == (match r { Ok(v) => v, Err(_) => d });

// Option::is_some_and / is_none_or / Option::as_ref are plain combinators: specified by the closure's own contract
pub assume_specification<T, F: FnOnce(T) -> bool> [Option::<T>::is_some_and] (o: Option<T>, f: F) -> (r: bool)
    requires o matches Some(v) ==> f.requires((v,)),
    ensures o is None ==> !r, o matches Some(v) ==> f.ensures((v,), r);
