// GENERATED (tools: see contracts/common/http_consts.rs header): the standard header-name constants of the `http` crate.
// `http::header::X` is the lower-case name with '-' for '_' (http crate documentation); assumed, listed in the evidence.
// Present so that an edit that uses one of these constants is decided on its merits instead of being UNDECIDED.
pub assume_specification [http::header::ACCEPT] -> (r: http::header::HeaderName) ensures hn_view(r) == "accept"@;
pub assume_specification [http::header::ACCEPT_CHARSET] -> (r: http::header::HeaderName) ensures hn_view(r) == "accept-charset"@;
pub assume_specification [http::header::ACCEPT_ENCODING] -> (r: http::header::HeaderName) ensures hn_view(r) == "accept-encoding"@;
pub assume_specification [http::header::ACCEPT_LANGUAGE] -> (r: http::header::HeaderName) ensures hn_view(r) == "accept-language"@;
pub assume_specification [http::header::ACCEPT_RANGES] -> (r: http::header::HeaderName) ensures hn_view(r) == "accept-ranges"@;
pub assume_specification [http::header::ACCESS_CONTROL_ALLOW_CREDENTIALS] -> (r: http::header::HeaderName) ensures hn_view(r) == "access-control-allow-credentials"@;
pub assume_specification [http::header::ACCESS_CONTROL_ALLOW_HEADERS] -> (r: http::header::HeaderName) ensures hn_view(r) == "access-control-allow-headers"@;
pub assume_specification [http::header::ACCESS_CONTROL_ALLOW_METHODS] -> (r: http::header::HeaderName) ensures hn_view(r) == "access-control-allow-methods"@;
pub assume_specification [http::header::ACCESS_CONTROL_ALLOW_ORIGIN] -> (r: http::header::HeaderName) ensures hn_view(r) == "access-control-allow-origin"@;
pub assume_specification [http::header::ACCESS_CONTROL_EXPOSE_HEADERS] -> (r: http::header::HeaderName) ensures hn_view(r) == "access-control-expose-headers"@;
pub assume_specification [http::header::ACCESS_CONTROL_MAX_AGE] -> (r: http::header::HeaderName) ensures hn_view(r) == "access-control-max-age"@;
pub assume_specification [http::header::ACCESS_CONTROL_REQUEST_HEADERS] -> (r: http::header::HeaderName) ensures hn_view(r) == "access-control-request-headers"@;
pub assume_specification [http::header::ACCESS_CONTROL_REQUEST_METHOD] -> (r: http::header::HeaderName) ensures hn_view(r) == "access-control-request-method"@;
pub assume_specification [http::header::AGE] -> (r: http::header::HeaderName) ensures hn_view(r) == "age"@;
pub assume_specification [http::header::ALLOW] -> (r: http::header::HeaderName) ensures hn_view(r) == "allow"@;
pub assume_specification [http::header::ALT_SVC] -> (r: http::header::HeaderName) ensures hn_view(r) == "alt-svc"@;
pub assume_specification [http::header::AUTHORIZATION] -> (r: http::header::HeaderName) ensures hn_view(r) == "authorization"@;
pub assume_specification [http::header::CACHE_CONTROL] -> (r: http::header::HeaderName) ensures hn_view(r) == "cache-control"@;
pub assume_specification [http::header::CONNECTION] -> (r: http::header::HeaderName) ensures hn_view(r) == "connection"@;
pub assume_specification [http::header::CONTENT_DISPOSITION] -> (r: http::header::HeaderName) ensures hn_view(r) == "content-disposition"@;
pub assume_specification [http::header::CONTENT_ENCODING] -> (r: http::header::HeaderName) ensures hn_view(r) == "content-encoding"@;
pub assume_specification [http::header::CONTENT_LANGUAGE] -> (r: http::header::HeaderName) ensures hn_view(r) == "content-language"@;
pub assume_specification [http::header::CONTENT_LENGTH] -> (r: http::header::HeaderName) ensures hn_view(r) == "content-length"@;
pub assume_specification [http::header::CONTENT_LOCATION] -> (r: http::header::HeaderName) ensures hn_view(r) == "content-location"@;
pub assume_specification [http::header::CONTENT_RANGE] -> (r: http::header::HeaderName) ensures hn_view(r) == "content-range"@;
pub assume_specification [http::header::CONTENT_TYPE] -> (r: http::header::HeaderName) ensures hn_view(r) == "content-type"@;
pub assume_specification [http::header::COOKIE] -> (r: http::header::HeaderName) ensures hn_view(r) == "cookie"@;
pub assume_specification [http::header::DATE] -> (r: http::header::HeaderName) ensures hn_view(r) == "date"@;
pub assume_specification [http::header::ETAG] -> (r: http::header::HeaderName) ensures hn_view(r) == "etag"@;
pub assume_specification [http::header::EXPECT] -> (r: http::header::HeaderName) ensures hn_view(r) == "expect"@;
pub assume_specification [http::header::EXPIRES] -> (r: http::header::HeaderName) ensures hn_view(r) == "expires"@;
pub assume_specification [http::header::FORWARDED] -> (r: http::header::HeaderName) ensures hn_view(r) == "forwarded"@;
pub assume_specification [http::header::FROM] -> (r: http::header::HeaderName) ensures hn_view(r) == "from"@;
pub assume_specification [http::header::HOST] -> (r: http::header::HeaderName) ensures hn_view(r) == "host"@;
pub assume_specification [http::header::IF_MATCH] -> (r: http::header::HeaderName) ensures hn_view(r) == "if-match"@;
pub assume_specification [http::header::IF_MODIFIED_SINCE] -> (r: http::header::HeaderName) ensures hn_view(r) == "if-modified-since"@;
pub assume_specification [http::header::IF_NONE_MATCH] -> (r: http::header::HeaderName) ensures hn_view(r) == "if-none-match"@;
pub assume_specification [http::header::IF_RANGE] -> (r: http::header::HeaderName) ensures hn_view(r) == "if-range"@;
pub assume_specification [http::header::IF_UNMODIFIED_SINCE] -> (r: http::header::HeaderName) ensures hn_view(r) == "if-unmodified-since"@;
pub assume_specification [http::header::LAST_MODIFIED] -> (r: http::header::HeaderName) ensures hn_view(r) == "last-modified"@;
pub assume_specification [http::header::LINK] -> (r: http::header::HeaderName) ensures hn_view(r) == "link"@;
pub assume_specification [http::header::LOCATION] -> (r: http::header::HeaderName) ensures hn_view(r) == "location"@;
pub assume_specification [http::header::MAX_FORWARDS] -> (r: http::header::HeaderName) ensures hn_view(r) == "max-forwards"@;
pub assume_specification [http::header::ORIGIN] -> (r: http::header::HeaderName) ensures hn_view(r) == "origin"@;
pub assume_specification [http::header::PRAGMA] -> (r: http::header::HeaderName) ensures hn_view(r) == "pragma"@;
pub assume_specification [http::header::PROXY_AUTHENTICATE] -> (r: http::header::HeaderName) ensures hn_view(r) == "proxy-authenticate"@;
pub assume_specification [http::header::PROXY_AUTHORIZATION] -> (r: http::header::HeaderName) ensures hn_view(r) == "proxy-authorization"@;
pub assume_specification [http::header::RANGE] -> (r: http::header::HeaderName) ensures hn_view(r) == "range"@;
pub assume_specification [http::header::REFERER] -> (r: http::header::HeaderName) ensures hn_view(r) == "referer"@;
pub assume_specification [http::header::RETRY_AFTER] -> (r: http::header::HeaderName) ensures hn_view(r) == "retry-after"@;
pub assume_specification [http::header::SERVER] -> (r: http::header::HeaderName) ensures hn_view(r) == "server"@;
pub assume_specification [http::header::SET_COOKIE] -> (r: http::header::HeaderName) ensures hn_view(r) == "set-cookie"@;
pub assume_specification [http::header::TE] -> (r: http::header::HeaderName) ensures hn_view(r) == "te"@;
pub assume_specification [http::header::TRAILER] -> (r: http::header::HeaderName) ensures hn_view(r) == "trailer"@;
pub assume_specification [http::header::TRANSFER_ENCODING] -> (r: http::header::HeaderName) ensures hn_view(r) == "transfer-encoding"@;
pub assume_specification [http::header::UPGRADE] -> (r: http::header::HeaderName) ensures hn_view(r) == "upgrade"@;
pub assume_specification [http::header::USER_AGENT] -> (r: http::header::HeaderName) ensures hn_view(r) == "user-agent"@;
pub assume_specification [http::header::VARY] -> (r: http::header::HeaderName) ensures hn_view(r) == "vary"@;
pub assume_specification [http::header::VIA] -> (r: http::header::HeaderName) ensures hn_view(r) == "via"@;
pub assume_specification [http::header::WARNING] -> (r: http::header::HeaderName) ensures hn_view(r) == "warning"@;
pub assume_specification [http::header::WWW_AUTHENTICATE] -> (r: http::header::HeaderName) ensures hn_view(r) == "www-authenticate"@;
pub proof fn lits_std_headers()
    ensures
        "accept"@.len() == 6,
        "accept-charset"@.len() == 14,
        "accept-encoding"@.len() == 15,
        "accept-language"@.len() == 15,
        "accept-ranges"@.len() == 13,
        "access-control-allow-credentials"@.len() == 32,
        "access-control-allow-headers"@.len() == 28,
        "access-control-allow-methods"@.len() == 28,
        "access-control-allow-origin"@.len() == 27,
        "access-control-expose-headers"@.len() == 29,
        "access-control-max-age"@.len() == 22,
        "access-control-request-headers"@.len() == 30,
        "access-control-request-method"@.len() == 29,
        "age"@.len() == 3,
        "allow"@.len() == 5,
        "alt-svc"@.len() == 7,
        "authorization"@.len() == 13,
        "cache-control"@.len() == 13,
        "connection"@.len() == 10,
        "content-disposition"@.len() == 19,
        "content-encoding"@.len() == 16,
        "content-language"@.len() == 16,
        "content-length"@.len() == 14,
        "content-location"@.len() == 16,
        "content-range"@.len() == 13,
        "content-type"@.len() == 12,
        "cookie"@.len() == 6,
        "date"@.len() == 4,
        "etag"@.len() == 4,
        "expect"@.len() == 6,
        "expires"@.len() == 7,
        "forwarded"@.len() == 9,
        "from"@.len() == 4,
        "host"@.len() == 4,
        "if-match"@.len() == 8,
        "if-modified-since"@.len() == 17,
        "if-none-match"@.len() == 13,
        "if-range"@.len() == 8,
        "if-unmodified-since"@.len() == 19,
        "last-modified"@.len() == 13,
        "link"@.len() == 4,
        "location"@.len() == 8,
        "max-forwards"@.len() == 12,
        "origin"@.len() == 6,
        "pragma"@.len() == 6,
        "proxy-authenticate"@.len() == 18,
        "proxy-authorization"@.len() == 19,
        "range"@.len() == 5,
        "referer"@.len() == 7,
        "retry-after"@.len() == 11,
        "server"@.len() == 6,
        "set-cookie"@.len() == 10,
        "te"@.len() == 2,
        "trailer"@.len() == 7,
        "transfer-encoding"@.len() == 17,
        "upgrade"@.len() == 7,
        "user-agent"@.len() == 10,
        "vary"@.len() == 4,
        "via"@.len() == 3,
        "warning"@.len() == 7,
        "www-authenticate"@.len() == 16,
{
    reveal_strlit("accept");
    reveal_strlit("accept-charset");
    reveal_strlit("accept-encoding");
    reveal_strlit("accept-language");
    reveal_strlit("accept-ranges");
    reveal_strlit("access-control-allow-credentials");
    reveal_strlit("access-control-allow-headers");
    reveal_strlit("access-control-allow-methods");
    reveal_strlit("access-control-allow-origin");
    reveal_strlit("access-control-expose-headers");
    reveal_strlit("access-control-max-age");
    reveal_strlit("access-control-request-headers");
    reveal_strlit("access-control-request-method");
    reveal_strlit("age");
    reveal_strlit("allow");
    reveal_strlit("alt-svc");
    reveal_strlit("authorization");
    reveal_strlit("cache-control");
    reveal_strlit("connection");
    reveal_strlit("content-disposition");
    reveal_strlit("content-encoding");
    reveal_strlit("content-language");
    reveal_strlit("content-length");
    reveal_strlit("content-location");
    reveal_strlit("content-range");
    reveal_strlit("content-type");
    reveal_strlit("cookie");
    reveal_strlit("date");
    reveal_strlit("etag");
    reveal_strlit("expect");
    reveal_strlit("expires");
    reveal_strlit("forwarded");
    reveal_strlit("from");
    reveal_strlit("host");
    reveal_strlit("if-match");
    reveal_strlit("if-modified-since");
    reveal_strlit("if-none-match");
    reveal_strlit("if-range");
    reveal_strlit("if-unmodified-since");
    reveal_strlit("last-modified");
    reveal_strlit("link");
    reveal_strlit("location");
    reveal_strlit("max-forwards");
    reveal_strlit("origin");
    reveal_strlit("pragma");
    reveal_strlit("proxy-authenticate");
    reveal_strlit("proxy-authorization");
    reveal_strlit("range");
    reveal_strlit("referer");
    reveal_strlit("retry-after");
    reveal_strlit("server");
    reveal_strlit("set-cookie");
    reveal_strlit("te");
    reveal_strlit("trailer");
    reveal_strlit("transfer-encoding");
    reveal_strlit("upgrade");
    reveal_strlit("user-agent");
    reveal_strlit("vary");
    reveal_strlit("via");
    reveal_strlit("warning");
    reveal_strlit("www-authenticate");
}
// HeaderName::as_str: "Returns a str representation of the header" = the (lower-case) name
pub assume_specification [http::header::HeaderName::as_str] (n: &http::header::HeaderName) -> (r: &str)
    ensures r@ == hn_view(*n);
