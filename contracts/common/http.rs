// ---- http / hyper / http-body-util types: opaque external types + assumed specifications (trusted; written from
//      the crates' documentation). Views are uninterpreted functions; the specs only relate them. ----
#[verifier::external_type_specification] #[verifier::external_body] #[verifier::reject_recursive_types(T)]
pub struct ExRequest<T>(http::Request<T>);
#[verifier::external_type_specification] #[verifier::external_body] #[verifier::reject_recursive_types(T)]
pub struct ExResponse<T>(http::Response<T>);
#[verifier::external_type_specification] #[verifier::external_body]
pub struct ExReqParts(http::request::Parts);
#[verifier::external_type_specification] #[verifier::external_body]
pub struct ExRespParts(http::response::Parts);
#[verifier::external_type_specification] #[verifier::external_body] #[verifier::reject_recursive_types(T)]
pub struct ExLimited<T>(tower_http::body::Limited<T>);
#[verifier::external_type_specification] #[verifier::external_body]
pub struct ExIncoming(hyper::body::Incoming);
#[verifier::external_type_specification] #[verifier::external_body]
pub struct ExBytes(hyper::body::Bytes);
#[verifier::external_type_specification] #[verifier::external_body] #[verifier::reject_recursive_types(T)]
pub struct ExFull<T>(http_body_util::Full<T>);
#[verifier::external_type_specification] #[verifier::external_body] #[verifier::reject_recursive_types(D)] #[verifier::reject_recursive_types(E)]
pub struct ExBoxBody<D, E>(http_body_util::combinators::BoxBody<D, E>);
#[verifier::external_type_specification] #[verifier::external_body]
pub struct ExHyperError(hyper::Error);
#[verifier::external_type_specification] #[verifier::external_body]
pub struct ExStatusCode(http::StatusCode);
#[verifier::external_type_specification] #[verifier::external_body]
pub struct ExHeaderName(http::header::HeaderName);
#[verifier::external_type_specification] #[verifier::external_body]
pub struct ExHeaderValue(http::header::HeaderValue);
#[verifier::external_type_specification] #[verifier::external_body]
pub struct ExInvalidHeaderValue(http::header::InvalidHeaderValue);
#[verifier::external_type_specification] #[verifier::external_body]
pub struct ExMethod(http::Method);
#[verifier::external_type_specification] #[verifier::external_body] #[verifier::reject_recursive_types(T)]
pub struct ExHeaderMap<T>(http::HeaderMap<T>);

// ---- views ----
pub uninterp spec fn status_code(s: http::StatusCode) -> u16;
pub uninterp spec fn req_method<T>(r: http::Request<T>) -> http::Method;
pub uninterp spec fn req_uri<T>(r: http::Request<T>) -> http::Uri;
pub uninterp spec fn req_headers<T>(r: http::Request<T>) -> http::HeaderMap;
pub uninterp spec fn req_body<T>(r: http::Request<T>) -> T;
pub uninterp spec fn parts_method(p: http::request::Parts) -> http::Method;
pub uninterp spec fn parts_uri(p: http::request::Parts) -> http::Uri;
pub uninterp spec fn parts_headers(p: http::request::Parts) -> http::HeaderMap;
pub uninterp spec fn resp_status<T>(r: http::Response<T>) -> http::StatusCode;
pub uninterp spec fn resp_headers<T>(r: http::Response<T>) -> http::HeaderMap;
pub uninterp spec fn resp_body<T>(r: http::Response<T>) -> T;
pub uninterp spec fn rparts_status(p: http::response::Parts) -> http::StatusCode;
pub uninterp spec fn rparts_headers(p: http::response::Parts) -> http::HeaderMap;
// header map: lower-case name -> the sequence of values stored under it
pub uninterp spec fn hm_view<T>(m: http::HeaderMap<T>) -> Map<Seq<char>, Seq<T>>;
pub uninterp spec fn hn_view(k: http::header::HeaderName) -> Seq<char>;
pub uninterp spec fn hv_view(v: http::header::HeaderValue) -> Seq<char>;       // the value's bytes as text
pub uninterp spec fn key_view<K>(k: K) -> Seq<char>;                             // IntoHeaderName / AsHeaderName argument
pub uninterp spec fn bytes_view(b: hyper::body::Bytes) -> Seq<u8>;
pub uninterp spec fn full_inner<D>(f: http_body_util::Full<D>) -> D;
pub open spec fn full_view(f: http_body_util::Full<hyper::body::Bytes>) -> Seq<u8> { bytes_view(full_inner(f)) }

#[verifier::external_body]
pub broadcast proof fn axiom_key_view_hn(k: http::header::HeaderName) ensures #[trigger] key_view::<http::header::HeaderName>(k) == hn_view(k) {}
#[verifier::external_body]
pub broadcast proof fn axiom_key_view_str(k: &str) ensures #[trigger] key_view::<&str>(k) == k@ {}

// ---- Request ----
pub assume_specification<T> [http::Request::<T>::into_parts] (r: http::Request<T>) -> (o: (http::request::Parts, T))
    ensures parts_method(o.0) == req_method(r), parts_uri(o.0) == req_uri(r), parts_headers(o.0) == req_headers(r), o.1 == req_body(r);
pub assume_specification<T> [http::Request::<T>::from_parts] (p: http::request::Parts, b: T) -> (r: http::Request<T>)
    ensures req_method(r) == parts_method(p), req_uri(r) == parts_uri(p), req_headers(r) == parts_headers(p), req_body(r) == b;
pub assume_specification [<http::request::Parts as Clone>::clone] (p: &http::request::Parts) -> (r: http::request::Parts)
    ensures parts_method(r) == parts_method(*p), parts_uri(r) == parts_uri(*p), parts_headers(r) == parts_headers(*p);
pub assume_specification<T> [http::Request::<T>::headers_mut] (r: &mut http::Request<T>) -> (h: &mut http::HeaderMap)
    ensures *h == req_headers(*old(r)), req_headers(*final(r)) == *final(h),
            req_method(*final(r)) == req_method(*old(r)), req_uri(*final(r)) == req_uri(*old(r)), req_body(*final(r)) == req_body(*old(r));
pub assume_specification<T> [http::Request::<T>::headers] (r: &http::Request<T>) -> (h: &http::HeaderMap)
    ensures *h == req_headers(*r);
pub assume_specification<T> [http::Request::<T>::uri] (r: &http::Request<T>) -> (u: &http::Uri)
    ensures *u == req_uri(*r);
pub assume_specification<T> [http::Request::<T>::method] (r: &http::Request<T>) -> (m: &http::Method)
    ensures *m == req_method(*r);
pub assume_specification [<http::Method as Clone>::clone] (m: &http::Method) -> (r: http::Method)
    ensures r == *m;

// ---- Response ----
pub assume_specification<T> [http::Response::<T>::new] (b: T) -> (r: http::Response<T>)
    ensures status_code(resp_status(r)) == 200, resp_body(r) == b, hm_view(resp_headers(r)) == Map::<Seq<char>, Seq<http::header::HeaderValue>>::empty();
pub assume_specification<T> [http::Response::<T>::status_mut] (r: &mut http::Response<T>) -> (s: &mut http::StatusCode)
    ensures *s == resp_status(*old(r)), resp_status(*final(r)) == *final(s),
            resp_headers(*final(r)) == resp_headers(*old(r)), resp_body(*final(r)) == resp_body(*old(r));
pub assume_specification<T> [http::Response::<T>::status] (r: &http::Response<T>) -> (s: http::StatusCode)
    ensures s == resp_status(*r);
pub assume_specification<T> [http::Response::<T>::headers_mut] (r: &mut http::Response<T>) -> (h: &mut http::HeaderMap)
    ensures *h == resp_headers(*old(r)), resp_headers(*final(r)) == *final(h),
            resp_status(*final(r)) == resp_status(*old(r)), resp_body(*final(r)) == resp_body(*old(r));
pub assume_specification<T> [http::Response::<T>::into_parts] (r: http::Response<T>) -> (o: (http::response::Parts, T))
    ensures rparts_status(o.0) == resp_status(r), rparts_headers(o.0) == resp_headers(r), o.1 == resp_body(r);
pub assume_specification<T> [http::Response::<T>::from_parts] (p: http::response::Parts, b: T) -> (r: http::Response<T>)
    ensures resp_status(r) == rparts_status(p), resp_headers(r) == rparts_headers(p), resp_body(r) == b;

// ---- headers ----
// insert: "If the map did have this key present, the new value is associated with the key and all previous
// values are removed." Names are case-normalised by HeaderName (lower case).
pub assume_specification<T, K> [http::HeaderMap::<T>::insert] (m: &mut http::HeaderMap<T>, k: K, v: T) -> (r: std::option::Option<T>) where K: http::header::IntoHeaderName,
    ensures hm_view(*final(m)) == hm_view(*old(m)).insert(key_view(k), seq![v]);
// append: "If the map did have this key present, the new value is pushed to the end of the list of values"
pub assume_specification<T, K> [http::HeaderMap::<T>::append] (m: &mut http::HeaderMap<T>, k: K, v: T) -> (r: bool) where K: http::header::IntoHeaderName,
    ensures hm_view(*final(m)) == hm_view(*old(m)).insert(key_view(k),
                if hm_view(*old(m)).contains_key(key_view(k)) { hm_view(*old(m))[key_view(k)].push(v) } else { seq![v] });
pub assume_specification<T, K> [http::HeaderMap::<T>::remove] (m: &mut http::HeaderMap<T>, k: K) -> (r: std::option::Option<T>) where K: http::header::AsHeaderName,
    ensures hm_view(*final(m)) == hm_view(*old(m)).remove(key_view(k));
// get: "Returns a reference to the value associated with the key. If there are multiple values ... the first one is returned."
pub assume_specification<T, K> [http::HeaderMap::<T>::get] (m: &http::HeaderMap<T>, k: K) -> (r: std::option::Option<&T>) where K: http::header::AsHeaderName,
    ensures match r { Some(v) => hm_view(*m).contains_key(key_view(k)) && hm_view(*m)[key_view(k)].len() > 0 && *v == hm_view(*m)[key_view(k)][0],
                      None => !hm_view(*m).contains_key(key_view(k)) };
pub assume_specification<T, K> [http::HeaderMap::<T>::contains_key] (m: &http::HeaderMap<T>, k: K) -> (r: bool) where K: http::header::AsHeaderName,
    ensures r == hm_view(*m).contains_key(key_view(k));
#[verifier::external_type_specification] #[verifier::external_body]
pub struct ExToStrError(http::header::ToStrError);
pub uninterp spec fn hv_visible_ascii(v: http::header::HeaderValue) -> bool;    // every byte is visible ASCII (32..=126) or tab
pub assume_specification [http::HeaderValue::to_str] (v: &http::HeaderValue) -> (r: std::result::Result<&str, http::header::ToStrError>)
    ensures (r is Ok) == hv_visible_ascii(*v), r matches Ok(s) ==> s@ == hv_view(*v);
pub assume_specification [http::HeaderName::from_static] (s: &'static str) -> (r: http::HeaderName)
    ensures hn_view(r) == s@;
pub assume_specification [http::HeaderValue::from_str] (s: &str) -> (r: std::result::Result<http::HeaderValue, http::header::InvalidHeaderValue>)
    ensures r matches Ok(v) ==> hv_view(v) == s@;
pub assume_specification [http::HeaderValue::from_static] (s: &'static str) -> (r: http::HeaderValue)
    ensures hv_view(r) == s@;

// ---- bodies ----
pub assume_specification [hyper::body::Bytes::len] (b: &hyper::body::Bytes) -> (r: usize)
    ensures r == bytes_view(*b).len();
pub assume_specification [<hyper::body::Bytes as Clone>::clone] (b: &hyper::body::Bytes) -> (r: hyper::body::Bytes)
    ensures bytes_view(r) == bytes_view(*b);
pub assume_specification<D: hyper::body::Buf> [http_body_util::Full::<D>::new] (b: D) -> (r: http_body_util::Full<D>)
    ensures full_inner(r) == b;

// ---- Display of dependency types does not panic (needed by format!); produced text unconstrained ----
#[verifier::external_body] pub broadcast proof fn axiom_fmt_method() ensures #[trigger] vstd::std_specs::fmt::fmt_req_all::<http::Method>() {}
#[verifier::external_body] pub broadcast proof fn axiom_fmt_uri2() ensures #[trigger] vstd::std_specs::fmt::fmt_req_all::<http::Uri>() {}
#[verifier::external_body] pub broadcast proof fn axiom_fmt_invalid_header_value() ensures #[trigger] vstd::std_specs::fmt::fmt_req_all::<http::header::InvalidHeaderValue>() {}
#[verifier::external_body] pub broadcast proof fn axiom_fmt_status() ensures #[trigger] vstd::std_specs::fmt::fmt_req_all::<http::StatusCode>() {}
#[verifier::external_body] pub broadcast proof fn axiom_fmt_hyper_error() ensures #[trigger] vstd::std_specs::fmt::fmt_req_all::<hyper::Error>() {}
pub broadcast group group_http_fmt { axiom_fmt_method, axiom_fmt_uri2, axiom_fmt_invalid_header_value, axiom_fmt_status, axiom_fmt_hyper_error }

// ---- the status constants of the `http` crate (associated consts; documented numeric values). Present so that an edit that uses one
//      of them outside the places the units redirect (E9) is decided on its merits instead of being UNDECIDED.
pub assume_specification [http::StatusCode::OK] -> (r: http::StatusCode) ensures status_code(r) == 200;
pub assume_specification [http::StatusCode::BAD_REQUEST] -> (r: http::StatusCode) ensures status_code(r) == 400;
pub assume_specification [http::StatusCode::UNAUTHORIZED] -> (r: http::StatusCode) ensures status_code(r) == 401;
pub assume_specification [http::StatusCode::FORBIDDEN] -> (r: http::StatusCode) ensures status_code(r) == 403;
pub assume_specification [http::StatusCode::NOT_FOUND] -> (r: http::StatusCode) ensures status_code(r) == 404;
pub assume_specification [http::StatusCode::PAYLOAD_TOO_LARGE] -> (r: http::StatusCode) ensures status_code(r) == 413;
pub assume_specification [http::StatusCode::MISDIRECTED_REQUEST] -> (r: http::StatusCode) ensures status_code(r) == 421;
pub assume_specification [http::StatusCode::INTERNAL_SERVER_ERROR] -> (r: http::StatusCode) ensures status_code(r) == 500;
pub assume_specification [http::StatusCode::BAD_GATEWAY] -> (r: http::StatusCode) ensures status_code(r) == 502;
pub assume_specification [http::StatusCode::SERVICE_UNAVAILABLE] -> (r: http::StatusCode) ensures status_code(r) == 503;
// http::Uri::port_u16: the port written in the request target, if any (named, uninterpreted)
pub uninterp spec fn uri_port_u16(u: http::Uri) -> Option<u16>;
pub assume_specification [http::Uri::port_u16] (u: &http::Uri) -> (r: Option<u16>) ensures r == uri_port_u16(*u);
