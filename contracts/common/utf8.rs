// ---- byte length / char boundaries of strings (C13: slicing and truncation panic off a char boundary) ----
pub uninterp spec fn utf8_len(s: Seq<char>) -> nat;                       // number of bytes of the UTF-8 encoding
pub uninterp spec fn char_boundary(s: Seq<char>, i: nat) -> bool;         // str::is_char_boundary
pub uninterp spec fn utf8_prefix(s: Seq<char>, i: nat) -> Seq<char>;      // the chars encoded in the first i bytes (i on a boundary)
#[verifier::external_body]
pub broadcast proof fn axiom_char_boundary_ends(s: Seq<char>)
    ensures #[trigger] char_boundary(s, 0), char_boundary(s, utf8_len(s)) {}
#[verifier::external_body]
pub broadcast proof fn axiom_utf8_prefix_len(s: Seq<char>, i: nat)
    requires char_boundary(s, i), i <= utf8_len(s),
    ensures #[trigger] utf8_len(utf8_prefix(s, i)) == i {}
pub assume_specification [std::string::String::len] (s: &std::string::String) -> (r: usize)
    ensures r == utf8_len(s@);
// String::truncate: "Panics if new_len does not lie on a char boundary." No effect if new_len >= len.
pub assume_specification [std::string::String::truncate] (s: &mut std::string::String, new_len: usize)
    requires new_len <= utf8_len(old(s)@) ==> char_boundary(old(s)@, new_len as nat),   // @C13.String_truncate.on_char_boundary
    ensures final(s)@ == (if new_len <= utf8_len(old(s)@) { utf8_prefix(old(s)@, new_len as nat) } else { old(s)@ });
// link to vstd's own UTF-8 model (str::len / str::is_char_boundary are specified by vstd over spec_bytes)
#[verifier::external_body]
pub broadcast proof fn axiom_utf8_link_boundary(s: &str, i: int)
    ensures #[trigger] vstd::utf8::is_char_boundary(vstd::string::StringSliceAdditionalSpecFns::spec_bytes(s), i) == (0 <= i <= utf8_len(s@) && char_boundary(s@, i as nat)) {}
#[verifier::external_body]
pub broadcast proof fn axiom_utf8_link_len(s: &str)
    ensures #[trigger] vstd::string::StringSliceAdditionalSpecFns::spec_bytes(s).len() == utf8_len(s@) {}
// String range indexing (`s[..n]`, `s[a..b]`): "Panics if begin or end does not point to the starting byte offset of a character
// or is out of bounds" (vstd specifies str indexing this way; for String the precondition is uninterpreted in this vstd)
#[verifier::external_body]
pub broadcast proof fn axiom_string_index_to(s: &String, r: &core::ops::RangeTo<usize>)
    ensures #[trigger] vstd::std_specs::core::IndexSpec::index_req(s, r) == (r.end <= utf8_len(s@) && char_boundary(s@, r.end as nat)) {}
#[verifier::external_body]
pub broadcast proof fn axiom_string_index_range(s: &String, r: &core::ops::Range<usize>)
    ensures #[trigger] vstd::std_specs::core::IndexSpec::index_req(s, r) ==
        (r.start <= r.end && r.end <= utf8_len(s@) && char_boundary(s@, r.start as nat) && char_boundary(s@, r.end as nat)) {}
pub broadcast group group_utf8 { axiom_char_boundary_ends, axiom_utf8_link_boundary, axiom_utf8_link_len, axiom_string_index_to, axiom_string_index_range }
