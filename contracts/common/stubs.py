# helpers shared by units: standard stub modules, so that an edit which merely adds a log line or uses another logger
# function does not make a unit UNDECIDED
def agent_logger_mod(u):
    """call inside `with u.mod("common"):` -- emits `pub mod logger` with every pub fn of proxy_agent/src/common/logger.rs
    as an external_body stub (real signatures; logging only, no contract)"""
    lg = u.src("proxy_agent/src/common/logger.rs")
    with u.mod("logger", uses="use log::Level as LoggerLevel;"):
        for it in lg.index["items"]:
            if it["kind"] == "const":
                u.take(lg, it["path"], "const")
        for it in lg.index["items"]:
            if it["kind"] == "fn" and it["vis"] is not None:
                u.take_fn(lg, it["path"], external_body=True, ret="")
