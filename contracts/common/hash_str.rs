// ---- HashMap<String, V> looked up with a borrowed &str key (trusted; std semantics) ----------
// vstd describes borrowed-key lookups through uninterpreted predicates; for K = String, Q = str the
// borrowed form of a key is its character sequence. `str_key(s)` names THE String whose view is s
// (unique by axiom_string_ext).
pub uninterp spec fn str_key(s: Seq<char>) -> String;
#[verifier::external_body]
pub broadcast proof fn axiom_str_key(s: Seq<char>)
    ensures (#[trigger] str_key(s))@ == s
{}
pub uninterp spec fn borrowed_key_updated<K, V, Q: ?Sized>(m1: Map<K, V>, m2: Map<K, V>, k: &Q, v: V) -> bool;

#[verifier::external_body]
pub broadcast proof fn axiom_str_key_contains<V>(m: Map<String, V>, k: &str)
    ensures #[trigger] contains_borrowed_key::<String, V, str>(m, k) <==> m.contains_key(str_key(k@))
{}
#[verifier::external_body]
pub broadcast proof fn axiom_str_key_maps<V>(m: Map<String, V>, k: &str, v: V)
    ensures #[trigger] maps_borrowed_key_to_value::<String, V, str>(m, k, v) <==> (m.contains_key(str_key(k@)) && m[str_key(k@)] == v)
{}
#[verifier::external_body]
pub broadcast proof fn axiom_str_key_updated<V>(m1: Map<String, V>, m2: Map<String, V>, k: &str, v: V)
    ensures #[trigger] borrowed_key_updated::<String, V, str>(m1, m2, k, v) <==> (m1.contains_key(str_key(k@)) && m2 == m1.insert(str_key(k@), v))
{}
// the same for a lookup with the key type itself (Q = K = String)
#[verifier::external_body]
pub broadcast proof fn axiom_deref_key_updated<V>(m1: Map<String, V>, m2: Map<String, V>, k: &String, v: V)
    ensures #[trigger] borrowed_key_updated::<String, V, String>(m1, m2, k, v) <==> (m1.contains_key(*k) && m2 == m1.insert(*k, v))
{}
pub broadcast group group_str_key {
    axiom_str_key, axiom_str_key_contains, axiom_str_key_maps, axiom_str_key_updated,
}

pub assume_specification<'a, K, V, S, A, Q> [std::collections::HashMap::<K, V, S, A>::get_mut] (m: &'a mut std::collections::HashMap<K, V, S, A>, k: &Q) -> (r: std::option::Option<&'a mut V>)
    where
        A: std::alloc::Allocator,
        K: std::cmp::Eq + std::hash::Hash + std::borrow::Borrow<Q>,
        Q: std::marker::MetaSized + std::hash::Hash + std::cmp::Eq + ?Sized,
        S: std::hash::BuildHasher,
    ensures
        obeys_key_model::<K>() && builds_valid_hashers::<S>() ==> match r {
            Some(v) => maps_borrowed_key_to_value(old(m)@, k, *v) && borrowed_key_updated(old(m)@, final(m)@, k, *final(v)),
            None => !contains_borrowed_key(old(m)@, k) && final(m)@ == old(m)@,
        };
