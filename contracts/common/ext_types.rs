// ---- external types of std / dependency crates (opaque; behaviour enters only through assumed specs) ----
#[verifier::external_type_specification]
#[verifier::external_body]
pub struct ExOsString(std::ffi::OsString);
#[verifier::external_type_specification]
#[verifier::external_body]
pub struct ExPathBuf(std::path::PathBuf);
#[verifier::external_type_specification]
#[verifier::external_body]
pub struct ExUri(http::Uri);
#[verifier::external_type_specification]
pub struct ExLogLevel(log::Level);
