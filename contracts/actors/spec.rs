// Specifications for the actor arms (C09 / C10 / C11), written from the property statements.
use crate::proxy::proxy_summary::ProxySummary;
use crate::proxy_agent_shared::proxy_agent_aggregate_status::ProxyConnectionSummary;
use crate::key_keeper::key::Key;

// ---- C11: "each such denial adds exactly one occurrence, under the caller's user, process, command line and destination"
// The key under which occurrences are counted names: user, client ip, destination ip + port, process path, command line, response status.
pub open spec fn summary_key(s: ProxySummary) -> Seq<char> {
    s.userName@ + " "@ + s.clientIp@ + " "@ + s.ip@ + " "@ + dec_u16(s.port) + " "@ + path_lossy(s.processFullPath) + " "@ + s.processCmdLine@ + " "@ + s.responseStatus@
}
// the published entry created by the first occurrence carries the caller's user, process, command line and destination
pub open spec fn entry_names_caller(e: ProxyConnectionSummary, s: ProxySummary) -> bool {
    &&& e.userName@ == s.userName@
    &&& e.ip@ == s.ip@ && e.port == s.port
    &&& e.processCmdLine@ == s.processCmdLine@
    &&& e.processFullPath matches Some(p) && p@ == path_lossy(s.processFullPath)
    &&& e.responseStatus@ == s.responseStatus@
}
pub open spec fn bump(e: ProxyConnectionSummary) -> ProxyConnectionSummary {
    ProxyConnectionSummary { count: (e.count + 1) as u64, ..e }
}
// one recorded occurrence under key k: WHOLE-map statement (every other key unchanged)
pub open spec fn one_more(m0: Map<String, ProxyConnectionSummary>, m1: Map<String, ProxyConnectionSummary>, k: String) -> bool {
    if m0.contains_key(k) { m1 == m0.insert(k, bump(m0[k])) }
    else { m1.dom() == m0.dom().insert(k) && m1[k].count == 1 && m1 == m0.insert(k, m1[k]) }
}
pub open spec fn count_of(m: Map<String, ProxyConnectionSummary>, k: String) -> int {
    if m.contains_key(k) { m[k].count as int } else { 0 }
}
pub open spec fn occurrences(ks: Seq<String>, k: String) -> int
    decreases ks.len()
{
    if ks.len() == 0 { 0 } else { occurrences(ks.drop_last(), k) + if ks.last() == k { 1int } else { 0 } }
}
pub open spec fn recorded_run(ms: Seq<Map<String, ProxyConnectionSummary>>, ks: Seq<String>) -> bool {
    ms.len() == ks.len() + 1 && forall|i: int| 0 <= i < ks.len() ==> one_more(ms[i], ms[i + 1], #[trigger] ks[i])
}
// history: after any sequence of recorded denials (any interleaving of keys) the count published under k is the number
// of denials recorded under k since the map was last cleared (no u64 wrap: the arm requires count < u64::MAX)
pub proof fn lemma_count_is_number_of_denials(ms: Seq<Map<String, ProxyConnectionSummary>>, ks: Seq<String>, k: String, n: int)
    requires recorded_run(ms, ks), 0 <= n <= ks.len(),
             forall|i: int, j: String| 0 <= i < ms.len() && #[trigger] ms[i].contains_key(j) ==> ms[i][j].count < u64::MAX,
    ensures count_of(ms[n], k) == count_of(ms[0], k) + occurrences(ks.take(n), k),   // @C11.lemma.count_equals_number_of_denials_under_that_key
    decreases n,
{
    if n == 0 {
        assert(ks.take(0).len() == 0);
    } else {
        lemma_count_is_number_of_denials(ms, ks, k, n - 1);
        assert(one_more(ms[n - 1], ms[n], ks[n - 1]));
        assert(ks.take(n).drop_last() =~= ks.take(n - 1));
        assert(ks.take(n).last() == ks[n - 1]);
        if ms[n - 1].contains_key(ks[n - 1]) { assert(ms[n - 1][ks[n - 1]].count < u64::MAX); }
    }
}
// "after n identical denials the count is n"
pub proof fn lemma_n_identical_denials(ms: Seq<Map<String, ProxyConnectionSummary>>, ks: Seq<String>, k: String)
    requires recorded_run(ms, ks), !ms[0].contains_key(k), forall|i: int| 0 <= i < ks.len() ==> ks[i] == k,
             forall|i: int, j: String| 0 <= i < ms.len() && #[trigger] ms[i].contains_key(j) ==> ms[i][j].count < u64::MAX,
    ensures count_of(ms[ks.len() as int], k) == ks.len(),   // @C11.lemma.n_identical_denials_count_n
{
    lemma_count_is_number_of_denials(ms, ks, k, ks.len() as int);
    assert(ks.take(ks.len() as int) =~= ks);
    lemma_all_same(ks, k);
}
proof fn lemma_all_same(ks: Seq<String>, k: String)
    requires forall|i: int| 0 <= i < ks.len() ==> ks[i] == k,
    ensures occurrences(ks, k) == ks.len(),
    decreases ks.len(),
{
    if ks.len() > 0 { lemma_all_same(ks.drop_last(), k); }
}
// OBSERVATION (proved): the key is a space-separated concatenation, so it does not determine the fields it is built
// from: two callers that differ in command line / status text can share one key (likewise a process path containing
// a space against the command line). Occurrences are "under the caller's ... process, command line" only up to
// such collisions.
pub proof fn lemma_key_is_not_injective(a: ProxySummary, b: ProxySummary)
    requires a.userName == b.userName, a.clientIp == b.clientIp, a.ip == b.ip, a.port == b.port, a.processFullPath == b.processFullPath,
             a.processCmdLine@ == "c x"@, a.responseStatus@ == "y"@, b.processCmdLine@ == "c"@, b.responseStatus@ == "x y"@,
    ensures summary_key(a) == summary_key(b), a.processCmdLine@ != b.processCmdLine@,
{
    reveal_strlit("c x"); reveal_strlit("y"); reveal_strlit("c"); reveal_strlit("x y"); reveal_strlit(" ");
    assert("c x"@ + " "@ + "y"@ =~= "c"@ + " "@ + "x y"@);
    let p = a.userName@ + " "@ + a.clientIp@ + " "@ + a.ip@ + " "@ + dec_u16(a.port) + " "@ + path_lossy(a.processFullPath) + " "@;
    assert(summary_key(a) =~= p + ("c x"@ + " "@ + "y"@));
    assert(summary_key(b) =~= p + ("c"@ + " "@ + "x y"@));
    assert("c x"@.len() == 3 && "c"@.len() == 1);
}

// ---- C10 / C09: the key-keeper actor. One abstract field per actor local; each arm is one atomic operation.
// C10: "GetKey replies a clone of the current Option<Key>": guid and secret of one reply belong to one key value.
pub open spec fn key_reply_is_current(reply: Option<Key>, current: Option<Key>) -> bool { reply == current }
