// ---- assumed specifications of dependency / std functions used by unit `actors` (trusted, DESIGN 2.5 item 3) ----
// -- tokio::sync::oneshot. `sent_value(tx)` names THE value handed to `send` on this sender. A Sender is neither Clone
//    nor Copy and `send` consumes it, so at most one value is ever sent per sender (tokio docs: "send ... consumes self").
#[verifier::external_type_specification] #[verifier::external_body] #[verifier::reject_recursive_types(T)]
pub struct ExOneshotSender<T>(tokio::sync::oneshot::Sender<T>);
pub uninterp spec fn sent_value<T>(s: tokio::sync::oneshot::Sender<T>) -> T;
pub assume_specification<T>[ tokio::sync::oneshot::Sender::<T>::send ](s: tokio::sync::oneshot::Sender<T>, t: T) -> (r: core::result::Result<(), T>)
    ensures sent_value(s) == t;
#[verifier::external_type_specification] #[verifier::external_body]
pub struct ExNotify(tokio::sync::Notify);
#[verifier::external_type_specification] #[verifier::external_body]
pub struct ExPath(std::path::Path);

// -- std::path: the lossy text of a path (what `{}` shows for `to_string_lossy()`)
pub uninterp spec fn path_lossy(p: std::path::PathBuf) -> Seq<char>;
pub uninterp spec fn path_ref_lossy(p: &std::path::Path) -> Seq<char>;
pub uninterp spec fn cow_text(c: std::borrow::Cow<'_, str>) -> Seq<char>;
pub assume_specification [<std::path::PathBuf as core::ops::Deref>::deref] (s: &std::path::PathBuf) -> (r: &std::path::Path)
    ensures path_ref_lossy(r) == path_lossy(*s);
pub assume_specification [std::path::Path::to_string_lossy] (p: &std::path::Path) -> (r: std::borrow::Cow<'_, str>)
    ensures cow_text(r) == path_ref_lossy(p);
// Display of u16: decimal digits (uninterpreted: only that it is a function of the value)
pub uninterp spec fn dec_u16(x: u16) -> Seq<char>;

// Debug / Display of these types inside log lines does not panic (text unconstrained)
#[verifier::external_body] pub broadcast proof fn axiom_fmt_opt_string() ensures #[trigger] vstd::std_specs::fmt::fmt_req_all::<Option<String>>() {}
#[verifier::external_body]
pub broadcast proof fn axiom_to_string_cow<'a>(t: &std::borrow::Cow<'a, str>, s: String)
    ensures #[trigger] vstd::string::to_string_from_display_ensures::<std::borrow::Cow<'a, str>>(t, s) <==> s@ == cow_text(*t) {}
// HashMap::get_mut looked up with the key type itself (Q = K): the borrowed form of a key is the key (trusted; std semantics;
// `borrowed_key_updated` is the uninterpreted relation of contracts/common/hash_str.rs's get_mut specification)
#[verifier::external_body]
pub broadcast proof fn axiom_same_key_updated<K, V>(m1: Map<K, V>, m2: Map<K, V>, k: &K, v: V)
    ensures #[trigger] borrowed_key_updated::<K, V, K>(m1, m2, k, v) <==> (m1.contains_key(*k) && m2 == m1.insert(*k, v))
{}
