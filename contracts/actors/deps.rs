// ---- assumed specifications of dependency / std functions used by unit `actors` (trusted, DESIGN 2.5 item 3) ----
// -- tokio::sync::oneshot. `sent_value(tx)` names THE value handed to `send` on this sender. A Sender is neither Clone
//    nor Copy and `send` consumes it, so at most one value is ever sent per sender (tokio docs: "send ... consumes self").
#[verifier::external_type_specification] #[verifier::external_body] #[verifier::reject_recursive_types(T)]
pub struct ExOneshotSender<T>(tokio::sync::oneshot::Sender<T>);
pub uninterp spec fn sent_value<T>(s: tokio::sync::oneshot::Sender<T>) -> T;
//    `answered(tx)`: `send` WAS called on this sender (the holder of the paired Receiver gets Ok only then).
pub uninterp spec fn answered<T>(s: tokio::sync::oneshot::Sender<T>) -> bool;
pub assume_specification<T>[ tokio::sync::oneshot::Sender::<T>::send ](s: tokio::sync::oneshot::Sender<T>, t: T) -> (r: core::result::Result<(), T>)
    ensures sent_value(s) == t, answered(s);
#[verifier::external_type_specification] #[verifier::external_body]
pub struct ExNotify(tokio::sync::Notify);
#[verifier::external_type_specification] #[verifier::external_body]
pub struct ExPath(std::path::Path);

// -- std::path: the lossy text of a path (what `{}` shows for `to_string_lossy()`)
pub uninterp spec fn path_lossy(p: std::path::PathBuf) -> Seq<char>;
pub uninterp spec fn path_ref_lossy(p: &std::path::Path) -> Seq<char>;
pub uninterp spec fn cow_text(c: std::borrow::Cow<'_, str>) -> Seq<char>;
pub assume_specification [<std::path::PathBuf as core::ops::Deref>::deref] (s: &std::path::PathBuf) -> (r: &std::path::Path)
    ensures path_ref_lossy(r) == path_lossy(*s);
pub assume_specification [std::path::Path::to_string_lossy] (p: &std::path::Path) -> (r: std::borrow::Cow<'_, str>)
    ensures cow_text(r) == path_ref_lossy(p);
// Display of u16: decimal digits (uninterpreted: only that it is a function of the value)
pub uninterp spec fn dec_u16(x: u16) -> Seq<char>;

// Debug / Display of these types inside log lines does not panic (text unconstrained)
#[verifier::external_body] pub broadcast proof fn axiom_fmt_opt_string() ensures #[trigger] vstd::std_specs::fmt::fmt_req_all::<Option<String>>() {}
#[verifier::external_body]
pub broadcast proof fn axiom_to_string_cow<'a>(t: &std::borrow::Cow<'a, str>, s: String)
    ensures #[trigger] vstd::string::to_string_from_display_ensures::<std::borrow::Cow<'a, str>>(t, s) <==> s@ == cow_text(*t) {}
// HashMap::get_mut looked up with the key type itself (Q = K): the borrowed form of a key is the key (trusted; std semantics;
// `borrowed_key_updated` is the uninterpreted relation of contracts/common/hash_str.rs's get_mut specification)
#[verifier::external_body]
pub broadcast proof fn axiom_same_key_updated<K, V>(m1: Map<K, V>, m2: Map<K, V>, k: &K, v: V)
    ensures #[trigger] borrowed_key_updated::<K, V, K>(m1, m2, k, v) <==> (m1.contains_key(*k) && m2 == m1.insert(*k, v))
{}

// ---- tokio::sync::mpsc / oneshot as used by the wrapper methods (trusted, written from the tokio 1.x documentation) ----
#[verifier::external_type_specification] #[verifier::external_body] #[verifier::reject_recursive_types(T)]
pub struct ExMpscSender<T>(tokio::sync::mpsc::Sender<T>);
#[verifier::external_type_specification] #[verifier::external_body] #[verifier::reject_recursive_types(T)]
pub struct ExOneshotReceiver<T>(tokio::sync::oneshot::Receiver<T>);
#[verifier::external_type_specification] #[verifier::external_body] #[verifier::reject_recursive_types(T)]
pub struct ExMpscSendError<T>(tokio::sync::mpsc::error::SendError<T>);
#[verifier::external_type_specification] #[verifier::reject_recursive_types(T)]
pub struct ExMpscTrySendError<T>(tokio::sync::mpsc::error::TrySendError<T>);
#[verifier::external_type_specification] #[verifier::reject_recursive_types(T)]
pub struct ExMpscSendTimeoutError<T>(tokio::sync::mpsc::error::SendTimeoutError<T>);
#[verifier::external_type_specification] #[verifier::external_body]
pub struct ExRecvError(tokio::sync::oneshot::error::RecvError);
#[verifier::external_type_specification] #[verifier::external_body]
pub struct ExIoError(std::io::Error);
#[verifier::external_type_specification] #[verifier::external_body]
pub struct ExFromHexError(hex::FromHexError);
#[verifier::external_type_specification] #[verifier::external_body]
pub struct ExNulError(std::ffi::NulError);
#[verifier::external_body] pub broadcast proof fn axiom_fmt_mpsc_send_error<T>() ensures #[trigger] vstd::std_specs::fmt::fmt_req_all::<tokio::sync::mpsc::error::SendError<T>>() {}
#[verifier::external_body] pub broadcast proof fn axiom_fmt_mpsc_try_send_error<T>() ensures #[trigger] vstd::std_specs::fmt::fmt_req_all::<tokio::sync::mpsc::error::TrySendError<T>>() {}
#[verifier::external_body] pub broadcast proof fn axiom_fmt_mpsc_send_timeout_error<T>() ensures #[trigger] vstd::std_specs::fmt::fmt_req_all::<tokio::sync::mpsc::error::SendTimeoutError<T>>() {}
pub broadcast group group_fmt_chan_errors { axiom_fmt_mpsc_send_error, axiom_fmt_mpsc_try_send_error, axiom_fmt_mpsc_send_timeout_error }

// oneshot::channel(): the two halves of ONE channel
pub uninterp spec fn rx_tx<T>(rx: tokio::sync::oneshot::Receiver<T>) -> tokio::sync::oneshot::Sender<T>;
pub assume_specification<T> [tokio::sync::oneshot::channel::<T>] () -> (r: (tokio::sync::oneshot::Sender<T>, tokio::sync::oneshot::Receiver<T>))
    ensures rx_tx(r.1) == r.0;

// What one task observes on an actor's channel (E4 ghost trace threaded through the E9 stubs of the channel operations):
//   sent       the messages this task DELIVERED into the actor's queue, in order
//   gone       the actor was observed dead: mpsc receiver closed/dropped (the loop ended) or a reply sender dropped unanswered
//   overflowed a message was NOT delivered because the bounded queue was full (only try_send can report that)
//   timed_out  a message was NOT delivered because send_timeout gave up
pub tracked struct ChanTrace<M> {
    pub ghost sent: Seq<M>,
    pub ghost gone: bool,
    pub ghost overflowed: bool,
    pub ghost timed_out: bool,
}
// (so that a body using send_timeout with a literal duration is accepted and judged by its contract)
pub assume_specification [std::time::Duration::from_millis] (ms: u64) -> std::time::Duration;
pub assume_specification [std::time::Duration::from_secs] (s: u64) -> std::time::Duration;
// str::to_lowercase: only NAMED (uninterpreted `lower`): a body that lower-cases a text it must hand on unchanged is then DECIDED by the
// clause that states the text, instead of being UNDECIDED ("to_lowercase is not supported")
pub uninterp spec fn lower(s: Seq<char>) -> Seq<char>;
pub assume_specification [str::to_lowercase] (s: &str) -> (r: String)
    ensures r@ == lower(s@);
// std::sync::Mutex (the redirector actor holds Option<Arc<Mutex<BpfObject>>>): opaque
#[verifier::external_type_specification] #[verifier::external_body] #[verifier::reject_recursive_types(T)]
pub struct ExStdMutex<T: ?Sized>(std::sync::Mutex<T>);
// Arc::clone: another handle to the SAME shared object (std docs: "creates another pointer to the same allocation"). Trusted.
pub assume_specification<T: ?Sized, A: core::alloc::Allocator + Clone>[<std::sync::Arc<T, A> as Clone>::clone](a: &std::sync::Arc<T, A>) -> (r: std::sync::Arc<T, A>)
    ensures r == *a;

// ---- u128::overflowing_add (core documentation: wrapping sum and whether it wrapped; never panics) ----
pub assume_specification [u128::overflowing_add] (a: u128, b: u128) -> (r: (u128, bool))
    ensures
        a + b <= u128::MAX ==> r.0 == a + b && !r.1,
        a + b > u128::MAX ==> r.0 == a + b - u128::MAX - 1 && r.1;
