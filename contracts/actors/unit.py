# unit `actors` (C09, C10, C11): the actor-loop match arms other properties rely on (E5b slices) and the wrapper methods
#   shared_state/agent_status_wrapper.rs: AddOneFailedConnectionSummary / AddOneConnectionSummary arms
#   proxy/proxy_summary.rs: ProxySummary::to_key_string, From<ProxySummary> for ProxyConnectionSummary
#   shared_state/key_keeper_wrapper.rs: SetKey/GetKey, state, rule-id and rules Set*/Get* arms; set_key/get_key messages;
#       update_key, clear_key, get_current_key_{value,guid,incarnation}
import os
import re
import sys
HERE = os.path.dirname(os.path.abspath(__file__))
COMMON = os.path.join(os.path.dirname(HERE), "common")
sys.path.insert(0, os.path.join(os.path.dirname(os.path.dirname(HERE)), "tools"))
import vxlib  # noqa: E402
from vxlib import Undecided  # noqa: E402

ASSUMPTIONS = []
FN_PROPS = {}

KKW = "proxy_agent/src/shared_state/key_keeper_wrapper.rs"
ASW = "proxy_agent/src/shared_state/agent_status_wrapper.rs"

T = "Tracked(t): Tracked<&mut KTrace>"

# key-keeper actor arms: variant -> (fn name, params, ret type, pre (E5 glue), tail, contract)
OPT_RULES = "Option<ComputedAuthorizationItem>"
KK_ARMS = {
    "SetKey": ("vx_arm_set_key", "key_0: Option<Key>, new_key: Option<Key>, response: oneshot::Sender<()>", "Option<Key>", "let mut key = key_0;", "key", """
        ensures r == new_key,  // @C10+C09.actor.SetKey.stores_its_argument
"""),
    "GetKey": ("vx_arm_get_key", "key: Option<Key>, response: oneshot::Sender<Option<Key>>", "", "", "", """
        ensures key_reply_is_current(sent_value(response), key),  // @C10.actor.GetKey.replies_clone_of_current_key
"""),
    "SetSecureChannelState": ("vx_arm_set_secure_channel_state", "current_secure_channel_state_0: String, state: String, response: oneshot::Sender<()>", "String",
                              "let mut current_secure_channel_state = current_secure_channel_state_0;", "current_secure_channel_state", """
        ensures r == state,  // @C09.actor.SetSecureChannelState.stores_its_argument
"""),
    "GetSecureChannelState": ("vx_arm_get_secure_channel_state", "current_secure_channel_state: String, response: oneshot::Sender<String>", "", "", "", """
        ensures sent_value(response) == current_secure_channel_state,  // @C09.actor.GetSecureChannelState.replies_stored_value
"""),
}
for (v, local) in (("WireServer", "wireserver"), ("Imds", "imds"), ("HostGA", "hostga")):
    KK_ARMS["Set%sRuleId" % v] = ("vx_arm_set_%s_rule_id" % local, "%s_rule_id_0: String, rule_id: String, response: oneshot::Sender<()>" % local, "String",
                                  "let mut %s_rule_id = %s_rule_id_0;" % (local, local), "%s_rule_id" % local, """
        ensures r == rule_id,  // @C09.actor.Set%sRuleId.stores_its_argument
""" % v)
    KK_ARMS["Get%sRuleId" % v] = ("vx_arm_get_%s_rule_id" % local, "%s_rule_id: String, response: oneshot::Sender<String>" % local, "", "", "", """
        ensures sent_value(response) == %s_rule_id,  // @C09.actor.Get%sRuleId.replies_stored_value
""" % (local, v))
    KK_ARMS["Set%sRules" % v] = ("vx_arm_set_%s_rules" % local, "%s_rules_0: %s, rules: %s, response: oneshot::Sender<()>" % (local, OPT_RULES, OPT_RULES), OPT_RULES,
                                 "let mut %s_rules = %s_rules_0;" % (local, local), "%s_rules" % local, """
        ensures r == rules,  // @C09.actor.Set%sRules.stores_its_argument
""" % v)
    KK_ARMS["Get%sRules" % v] = ("vx_arm_get_%s_rules" % local, "%s_rules: %s, response: oneshot::Sender<%s>" % (local, OPT_RULES, OPT_RULES), "", "", "", """
        ensures sent_value(response) == %s_rules,  // @C09.actor.Get%sRules.replies_stored_value
""" % (local, v))
KK_NOT_SLICED = {"GetNotify"}   # not relied upon by C09/C10


def arm_block(sf, arm, what):
    if sf.s(arm["body"][0], arm["body"][0] + 1) != "{" or arm["guard"] is not None:
        raise Undecided("%s: arm is not an unguarded block" % what)
    return arm["body"][0] + 1, arm["body"][1] - 1


def build(u):
    u.features += ["allocator_api", "sized_hierarchy"]
    kkw = u.src(KKW)
    asw = u.src(ASW)
    err = u.src("proxy_agent/src/common/error.rs")
    lg = u.src("proxy_agent/src/common/logger.rs")
    key = u.src("proxy_agent/src/key_keeper/key.rs")
    ar = u.src("proxy_agent/src/proxy/authorization_rules.rs")
    psum = u.src("proxy_agent/src/proxy/proxy_summary.rs")
    ags = u.src("proxy_agent_shared/src/proxy_agent_aggregate_status.rs")
    u.raw("use vstd::std_specs::hash::*;")
    for f in ("str_axioms.rs", "ext_types.rs", "std_string.rs", "hash_str.rs"):
        u.raw(open(os.path.join(COMMON, f)).read())
    u.raw_file("deps.rs")
    u.raw_file("spec.rs")

    with u.mod("common"):
        with u.mod("error"):
            u.take_ext(err, ["Error", "HyperErrorType", "WireServerErrorType", "KeyErrorType", "AclErrorType", "BpfErrorType"], "vx_ext_error", uses="use http::{uri::InvalidUri, StatusCode};")
        with u.mod("result", uses="use super::error::Error;"):
            u.raw("pub type Result<T> = core::result::Result<T, Error>;")
        with u.mod("logger"):
            u.take_fn(lg, "write_warning", external_body=True, ret="")
    with u.mod("proxy_agent_shared"):
        with u.mod("proxy_agent_aggregate_status"):
            u.take(ags, "ProxyConnectionSummary", "struct")
    with u.mod("key_keeper"):
        with u.mod("key", uses="use std::collections::HashMap;"):
            u.take(key, "Key", "struct")
            with u.impl_(key, "<Key as Clone>"):
                # Key's hand-written Clone: proved to be a faithful copy (GetKey replies a clone)
                u.take_fn(key, "<Key as Clone>::clone", make_pub=False, pre_body="broadcast use axiom_to_string_string, axiom_string_ext;", contract="""
        ensures r == *self,  // @C10.Key_clone.faithful_copy
""")
    with u.mod("proxy"):
        with u.mod("authorization_rules"):
            # E13: the rule tables are only stored and handed back by the actor arms (never looked into)
            u.placeholder_ext(ar, ["ComputedAuthorizationItem"], "vx_ph_authz")
            u.raw("""
// derived Clone of ComputedAuthorizationItem (HashMap / HashSet / String fields, all Clone by value): a copy. Trusted.
pub assume_specification [<ComputedAuthorizationItem as Clone>::clone] (c: &ComputedAuthorizationItem) -> (r: ComputedAuthorizationItem)
    ensures r == *c;
""")
        build_summary(u, psum)
    with u.mod("shared_state"):
        build_status_actor(u, asw)
        build_key_keeper_actor(u, kkw)


def build_summary(u, psum):
    with u.mod("proxy_summary", uses="use std::path::PathBuf;\nuse crate::proxy_agent_shared::proxy_agent_aggregate_status::ProxyConnectionSummary;"):
        u.take(psum, "ProxySummary", "struct")
        it = psum.item("ProxySummary::to_key_string", "fn")
        fm = [m for m in it["macros"] if m["name"] == "format"]
        if len(fm) != 1:
            raise Undecided("to_key_string: expected exactly one format!")
        ftext = psum.s(fm[0]["span"][0], fm[0]["span"][1])
        segs, args = u.parse_format_macro(ftext)
        # E6 carried out through E9: the format! call moves, verbatim, into a generated stub; its contract is generated from the
        # literal and the argument list found in the tree (segments interleaved with the Display text of each argument).
        kinds = {"self.userName": ("&String", "&%s", "%s@"), "self.clientIp": ("&String", "&%s", "%s@"), "self.ip": ("&String", "&%s", "%s@"),
                 "self.port": ("u16", "%s", "dec_u16(%s)"), "self.processFullPath.to_string_lossy()": ("std::borrow::Cow<'_, str>", "%s", "cow_text(%s)"),
                 "self.processCmdLine": ("&String", "&%s", "%s@"), "self.responseStatus": ("&String", "&%s", "%s@")}
        params, cargs, parts = [], [], []

        def q(x):
            return '"' + x.replace("\\", "\\\\").replace('"', '\\"') + '"@'
        for i, a in enumerate(args):
            a1 = re.sub(r"\s+", "", a)
            if a1 not in kinds:
                raise Undecided("to_key_string: unexpected format! argument `%s`" % a)
            ty, callfmt, specfmt = kinds[a1]
            params.append("a%d: %s" % (i, ty))
            cargs.append(callfmt % a)
            if segs[i]:
                parts.append(q(segs[i]))      # an empty literal segment contributes nothing
            parts.append(specfmt % ("a%d" % i))
        if segs[-1]:
            parts.append(q(segs[-1]))
        lit = ftext[ftext.index('"'):ftext.index('"', ftext.index('"') + 1) + 1]
        u.rule("E6", "ProxySummary::to_key_string: format! value assumed to be the literal's segments interleaved with the Display text of its %d arguments (generated from the tree)" % len(args))
        with u.impl_(psum, "ProxySummary"):
            u.take_fn(psum, "ProxySummary::to_key_string",
                      e9=[((fm[0]["span"][0], fm[0]["span"][1]), None, ", ".join(params), ", ".join(cargs), "String",
                           "    ensures r@ == " + " + ".join(parts) + ",",
                           dict(name="vx_e9_to_key_string_format", local=True, body="format!(%s, %s)" % (lit, ", ".join("a%d" % i for i in range(len(args))))))],
                      contract="""
        ensures r@ == summary_key(*self),  // @C11.to_key_string.names_user_client_destination_process_cmdline_status
""")
        # vstd's From specification hook: the conversion is specified by the function summary_entry (spec.rs)
        u.raw("""impl vstd::std_specs::convert::FromSpecImpl<ProxySummary> for ProxyConnectionSummary {
    open spec fn obeys_from_spec() -> bool { false }
    open spec fn from_spec(v: ProxySummary) -> ProxyConnectionSummary { arbitrary() }
}""")
        with u.impl_(psum, "<ProxyConnectionSummary as From<ProxySummary>>"):
            u.take_fn(psum, "<ProxyConnectionSummary as From<ProxySummary>>::from", make_pub=False,
                      pre_body="broadcast use axiom_to_string_string, axiom_to_string_cow;",
                      contract="""
        ensures r.count == 1,  // @C11.ProxyConnectionSummary_from.first_occurrence_counts_one
                entry_names_caller(r, proxy_summary),  // @C11.ProxyConnectionSummary_from.entry_names_the_caller
""")


def build_status_actor(u, asw):
    uses = """use crate::common::logger;
use crate::proxy::proxy_summary::ProxySummary;
use crate::proxy_agent_shared::proxy_agent_aggregate_status::ProxyConnectionSummary;
use std::collections::{hash_map, HashMap};
use tokio::sync::{mpsc, oneshot};
use vstd::std_specs::hash::*;"""
    with u.mod("agent_status_wrapper", uses=uses):
        FN = "AgentStatusSharedState::start_new"
        it = asw.item(FN, "fn")
        ms = [m for m in it["matches"] if asw.s(m["scrutinee"][0], m["scrutinee"][1]).strip() == "action"]
        if len(ms) != 1:
            raise Undecided("%s: the dispatch `match action` was found %d times" % (FN, len(ms)))
        seen = {}
        for arm in ms[0]["arms"]:
            m = re.match(r"\s*AgentStatusAction::(\w+)\b", asw.s(arm["pat"][0], arm["pat"][1]))
            if not m or m.group(1) in seen:
                raise Undecided("%s: unexpected actor arm `%s`" % (FN, asw.s(arm["pat"][0], arm["pat"][1])[:50]))
            seen[m.group(1)] = arm
        for (variant, local, name, prop) in (("AddOneFailedConnectionSummary", "failed_authenticate_summary", "vx_arm_add_one_failed_connection_summary", "C11"),
                                             ("AddOneConnectionSummary", "proxy_summary", "vx_arm_add_one_connection_summary", "C11")):
            if variant not in seen:
                raise Undecided("%s: arm %s missing" % (FN, variant))
            pat = re.sub(r"\s+", "", asw.s(seen[variant]["pat"][0], seen[variant]["pat"][1]))
            if pat != "AgentStatusAction::%s{summary,response}" % variant:
                raise Undecided("%s: arm %s binds other names than summary/response" % (FN, variant))
            lo, hi = arm_block(asw, seen[variant], FN + " " + variant)
            kl = [l for l in it["lets"] if lo <= l["span"][0] and l["span"][1] <= hi and l["init"] is not None
                  and re.sub(r"\s+", "", asw.s(l["init"][0], l["init"][1])) == "summary.to_key_string()"]
            hints = []
            if len(kl) == 1:   # proof hint only (its loss cannot make anything pass): the exec key is THE String with that text
                kn = asw.s(kl[0]["pat"][0], kl[0]["pat"][1]).strip()
                hints = [(asw.s(kl[0]["span"][0], kl[0]["span"][1]), None, "after",
                          "proof { assert(%s@ == str_key(summary_key(summary))@); assert(%s == str_key(summary_key(summary))); }" % (kn, kn))]
            sends = [c for c in it["calls"] if c["kind"] == "method" and c["callee"] == "send" and lo <= c["span"][0] and c["span"][1] <= hi]
            if len(sends) == 1:   # proof hint placed before the statement that replies: struct / map extensionality steps
                hints.append((asw.s(sends[0]["span"][0], sends[0]["span"][1]), None, "before", """proof {
    let k = str_key(summary_key(summary));
    let m1 = %s@;
    if m0.contains_key(k) {
        assert(m1[k] == bump(m0[k]));
        assert(m1 == m0.insert(k, bump(m0[k])));
    } else {
        assert(m1.dom() == m0.dom().insert(k));
        assert(m1 == m0.insert(k, m1[k]));
    }
}""" % local))
            u.slice_fn(asw, FN, name, lo, hi,
                       "%s: &mut HashMap<String, ProxyConnectionSummary>, summary: ProxySummary, response: oneshot::Sender<()>" % local, hints=hints,
                       pre_body="broadcast use vstd::std_specs::hash::group_hash_axioms, group_str_key, axiom_string_ext, axiom_same_key_updated;\nlet ghost m0 = %s@;\n" % local,
                       what="(actor arm AgentStatusAction::%s)" % variant,
                       contract="""
        requires
            obeys_key_model::<String>(),
            forall|j: String| #[trigger] old(%(l)s)@.contains_key(j) ==> old(%(l)s)@[j].count < u64::MAX,   // ASSUMED: no u64 wrap within a day (the map is cleared daily)
        ensures
            one_more(old(%(l)s)@, final(%(l)s)@, str_key(summary_key(summary))),  // @%(p)s.actor.%(v)s.exactly_one_more_under_this_key_all_other_keys_unchanged
            !old(%(l)s)@.contains_key(str_key(summary_key(summary))) ==> entry_names_caller(final(%(l)s)@[str_key(summary_key(summary))], summary),  // @%(p)s.actor.%(v)s.new_entry_names_the_caller
            forall|j: String| #[trigger] final(%(l)s)@.contains_key(j) ==> final(%(l)s)@[j].count <= u64::MAX,
""" % dict(l=local, p=prop, v=variant))


def build_key_keeper_actor(u, kkw):
    uses = """use crate::common::error::Error;
use crate::common::result::Result;
use crate::proxy::authorization_rules::ComputedAuthorizationItem;
use crate::{common::logger, key_keeper::key::Key};
use std::sync::Arc;
use tokio::sync::{mpsc, oneshot, Notify};"""
    with u.mod("key_keeper_wrapper", uses=uses):
        u.take_ext(kkw, ["KeyKeeperAction"], "vx_ext_kk_action", uses="use crate::proxy::authorization_rules::ComputedAuthorizationItem;\nuse crate::key_keeper::key::Key;\nuse std::sync::Arc;\nuse tokio::sync::{mpsc, oneshot, Notify};", opaque=False, transparent=True)
        u.take_ext(kkw, ["KeyKeeperSharedState"], "vx_ext_kk_state", uses="use crate::vx_ext_kk_action::KeyKeeperAction;\nuse tokio::sync::mpsc;")
        FN = "KeyKeeperSharedState::start_new"
        it = kkw.item(FN, "fn")
        ms = [m for m in it["matches"] if re.sub(r"\s+", "", kkw.s(m["scrutinee"][0], m["scrutinee"][1])) == "receiver.recv().await"]
        if len(ms) != 1:
            raise Undecided("%s: the dispatch `match receiver.recv().await` was found %d times" % (FN, len(ms)))
        seen = set()
        for arm in ms[0]["arms"]:
            pat = kkw.s(arm["pat"][0], arm["pat"][1])
            if pat.strip() == "None":
                continue
            m = re.match(r"\s*Some\(\s*KeyKeeperAction::(\w+)\b", pat)
            if not m or m.group(1) in seen or (m.group(1) not in KK_ARMS and m.group(1) not in KK_NOT_SLICED):
                raise Undecided("%s: unknown or repeated actor arm `%s`" % (FN, pat[:60]))
            v = m.group(1)
            seen.add(v)
            if v in KK_NOT_SLICED:
                continue
            name, params, rty, pre, tail, contract = KK_ARMS[v]
            lo, hi = arm_block(kkw, arm, FN + " " + v)
            # rustc checks the frame: the slice only compiles if the arm uses no actor local other than the one passed in
            u.slice_fn(kkw, FN, name, lo, hi, params, ret_type=rty, contract=contract,
                       pre_body="broadcast use axiom_to_string_string, axiom_string_ext, axiom_fmt_opt_string;\n" + pre + "\n", tail=(tail + "\n") if tail else "",
                       what="(actor arm KeyKeeperAction::%s)" % v)
        if seen - KK_NOT_SLICED != set(KK_ARMS):
            raise Undecided("%s: actor arms %s missing" % (FN, sorted(set(KK_ARMS) - seen)))
