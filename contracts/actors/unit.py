# unit `actors` (C09, C10, C11): the actor-loop match arms other properties rely on (E5b slices) and the wrapper methods
#   shared_state/agent_status_wrapper.rs: AddOneFailedConnectionSummary / AddOneConnectionSummary arms
#   proxy/proxy_summary.rs: ProxySummary::to_key_string, From<ProxySummary> for ProxyConnectionSummary
#   shared_state/key_keeper_wrapper.rs: SetKey/GetKey, state, rule-id and rules Set*/Get* arms; set_key/get_key messages;
#       update_key, clear_key, get_current_key_{value,guid,incarnation}; set_{wireserver,imds,hostga}_rules (C09: one message of its OWN
#       variant carrying rules.map(from_authorization_item), Ok only after the actor answered)
#   shared_state/redirector_wrapper.rs (C09 + argument clause of C06; what unit `redirect` assumes about get_bpf_object / get_local_port):
#       the four actor arms (Set/Get LocalPort, Set/Get BpfObject) and the wrappers set_local_port, get_local_port, set_bpf_object,
#       get_bpf_object, update_bpf_object, clear_bpf_object
import os
import re
import sys
HERE = os.path.dirname(os.path.abspath(__file__))
COMMON = os.path.join(os.path.dirname(HERE), "common")
sys.path.insert(0, os.path.join(os.path.dirname(os.path.dirname(HERE)), "tools"))
import vxlib  # noqa: E402
from vxlib import Undecided  # noqa: E402

ASSUMPTIONS = [
    "NOT verified: the dispatch loops themselves (`while let Some(action) = rx.recv().await { match action {..} }` / `loop { match receiver.recv().await {..} }`): "
    "each arm is lifted to a function whose parameters are the actor locals it may use (rustc then enforces the frame: an arm touching another local makes "
    "the unit UNDECIDED, never silently proved); that the loop runs the arm matching the received message once per message is Rust's `match` + tokio's mpsc FIFO delivery",
    "tokio channels (E9 stubs, contracts from the tokio 1.x docs): mpsc::Sender::send waits for capacity and fails only when the receiver is closed/dropped; "
    "blocking_send likewise; try_send fails with Full (bounded queue has no capacity) or Closed; send_timeout fails with Timeout or Closed; a message whose send "
    "returned Ok was delivered into the actor's queue, one whose send returned Err was not; awaiting a oneshot::Receiver yields the value handed to `send` on the "
    "paired Sender (sent_value(rx_tx(rx))) or Err(RecvError) only if that Sender was dropped unanswered, which is read as `the actor is gone` (every arm under "
    "contract here replies before it ends; a panic inside an arm would also drop it); oneshot::Sender::send consumes the sender (one value per sender)",
    "ghost ChanTrace{sent,gone,overflowed,timed_out} (E4) is the view of ONE task on the actor's channel; messages of other tasks interleave in the queue "
    "(await-interleaving model, safety only)",
    "u64 summary counts do not wrap: `requires count < u64::MAX` on the two summary arms (the maps are cleared daily by proxy_agent_status; DESIGN C11 Assumed)",
    "format!(\"{} {} {} {} {} {} {}\", ..) in ProxySummary::to_key_string is the literal's segments interleaved with the Display text of its arguments "
    "(E6 through one generated E9 stub whose contract is generated from the literal and argument list in the tree); Display of String is the string, of u16 "
    "an uninterpreted function dec_u16 of the value, of Cow<str> its text; Path::to_string_lossy / Cow::to_string only named (path_lossy)",
    "HashMap<String,_> model of vstd (obeys_key_model::<String>() required), vstd's Entry API specification, contracts/common/hash_str.rs get_mut specification "
    "plus the axiom that a key looked up by its own type (Q = K) is itself (axiom_same_key_updated); &str/String extensionality",
    "E13 placeholder ComputedAuthorizationItem (stored and handed back, never looked into); its derived Clone is a copy (assume_specification)",
    "E13 placeholder AuthorizationItem (handed to from_authorization_item, never looked into); ComputedAuthorizationItem::from_authorization_item is a stub "
    "(real signature) whose result is NAMED computed(item) (uninterpreted; its own contract -- the tables represent the document -- is proved in unit authz); "
    "Option::map(f) applies f to the payload (vstd specification), so that set_*_rules is proved to send computed_opt(rules)",
    "answered(tx) (uninterpreted) = `send` was called on the oneshot Sender tx: ensured by oneshot::Sender::send, and awaiting the paired Receiver yields Ok only "
    "then (tokio docs: the receiver future resolves to the value sent, or Err(RecvError) if the sender was dropped without sending)",
    "E13 placeholder redirector::BpfObject (held behind Arc<Mutex<_>> by the redirector actor, never looked into); cloning the Option<Arc<Mutex<BpfObject>>> "
    "yields the same shared object (vstd's Option::clone specification + assumed Arc::clone: another handle to the same allocation); std::sync::Mutex is an opaque external type",
    "str::to_lowercase is only named (uninterpreted `lower`; not used by the unchanged tree's functions under contract here)",
    "logger::write_warning is a stub; Debug/Display of Option<String> and of tokio's channel error types do not panic (log text unconstrained)",
    "vstd FromSpecImpl hook for From<ProxySummary>: obeys_from_spec() == false (no algebraic spec claimed; callers get the verified ensures of `from`)",
]
# which properties an UNLABELLED obligation (overflow, call precondition, ...) of a function counts for
FN_PROPS = {
    "AgentStatusSharedState::start_new": ["C11"],
    "AgentStatusSharedState::add_one_failed_connection_summary": ["C11"],
    "AgentStatusSharedState::add_one_connection_summary": ["C11"],
    "ProxySummary::to_key_string": ["C11"],
    "<ProxyConnectionSummary as From<ProxySummary>>::from": ["C11"],
    "KeyKeeperSharedState::start_new": ["C09"],
    "KeyKeeperSharedState::start_new[vx_arm_set_key]": ["C09", "C10"],
    "KeyKeeperSharedState::start_new[vx_arm_get_key]": ["C10"],
    "<Key as Clone>::clone": ["C10"],
    "KeyKeeperSharedState::set_key": ["C09", "C10"], "KeyKeeperSharedState::get_key": ["C09", "C10"],
    "KeyKeeperSharedState::update_key": ["C09", "C10"], "KeyKeeperSharedState::clear_key": ["C09", "C10"],
    "KeyKeeperSharedState::get_current_key_value": ["C10"], "KeyKeeperSharedState::get_current_key_guid": ["C10"],
    "KeyKeeperSharedState::get_current_key_incarnation": ["C10"],
}
for _m in ("set_secure_channel_state", "get_current_secure_channel_state", "set_wireserver_rule_id", "get_wireserver_rule_id", "set_imds_rule_id",
           "get_imds_rule_id", "set_hostga_rule_id", "get_hostga_rule_id", "get_wireserver_rules", "get_imds_rules", "get_hostga_rules",
           "set_wireserver_rules", "set_imds_rules", "set_hostga_rules"):
    FN_PROPS["KeyKeeperSharedState::" + _m] = ["C09"]

# ---- vocabulary shared with unit `keykeeper` (imported there from this file, so that what keykeeper ASSUMES about set_*_rules is
#      stated over the same symbols as what is PROVED here) ----
# method-name stem <-> Endpoint / message-variant infix: set_<stem>_rules sends Set<Infix>Rules, which the actor stores in <stem>_rules
ENDPOINTS = (("wireserver", "WireServer"), ("imds", "Imds"), ("hostga", "HostGA"))
COMPUTED_SPEC = """
/// C02's `compute`: ComputedAuthorizationItem::from_authorization_item (its own contract is decided in unit authz; uninterpreted here, so
/// every result holds for whatever that function computes)
pub uninterp spec fn computed(item: AuthorizationItem) -> ComputedAuthorizationItem;
pub open spec fn computed_opt(o: Option<AuthorizationItem>) -> Option<ComputedAuthorizationItem> {
    match o { Some(i) => Some(computed(i)), None => None }
}
"""

FN_PROPS["RedirectorSharedState::start_new"] = ["C09", "C06"]
for _m in ("set_local_port", "get_local_port", "set_bpf_object", "get_bpf_object", "update_bpf_object", "clear_bpf_object"):
    FN_PROPS["RedirectorSharedState::" + _m] = ["C09", "C06"]

KKW = "proxy_agent/src/shared_state/key_keeper_wrapper.rs"
RDW = "proxy_agent/src/shared_state/redirector_wrapper.rs"
ASW = "proxy_agent/src/shared_state/agent_status_wrapper.rs"

T = "Tracked(t): Tracked<&mut KTrace>"

# key-keeper actor arms: variant -> (fn name, params, ret type, pre (E5 glue), tail, contract)
OPT_RULES = "Option<ComputedAuthorizationItem>"
KK_ARMS = {
    "SetKey": ("vx_arm_set_key", "key_0: Option<Key>, new_key: Option<Key>, response: oneshot::Sender<()>", "Option<Key>", "let mut key = key_0;", "key", """
        ensures r == new_key,  // @C10+C09.actor.SetKey.stores_its_argument
"""),
    "GetKey": ("vx_arm_get_key", "key: Option<Key>, response: oneshot::Sender<Option<Key>>", "", "", "", """
        ensures key_reply_is_current(sent_value(response), key),  // @C10.actor.GetKey.replies_clone_of_current_key
"""),
    "SetSecureChannelState": ("vx_arm_set_secure_channel_state", "current_secure_channel_state_0: String, state: String, response: oneshot::Sender<()>", "String",
                              "let mut current_secure_channel_state = current_secure_channel_state_0;", "current_secure_channel_state", """
        ensures r == state,  // @C09.actor.SetSecureChannelState.stores_its_argument
"""),
    "GetSecureChannelState": ("vx_arm_get_secure_channel_state", "current_secure_channel_state: String, response: oneshot::Sender<String>", "", "", "", """
        ensures sent_value(response) == current_secure_channel_state,  // @C09.actor.GetSecureChannelState.replies_stored_value
"""),
}
for (local, v) in ENDPOINTS:
    KK_ARMS["Set%sRuleId" % v] = ("vx_arm_set_%s_rule_id" % local, "%s_rule_id_0: String, rule_id: String, response: oneshot::Sender<()>" % local, "String",
                                  "let mut %s_rule_id = %s_rule_id_0;" % (local, local), "%s_rule_id" % local, """
        ensures r == rule_id,  // @C09.actor.Set%sRuleId.stores_its_argument
""" % v)
    KK_ARMS["Get%sRuleId" % v] = ("vx_arm_get_%s_rule_id" % local, "%s_rule_id: String, response: oneshot::Sender<String>" % local, "", "", "", """
        ensures sent_value(response) == %s_rule_id,  // @C09.actor.Get%sRuleId.replies_stored_value
""" % (local, v))
    KK_ARMS["Set%sRules" % v] = ("vx_arm_set_%s_rules" % local, "%s_rules_0: %s, rules: %s, response: oneshot::Sender<()>" % (local, OPT_RULES, OPT_RULES), OPT_RULES,
                                 "let mut %s_rules = %s_rules_0;" % (local, local), "%s_rules" % local, """
        ensures r == rules,  // @C09.actor.Set%sRules.stores_its_argument
                answered(response),  // @C09.actor.Set%sRules.answers_the_sender
""" % (v, v))
    KK_ARMS["Get%sRules" % v] = ("vx_arm_get_%s_rules" % local, "%s_rules: %s, response: oneshot::Sender<%s>" % (local, OPT_RULES, OPT_RULES), "", "", "", """
        ensures sent_value(response) == %s_rules,  // @C09.actor.Get%sRules.replies_stored_value
""" % (local, v))
KK_NOT_SLICED = {"GetNotify"}
AS_MODULES = ["key_keeper", "telemetry_reader", "telemetry_logger", "redirector", "proxy_server", "proxy_agent_status"]
AS_OTHER_ARMS = {
    "SetStatusMessage": [("message", "String"), ("module", "AgentStatusModule"), ("response", "oneshot::Sender<bool>")],
    "GetStatusMessage": [("module", "AgentStatusModule"), ("response", "oneshot::Sender<String>")],
    "SetState": [("state", "ModuleState"), ("module", "AgentStatusModule"), ("response", "oneshot::Sender<ModuleState>")],
    "GetState": [("module", "AgentStatusModule"), ("response", "oneshot::Sender<ModuleState>")],
    "ClearAllSummary": [("response", "oneshot::Sender<()>")],
    "GetAllConnectionSummary": [("response", "oneshot::Sender<Vec<ProxyConnectionSummary>>")],
    "GetAllFailedConnectionSummary": [("response", "oneshot::Sender<Vec<ProxyConnectionSummary>>")],
    "GetConnectionCount": [("response", "oneshot::Sender<u128>")],
    "IncreaseConnectionCount": [("response", "oneshot::Sender<u128>")],
    "IncreaseTcpConnectionCount": [("response", "oneshot::Sender<u128>")],
}
AS_NOT_SLICED = set()   # `for (_, v) in map.iter()`: outside the Verus subset   # not relied upon by C09/C10



# ---- tokio channel operations inside the wrapper methods: E9 redirections with ASSUMED contracts from the tokio documentation ----
MPSC = "tokio::sync::mpsc"
CHAN_T = "Tracked(t): Tracked<&mut ChanTrace<T>>"
FRAME = "final(t).overflowed == old(t).overflowed, final(t).timed_out == old(t).timed_out,"
SEND_FAMILY = {
    # mpsc::Sender::send: "waits until there is capacity"; Err only "if the receive half of the channel is closed"
    "send": dict(params="s: &%s::Sender<T>, m: T, %s" % (MPSC, CHAN_T), ret="core::result::Result<(), %s::error::SendError<T>>" % MPSC, is_async=True, body="s.send(m).await", contract="""
    ensures final(t).sent == (if r is Ok { old(t).sent.push(m) } else { old(t).sent }),
            final(t).gone == (old(t).gone || r is Err),
            final(t).overflowed == old(t).overflowed, final(t).timed_out == old(t).timed_out,"""),
    # mpsc::Sender::blocking_send: the synchronous form of send
    "blocking_send": dict(params="s: &%s::Sender<T>, m: T, %s" % (MPSC, CHAN_T), ret="core::result::Result<(), %s::error::SendError<T>>" % MPSC, is_async=False, body="s.blocking_send(m)", contract="""
    ensures final(t).sent == (if r is Ok { old(t).sent.push(m) } else { old(t).sent }),
            final(t).gone == (old(t).gone || r is Err),
            final(t).overflowed == old(t).overflowed, final(t).timed_out == old(t).timed_out,"""),
    # mpsc::Sender::try_send: does not wait: Err(Full) when the bounded queue has no capacity, Err(Closed) when the receiver is gone
    "try_send": dict(params="s: &%s::Sender<T>, m: T, %s" % (MPSC, CHAN_T), ret="core::result::Result<(), %s::error::TrySendError<T>>" % MPSC, is_async=False, body="s.try_send(m)", contract="""
    ensures final(t).sent == (if r is Ok { old(t).sent.push(m) } else { old(t).sent }),
            final(t).gone == (old(t).gone || r matches Err(tokio::sync::mpsc::error::TrySendError::Closed(_))),
            final(t).overflowed == (old(t).overflowed || r matches Err(tokio::sync::mpsc::error::TrySendError::Full(_))),
            final(t).timed_out == old(t).timed_out,"""),
    # mpsc::Sender::send_timeout: waits for capacity at most `d`
    "send_timeout": dict(params="s: &%s::Sender<T>, m: T, d: std::time::Duration, %s" % (MPSC, CHAN_T), ret="core::result::Result<(), %s::error::SendTimeoutError<T>>" % MPSC, is_async=True, body="s.send_timeout(m, d).await", contract="""
    ensures final(t).sent == (if r is Ok { old(t).sent.push(m) } else { old(t).sent }),
            final(t).gone == (old(t).gone || r matches Err(tokio::sync::mpsc::error::SendTimeoutError::Closed(_))),
            final(t).timed_out == (old(t).timed_out || r matches Err(tokio::sync::mpsc::error::SendTimeoutError::Timeout(_))),
            final(t).overflowed == old(t).overflowed,"""),
}


def chan_e9(sf, path, msg_ty, tag):
    """E9 redirections for every tokio channel operation of wrapper method `path`: each `self.0.<send family>(msg)` and the await of
    the oneshot reply receiver. The stubs execute the removed expression; their contracts (above) are assumptions on tokio. A body that
    uses another member of the send family is therefore ACCEPTED and judged by its contract, not UNDECIDED."""
    it = sf.item(path, "fn")
    out = []
    for c in it["calls"]:
        if c["kind"] == "method" and c["callee"] in SEND_FAMILY and re.sub(r"\s+", "", sf.s(c["receiver"][0], c["receiver"][1])) == "self.0":
            fam = SEND_FAMILY[c["callee"]]
            want = 2 if c["callee"] == "send_timeout" else 1
            if len(c["args"]) != want:
                raise Undecided("%s: %s with %d arguments" % (path, c["callee"], len(c["args"])))
            args = "&self.0, " + ", ".join(sf.s(a[0], a[1]) for a in c["args"]) + ", Tracked(t)"
            out.append((tuple(c["span"]), None, fam["params"], args, fam["ret"], fam["contract"],
                        dict(name="vx_e9_mpsc_" + c["callee"], generics="<T>", is_async=fam["is_async"], no_await=True, body=fam["body"])))
    for a in it["awaits"]:
        base = sf.s(a["base"][0], a["base"][1]).strip()
        if re.fullmatch(r"[A-Za-z_][A-Za-z0-9_]*", base):
            # awaiting a oneshot::Receiver: Err(RecvError) only "if the sender is dropped without sending"
            out.append((tuple(a["span"]), None, "rx: tokio::sync::oneshot::Receiver<R>, Tracked(t): Tracked<&mut ChanTrace<%s>>" % msg_ty, base + ", Tracked(t)",
                        "core::result::Result<R, tokio::sync::oneshot::error::RecvError>", """
    ensures r matches Ok(v) ==> v == sent_value(rx_tx(rx)) && answered(rx_tx(rx)),
            final(t).sent == old(t).sent, final(t).gone == (old(t).gone || r is Err),
            final(t).overflowed == old(t).overflowed, final(t).timed_out == old(t).timed_out,""",
                        dict(name="vx_e9_oneshot_recv_" + tag, generics="<R>", is_async=True, body="rx.await")))
    return out


def arm_block(sf, arm, what):
    if sf.s(arm["body"][0], arm["body"][0] + 1) != "{" or arm["guard"] is not None:
        raise Undecided("%s: arm is not an unguarded block" % what)
    return arm["body"][0] + 1, arm["body"][1] - 1


def build(u):
    u.features += ["allocator_api", "sized_hierarchy"]
    kkw = u.src(KKW)
    asw = u.src(ASW)
    err = u.src("proxy_agent/src/common/error.rs")
    lg = u.src("proxy_agent/src/common/logger.rs")
    key = u.src("proxy_agent/src/key_keeper/key.rs")
    ar = u.src("proxy_agent/src/proxy/authorization_rules.rs")
    psum = u.src("proxy_agent/src/proxy/proxy_summary.rs")
    ags = u.src("proxy_agent_shared/src/proxy_agent_aggregate_status.rs")
    rdw = u.src(RDW)
    lx = u.src("proxy_agent/src/redirector/linux.rs")
    u.raw("use vstd::std_specs::hash::*;")
    for f in ("str_axioms.rs", "ext_types.rs", "std_string.rs", "hash_str.rs"):
        u.raw(open(os.path.join(COMMON, f)).read())
    u.raw_file("deps.rs")
    u.raw_file("spec.rs")
    u.raw("use crate::key_keeper::key::AuthorizationItem;\nuse crate::proxy::authorization_rules::ComputedAuthorizationItem;" + COMPUTED_SPEC)

    with u.mod("common"):
        with u.mod("error"):
            u.take_ext(err, ["Error", "HyperErrorType", "WireServerErrorType", "KeyErrorType", "AclErrorType", "BpfErrorType"], "vx_ext_error", uses="use http::{uri::InvalidUri, StatusCode};", opaque=False)
            # Error is constructed by the wrapper methods under contract: declared TRANSPARENT; the nested error enums stay opaque
            u.raw("#[verifier::external_type_specification]\npub struct VxEx_err_Error(crate::vx_ext_error::Error);")
            for n in ("HyperErrorType", "WireServerErrorType", "KeyErrorType", "AclErrorType", "BpfErrorType"):
                u.raw("#[verifier::external_type_specification]\n#[verifier::external_body]\npub struct VxEx_err_%s(crate::vx_ext_error::%s);" % (n, n))
        with u.mod("result", uses="use super::error::Error;"):
            u.raw("pub type Result<T> = core::result::Result<T, Error>;")
        with u.mod("logger"):
            u.take_fn(lg, "write_warning", external_body=True, ret="")
    with u.mod("proxy_agent_shared"):
        with u.mod("proxy_agent_aggregate_status"):
            u.take(ags, "ProxyConnectionSummary", "struct")
            with u.impl_(ags, "<ProxyConnectionSummary as Clone>"):
                u.take_fn(ags, "<ProxyConnectionSummary as Clone>::clone", make_pub=False)
            u.take(ags, "ModuleState", "enum", keep_derive=("Clone", "Debug"))
    with u.mod("key_keeper"):
        with u.mod("key", uses="use std::collections::HashMap;"):
            # E13: the rule document is only handed to from_authorization_item by set_*_rules (never looked into here)
            u.placeholder_ext(key, ["AuthorizationItem"], "vx_ph_key_item", keep=())
            u.take(key, "Key", "struct")
            with u.impl_(key, "<Key as Clone>"):
                # Key's hand-written Clone: proved to be a faithful copy (GetKey replies a clone)
                u.take_fn(key, "<Key as Clone>::clone", make_pub=False, pre_body="broadcast use axiom_to_string_string, axiom_string_ext;", contract="""
        ensures r == *self,  // @C10.Key_clone.faithful_copy
""")
    with u.mod("proxy"):
        with u.mod("authorization_rules", uses="use crate::key_keeper::key::AuthorizationItem;"):
            # E13: the rule tables are only stored and handed back by the actor arms (never looked into)
            u.placeholder_ext(ar, ["ComputedAuthorizationItem"], "vx_ph_authz")
            with u.impl_(ar, "ComputedAuthorizationItem"):
                # stub (real signature): the result is NAMED computed(item); what it computes is decided in unit authz
                u.take_fn(ar, "ComputedAuthorizationItem::from_authorization_item", external_body=True, contract="""
        ensures r == computed(authorization_item),
""")
            u.raw("""
// derived Clone of ComputedAuthorizationItem (HashMap / HashSet / String fields, all Clone by value): a copy. Trusted.
pub assume_specification [<ComputedAuthorizationItem as Clone>::clone] (c: &ComputedAuthorizationItem) -> (r: ComputedAuthorizationItem)
    ensures r == *c;
""")
        build_summary(u, psum)
    with u.mod("redirector"):
        # E13: the BPF object is only stored and handed back by the redirector actor (never looked into)
        u.placeholder_ext(lx, ["BpfObject"], "vx_ph_bpf", keep=())
    with u.mod("shared_state"):
        build_status_actor(u, asw)
        build_key_keeper_actor(u, kkw)
        build_redirector_actor(u, rdw)


def build_summary(u, psum):
    with u.mod("proxy_summary", uses="use std::path::PathBuf;\nuse crate::proxy_agent_shared::proxy_agent_aggregate_status::ProxyConnectionSummary;"):
        u.take(psum, "ProxySummary", "struct")
        it = psum.item("ProxySummary::to_key_string", "fn")
        fm = [m for m in it["macros"] if m["name"] == "format"]
        if len(fm) != 1:
            raise Undecided("to_key_string: expected exactly one format!")
        ftext = psum.s(fm[0]["span"][0], fm[0]["span"][1])
        segs, args = u.parse_format_macro(ftext)
        # E6 carried out through E9: the format! call moves, verbatim, into a generated stub; its contract is generated from the
        # literal and the argument list found in the tree (segments interleaved with the Display text of each argument).
        kinds = {"self.userName": ("&String", "&%s", "%s@"), "self.clientIp": ("&String", "&%s", "%s@"), "self.ip": ("&String", "&%s", "%s@"),
                 "self.port": ("u16", "%s", "dec_u16(%s)"), "self.processFullPath.to_string_lossy()": ("std::borrow::Cow<'_, str>", "%s", "cow_text(%s)"),
                 "self.processCmdLine": ("&String", "&%s", "%s@"), "self.responseStatus": ("&String", "&%s", "%s@")}
        params, cargs, parts = [], [], []

        def q(x):
            return '"' + x.replace("\\", "\\\\").replace('"', '\\"') + '"@'
        for i, a in enumerate(args):
            a1 = re.sub(r"\s+", "", a)
            if a1 not in kinds:
                raise Undecided("to_key_string: unexpected format! argument `%s`" % a)
            ty, callfmt, specfmt = kinds[a1]
            params.append("a%d: %s" % (i, ty))
            cargs.append(callfmt % a)
            if segs[i]:
                parts.append(q(segs[i]))      # an empty literal segment contributes nothing
            parts.append(specfmt % ("a%d" % i))
        if segs[-1]:
            parts.append(q(segs[-1]))
        lit = ftext[ftext.index('"'):ftext.index('"', ftext.index('"') + 1) + 1]
        u.rule("E6", "ProxySummary::to_key_string: format! value assumed to be the literal's segments interleaved with the Display text of its %d arguments (generated from the tree)" % len(args))
        with u.impl_(psum, "ProxySummary"):
            u.take_fn(psum, "ProxySummary::to_key_string",
                      e9=[((fm[0]["span"][0], fm[0]["span"][1]), None, ", ".join(params), ", ".join(cargs), "String",
                           "    ensures r@ == " + " + ".join(parts) + ",",
                           dict(name="vx_e9_to_key_string_format", local=True, body="format!(%s, %s)" % (lit, ", ".join("a%d" % i for i in range(len(args))))))],
                      contract="""
        ensures r@ == summary_key(*self),  // @C11.to_key_string.names_user_client_destination_process_cmdline_status
""")
        # vstd's From specification hook: the conversion is specified by the function summary_entry (spec.rs)
        u.raw("""impl vstd::std_specs::convert::FromSpecImpl<ProxySummary> for ProxyConnectionSummary {
    open spec fn obeys_from_spec() -> bool { false }
    open spec fn from_spec(v: ProxySummary) -> ProxyConnectionSummary { arbitrary() }
}""")
        with u.impl_(psum, "<ProxyConnectionSummary as From<ProxySummary>>"):
            u.take_fn(psum, "<ProxyConnectionSummary as From<ProxySummary>>::from", make_pub=False,
                      pre_body="broadcast use axiom_to_string_string, axiom_to_string_cow;",
                      contract="""
        ensures r.count == 1,  // @C11.ProxyConnectionSummary_from.first_occurrence_counts_one
                entry_names_caller(r, proxy_summary),  // @C11.ProxyConnectionSummary_from.entry_names_the_caller
""")


def build_status_actor(u, asw):
    uses = """use crate::common::logger;
use crate::common::result::Result;
use crate::{common::error::Error, proxy::proxy_summary::ProxySummary};
use crate::proxy_agent_shared::proxy_agent_aggregate_status::{ModuleState, ProxyConnectionSummary};
use std::collections::{hash_map, HashMap};
use tokio::sync::{mpsc, oneshot};
use vstd::std_specs::hash::*;"""
    with u.mod("agent_status_wrapper", uses=uses):
        # every top-level const of the file (verbatim): an edit of a sliced arm that introduces a limit / threshold of its own is then judged
        # by the arm's contract instead of failing to compile
        seen_c = set()
        for it_c in asw.index["items"]:
            if it_c["kind"] == "const" and it_c["name"] not in seen_c and asw.has_item(it_c["path"]):
                seen_c.add(it_c["name"])
                u.take(asw, it_c["path"], "const")
        u.take(asw, "AgentStatusModule", "enum", keep_derive=("Clone", "Debug"))
        u.take_ext(asw, ["AgentStatusAction", "AgentStatusSharedState"], "vx_ext_status_actor", opaque=False, transparent=True,
                   uses="use crate::shared_state::agent_status_wrapper::AgentStatusModule;\nuse crate::proxy::proxy_summary::ProxySummary;\nuse crate::proxy_agent_shared::proxy_agent_aggregate_status::{ModuleState, ProxyConnectionSummary};\nuse tokio::sync::{mpsc, oneshot};")
        # ---- the wrapper methods that hand a summary to the actor: whole bodies under contract (tokio channel operations: E9, assumed)
        with u.impl_(asw, "AgentStatusSharedState"):
            for (meth, variant) in (("add_one_failed_connection_summary", "AddOneFailedConnectionSummary"), ("add_one_connection_summary", "AddOneConnectionSummary")):
                u.take_fn(asw, "AgentStatusSharedState::" + meth, ghost="Tracked(t): Tracked<&mut ChanTrace<AgentStatusAction>>",
                          pre_body="broadcast use group_fmt_chan_errors;", e9=chan_e9(asw, "AgentStatusSharedState::" + meth, "crate::shared_state::agent_status_wrapper::AgentStatusAction", "status"),
                          contract="""
        ensures
            r is Err ==> final(t).gone,  // @C11.wrapper.%(m)s.never_dropped_while_actor_alive
            r is Ok ==> final(t).sent.len() == old(t).sent.len() + 1 && final(t).sent.drop_last() == old(t).sent
                && (final(t).sent.last() matches AgentStatusAction::%(v)s { summary: s, response: _ } && s == summary),  // @C11.wrapper.%(m)s.hands_exactly_this_summary_to_the_actor_once
            final(t).sent == old(t).sent || (final(t).sent.len() == old(t).sent.len() + 1 && final(t).sent.drop_last() == old(t).sent),  // @C11.wrapper.%(m)s.at_most_one_message
""" % dict(m=meth, v=variant))
        # ---- the two connection counters the listener asks for per connection / per request: one message, the actor's reply, and Err only
        # when the actor is gone (C07: the exit of handle_new_tcp_connection on a failed increase_tcp_connection_count is then permanent;
        # C13: a live actor always answers the listener)
        with u.impl_(asw, "AgentStatusSharedState"):
            for (meth, variant) in (("increase_tcp_connection_count", "IncreaseTcpConnectionCount"), ("increase_connection_count", "IncreaseConnectionCount")):
                u.take_fn(asw, "AgentStatusSharedState::" + meth, ghost="Tracked(t): Tracked<&mut ChanTrace<AgentStatusAction>>",
                          pre_body="broadcast use group_fmt_chan_errors;", e9=chan_e9(asw, "AgentStatusSharedState::" + meth, "crate::shared_state::agent_status_wrapper::AgentStatusAction", "status"),
                          contract="""
        ensures
            r is Err ==> final(t).gone,  // @C07+C13.wrapper.%(m)s.fails_only_if_actor_gone
            r matches Ok(v) ==> final(t).sent.len() == old(t).sent.len() + 1 && final(t).sent.drop_last() == old(t).sent
                && (final(t).sent.last() matches AgentStatusAction::%(v)s { response } && v == sent_value(response)),  // @C07+C13.wrapper.%(m)s.returns_the_actors_reply_to_its_one_message
            final(t).sent == old(t).sent || (final(t).sent.len() == old(t).sent.len() + 1 && final(t).sent.drop_last() == old(t).sent),  // @C07+C13.wrapper.%(m)s.at_most_one_message
""" % dict(m=meth, v=variant))
        FN = "AgentStatusSharedState::start_new"
        it = asw.item(FN, "fn")
        ms = [m for m in it["matches"] if asw.s(m["scrutinee"][0], m["scrutinee"][1]).strip() == "action"]
        if len(ms) != 1:
            raise Undecided("%s: the dispatch `match action` was found %d times" % (FN, len(ms)))
        seen = {}
        for arm in ms[0]["arms"]:
            m = re.match(r"\s*AgentStatusAction::(\w+)\b", asw.s(arm["pat"][0], arm["pat"][1]))
            if not m or m.group(1) in seen:
                raise Undecided("%s: unexpected actor arm `%s`" % (FN, asw.s(arm["pat"][0], arm["pat"][1])[:50]))
            seen[m.group(1)] = arm
        for (variant, local, name, prop) in (("AddOneFailedConnectionSummary", "failed_authenticate_summary", "vx_arm_add_one_failed_connection_summary", "C11"),
                                             ("AddOneConnectionSummary", "proxy_summary", "vx_arm_add_one_connection_summary", "C11")):
            if variant not in seen:
                raise Undecided("%s: arm %s missing" % (FN, variant))
            pat = re.sub(r"\s+", "", asw.s(seen[variant]["pat"][0], seen[variant]["pat"][1]))
            if pat != "AgentStatusAction::%s{summary,response}" % variant:
                raise Undecided("%s: arm %s binds other names than summary/response" % (FN, variant))
            lo, hi = arm_block(asw, seen[variant], FN + " " + variant)
            kl = [l for l in it["lets"] if lo <= l["span"][0] and l["span"][1] <= hi and l["init"] is not None
                  and re.sub(r"\s+", "", asw.s(l["init"][0], l["init"][1])) == "summary.to_key_string()"]
            hints = []
            if len(kl) == 1:   # proof hint only (its loss cannot make anything pass): the exec key is THE String with that text
                kn = asw.s(kl[0]["pat"][0], kl[0]["pat"][1]).strip()
                hints = [(asw.s(kl[0]["span"][0], kl[0]["span"][1]), None, "after",
                          "proof { assert(%s@ == str_key(summary_key(summary))@); assert(%s == str_key(summary_key(summary))); }" % (kn, kn))]
            sends = [c for c in it["calls"] if c["kind"] == "method" and c["callee"] == "send" and lo <= c["span"][0] and c["span"][1] <= hi]
            if len(sends) == 1:   # proof hint placed before the statement that replies: struct / map extensionality steps
                hints.append((asw.s(sends[0]["span"][0], sends[0]["span"][1]), None, "before", """proof {
    let k = str_key(summary_key(summary));
    let m1 = %(l)s@;
    if m0.contains_key(k) {
        assert(m1[k] == bump(m0[k]));  // @%(p)s.actor.%(v)s.exactly_one_more_under_this_key_all_other_keys_unchanged
        assert(m1 == m0.insert(k, bump(m0[k])));  // @%(p)s.actor.%(v)s.exactly_one_more_under_this_key_all_other_keys_unchanged
    } else {
        assert(m1.dom() == m0.dom().insert(k));  // @%(p)s.actor.%(v)s.exactly_one_more_under_this_key_all_other_keys_unchanged
        assert(m1 == m0.insert(k, m1[k]));  // @%(p)s.actor.%(v)s.exactly_one_more_under_this_key_all_other_keys_unchanged
    }
}""" % dict(l=local, p=prop, v=variant)))
            # BOTH summary maps of the actor are handed to each arm (an arm that touches the other map is then decided, not UNDECIDED):
            # the other one must come back unchanged
            other = "proxy_summary" if local == "failed_authenticate_summary" else "failed_authenticate_summary"
            u.slice_fn(asw, FN, name, lo, hi,
                       "%s: &mut HashMap<String, ProxyConnectionSummary>, %s: &mut HashMap<String, ProxyConnectionSummary>, summary: ProxySummary, response: oneshot::Sender<()>" % (local, other), hints=hints,
                       pre_body="broadcast use vstd::std_specs::hash::group_hash_axioms, group_str_key, axiom_string_ext, axiom_same_key_updated;\nlet ghost m0 = %s@;\n" % local,
                       what="(actor arm AgentStatusAction::%s)" % variant,
                       contract="""
        requires
            obeys_key_model::<String>(),
            forall|j: String| #[trigger] old(%(l)s)@.contains_key(j) ==> old(%(l)s)@[j].count < u64::MAX,   // ASSUMED: no u64 wrap within a day (the map is cleared daily)
            forall|j: String| #[trigger] old(%(o)s)@.contains_key(j) ==> old(%(o)s)@[j].count < u64::MAX,
        ensures
            one_more(old(%(l)s)@, final(%(l)s)@, str_key(summary_key(summary))),  // @%(p)s.actor.%(v)s.exactly_one_more_under_this_key_all_other_keys_unchanged
            !old(%(l)s)@.contains_key(str_key(summary_key(summary))) ==> entry_names_caller(final(%(l)s)@[str_key(summary_key(summary))], summary),  // @%(p)s.actor.%(v)s.new_entry_names_the_caller
            forall|j: String| #[trigger] final(%(l)s)@.contains_key(j) ==> final(%(l)s)@[j].count <= u64::MAX,
            final(%(o)s)@ == old(%(o)s)@,  // @%(p)s.actor.%(v)s.the_other_summary_is_untouched
""" % dict(l=local, p=prop, v=variant, o=other))

        # derived Debug of the two field-less enums (format!("{:?}", module / state) in the warnings of the arms) does not panic
        u.raw("""#[verifier::external_body] pub broadcast proof fn axiom_fmt_status_module() ensures #[trigger] vstd::std_specs::fmt::fmt_req_all::<crate::shared_state::agent_status_wrapper::AgentStatusModule>() {}
#[verifier::external_body] pub broadcast proof fn axiom_fmt_module_state() ensures #[trigger] vstd::std_specs::fmt::fmt_req_all::<crate::proxy_agent_shared::proxy_agent_aggregate_status::ModuleState>() {}""")
        # ---- every OTHER arm of the status actor: sliced for panic-freedom only (C13: a panic in this task ends the ONE task that owns
        # all status state; every later status call then fails). All actor locals are handed over by value (`x_0`, rebound `let mut x`).
        AS_LOCALS = [("%s_state" % m, "ModuleState") for m in AS_MODULES] + [(("%s_status_message" % m).replace("status_status", "status"), "String") for m in AS_MODULES] + \
                    [("proxy_summary", "HashMap<String, ProxyConnectionSummary>"), ("failed_authenticate_summary", "HashMap<String, ProxyConnectionSummary>"),
                     ("tcp_connection_count", "u128"), ("http_connection_count", "u128")]
        declared = set(asw.s(l["pat"][0], l["pat"][1]).replace("mut ", "").split(":")[0].strip() for l in it["lets"])
        for (n, _t) in AS_LOCALS:
            if n not in declared:
                raise Undecided("%s: actor local %s is missing" % (FN, n))
        for variant in seen:
            if variant in ("AddOneFailedConnectionSummary", "AddOneConnectionSummary"):
                continue
            if variant not in AS_OTHER_ARMS:
                if variant in AS_NOT_SLICED:
                    continue
                raise Undecided("%s: unknown actor arm %s" % (FN, variant))
            fields = AS_OTHER_ARMS[variant]
            pat = re.sub(r"\s+", "", asw.s(seen[variant]["pat"][0], seen[variant]["pat"][1])).replace(",}", "}")
            if pat != "AgentStatusAction::%s{%s}" % (variant, ",".join(f for (f, _t) in fields)):
                raise Undecided("%s: arm %s binds other names than %s" % (FN, variant, [f for (f, _t) in fields]))
            lo, hi = arm_block(asw, seen[variant], FN + " " + variant)
            gname = "vx_arm_status_" + re.sub(r"(?<!^)([A-Z])", r"_\1", variant).lower()
            u.slice_fn(asw, FN, gname, lo, hi,
                       ", ".join(["%s_0: %s" % (n, t) for (n, t) in AS_LOCALS] + ["%s: %s" % (f, t) for (f, t) in fields]),
                       contract="\n        requires obeys_key_model::<String>(),   // vstd's HashMap model applies to String keys (as for the two summary arms)\n",
                       pre_body="broadcast use vstd::std_specs::hash::group_hash_axioms, axiom_to_string_string, axiom_string_ext, axiom_fmt_status_module, axiom_fmt_module_state;\n" + "".join("let mut %s = %s_0;\n" % (n, n) for (n, _t) in AS_LOCALS),
                       what="(actor arm AgentStatusAction::%s, panic-freedom)" % variant)
            u.auto_props[gname] = "C13"


def build_key_keeper_actor(u, kkw):
    uses = """use crate::common::error::Error;
use crate::common::result::Result;
use crate::key_keeper::key::AuthorizationItem;
use crate::proxy::authorization_rules::ComputedAuthorizationItem;
use crate::{common::logger, key_keeper::key::Key};
use std::sync::Arc;
use tokio::sync::{mpsc, oneshot, Notify};"""
    with u.mod("key_keeper_wrapper", uses=uses):
        u.take_ext(kkw, ["KeyKeeperAction"], "vx_ext_kk_action", uses="use crate::proxy::authorization_rules::ComputedAuthorizationItem;\nuse crate::key_keeper::key::Key;\nuse std::sync::Arc;\nuse tokio::sync::{mpsc, oneshot, Notify};", opaque=False, transparent=True)
        u.take_ext(kkw, ["KeyKeeperSharedState"], "vx_ext_kk_state", uses="use crate::vx_ext_kk_action::KeyKeeperAction;\nuse tokio::sync::mpsc;", opaque=False, transparent=True)
        build_key_keeper_wrappers(u, kkw)
        FN = "KeyKeeperSharedState::start_new"
        it = kkw.item(FN, "fn")
        ms = [m for m in it["matches"] if re.sub(r"\s+", "", kkw.s(m["scrutinee"][0], m["scrutinee"][1])) == "receiver.recv().await"]
        if len(ms) != 1:
            raise Undecided("%s: the dispatch `match receiver.recv().await` was found %d times" % (FN, len(ms)))
        seen = set()
        for arm in ms[0]["arms"]:
            pat = kkw.s(arm["pat"][0], arm["pat"][1])
            if pat.strip() == "None":
                continue
            m = re.match(r"\s*Some\(\s*KeyKeeperAction::(\w+)\b", pat)
            if not m or m.group(1) in seen or (m.group(1) not in KK_ARMS and m.group(1) not in KK_NOT_SLICED):
                raise Undecided("%s: unknown or repeated actor arm `%s`" % (FN, pat[:60]))
            v = m.group(1)
            seen.add(v)
            if v in KK_NOT_SLICED:
                continue
            name, params, rty, pre, tail, contract = KK_ARMS[v]
            # every OTHER local of the actor is handed to the arm read-only, so that an arm that replies / stores the value of
            # another slot is decided by its contract (a plain compile error would only be UNDECIDED)
            kk_locals = [("key", "Option<Key>"), ("current_secure_channel_state", "String")] + \
                        [("%s_rule_id" % l, "String") for (l, _v) in ENDPOINTS] + [("%s_rules" % l, OPT_RULES) for (l, _v) in ENDPOINTS]
            named = set(re.findall(r"(\w+?)(?:_0)?\s*:", params))
            extras = ", ".join("%s: &%s" % (n, t) for (n, t) in kk_locals if n not in named)
            params = params + (", " + extras if extras else "")
            lo, hi = arm_block(kkw, arm, FN + " " + v)
            # rustc checks the frame: the slice only compiles if the arm uses no actor local other than the one passed in
            u.slice_fn(kkw, FN, name, lo, hi, params, ret_type=rty, contract=contract,
                       pre_body="broadcast use axiom_to_string_string, axiom_string_ext, axiom_fmt_opt_string;\n" + pre + "\n", tail=(tail + "\n") if tail else "",
                       what="(actor arm KeyKeeperAction::%s)" % v)
        if seen - KK_NOT_SLICED != set(KK_ARMS):
            raise Undecided("%s: actor arms %s missing" % (FN, sorted(set(KK_ARMS) - seen)))


KK_T = "Tracked(t): Tracked<&mut ChanTrace<KeyKeeperAction>>"
GREW = "final(t).sent.len() == old(t).sent.len() + 1 && final(t).sent.drop_last() == old(t).sent"
# wrapper methods whose body is: one message to the actor, one awaited reply.  method -> (variant, field carrying the argument | None for getters, property)
KK_WRAPPERS = [
    ("set_key", "SetKey", "key", "C10+C09"), ("get_key", "GetKey", None, "C10+C09"),
    ("set_secure_channel_state", "SetSecureChannelState", "state", "C09"), ("get_current_secure_channel_state", "GetSecureChannelState", None, "C09"),
    ("set_wireserver_rule_id", "SetWireServerRuleId", "rule_id", "C09"), ("get_wireserver_rule_id", "GetWireServerRuleId", None, "C09"),
    ("set_imds_rule_id", "SetImdsRuleId", "rule_id", "C09"), ("get_imds_rule_id", "GetImdsRuleId", None, "C09"),
    ("set_hostga_rule_id", "SetHostGARuleId", "rule_id", "C09"), ("get_hostga_rule_id", "GetHostGARuleId", None, "C09"),
    ("get_wireserver_rules", "GetWireServerRules", None, "C09"), ("get_imds_rules", "GetImdsRules", None, "C09"), ("get_hostga_rules", "GetHostGARules", None, "C09"),
]


def build_key_keeper_wrappers(u, kkw):
    P = "KeyKeeperSharedState::"
    MSG = "crate::shared_state::key_keeper_wrapper::KeyKeeperAction"
    with u.impl_(kkw, "KeyKeeperSharedState"):
        for (meth, variant, field, prop) in KK_WRAPPERS:
            it = kkw.item(P + meth, "fn")
            if field is not None:
                if [p["name"] for p in it["params"] if p["name"] not in ("self", None)] != [field]:
                    raise Undecided("%s: parameter list changed" % meth)
                ok = "r is Ok ==> %s && (final(t).sent.last() matches KeyKeeperAction::%s { %s: a, response: _ } && a == %s)" % (GREW, variant, field, field)
                what = "sends_exactly_its_argument_once"
                # (added with set_*_rules) Ok is returned only after the actor answered THIS message: what unit keykeeper's `did` relies on
                ans = "\n            r is Ok ==> (final(t).sent.last() matches KeyKeeperAction::%s { %s: _, response: resp } && answered(resp)),  // @%s.wrapper.%s.ok_only_after_the_actor_answered" % (variant, field, prop, meth)
            else:
                ans = ""
                ok = "r matches Ok(v) ==> %s && (final(t).sent.last() matches KeyKeeperAction::%s { response } && v == sent_value(response))" % (GREW, variant)
                what = "returns_the_actors_reply_to_its_one_message"
            u.take_fn(kkw, P + meth, ghost=KK_T, pre_body="broadcast use group_fmt_chan_errors;", e9=chan_e9(kkw, P + meth, MSG, "kk"), contract="""
        ensures
            r is Err ==> final(t).gone,  // @%(p)s.wrapper.%(m)s.fails_only_if_actor_gone
            %(ok)s,  // @%(p)s.wrapper.%(m)s.%(w)s%(ans)s
            final(t).sent == old(t).sent || (%(g)s),  // @%(p)s.wrapper.%(m)s.at_most_one_message
""" % dict(p=prop, m=meth, ok=ok, w=what, g=GREW, ans=ans))
        # ---- C09: set_<e>_rules: ONE message, of its OWN variant, carrying rules.map(from_authorization_item); Ok only after the
        #      actor answered that very message. (Unit keykeeper ASSUMES: Ok ==> the actor's <e> rules slot == computed_opt(rules);
        #      with the arm contract `Set<E>Rules stores its argument in <e>_rules` this is what is proved here.)
        for (stem, v) in ENDPOINTS:
            meth = "set_%s_rules" % stem
            it = kkw.item(P + meth, "fn")
            if [p["name"] for p in it["params"] if p["name"] not in ("self", None)] != ["rules"]:
                raise Undecided("%s: parameter list changed" % meth)
            last = "final(t).sent.last() matches KeyKeeperAction::Set%sRules { rules: a, response: resp }" % v
            u.take_fn(kkw, P + meth, ghost=KK_T, pre_body="broadcast use group_fmt_chan_errors;", e9=chan_e9(kkw, P + meth, MSG, "kk"), contract="""
        ensures
            r is Err ==> final(t).gone,  // @C09.%(m)s.fails_only_if_actor_gone
            r is Ok ==> %(g)s,  // @C09.%(m)s.exactly_one_message
            r is Ok ==> final(t).sent.last() is Set%(v)sRules,  // @C09.%(m)s.message_is_of_its_own_variant
            r is Ok ==> (%(last)s && a == computed_opt(rules)),  // @C09.%(m)s.carries_the_computed_form_of_its_argument
            r is Ok ==> (%(last)s && answered(resp)),  // @C09.%(m)s.ok_only_after_the_actor_answered
            final(t).sent == old(t).sent || (%(g)s),  // @C09.%(m)s.at_most_one_message
""" % dict(m=meth, v=v, g=GREW, last=last))
        # ---- C10: the public key accessors: ONE SetKey / ONE GetKey each, one field projected
        u.take_fn(kkw, P + "update_key", ghost=KK_T, ghost_calls=[("set_key", "all", "Tracked(t)")], contract="""
        ensures
            r is Err ==> final(t).gone,
            r is Ok ==> %s && (final(t).sent.last() matches KeyKeeperAction::SetKey { key: a, response: _ } && a == Some(key)),  // @C10+C09.wrapper.update_key.one_SetKey_with_this_key
            final(t).sent == old(t).sent || (%s),
""" % (GREW, GREW))
        u.take_fn(kkw, P + "clear_key", ghost=KK_T, ghost_calls=[("set_key", "all", "Tracked(t)")], contract="""
        ensures
            r is Err ==> final(t).gone,
            r is Ok ==> %s && (final(t).sent.last() matches KeyKeeperAction::SetKey { key: a, response: _ } && a is None),  // @C10+C09.wrapper.clear_key.one_SetKey_none
            final(t).sent == old(t).sent || (%s),
""" % (GREW, GREW))
        for (meth, proj) in (("get_current_key_value", "Some(k.key)"), ("get_current_key_guid", "Some(k.guid)"), ("get_current_key_incarnation", "k.incarnationId")):
            u.take_fn(kkw, P + meth, ghost=KK_T, ghost_calls=[("get_key", "all", "Tracked(t)")], contract="""
        ensures
            r is Err ==> final(t).gone,
            r matches Ok(v) ==> %(g)s && (final(t).sent.last() matches KeyKeeperAction::GetKey { response }
                && v == (match sent_value(response) { Some(k) => %(proj)s, None => None })),  // @C10.wrapper.%(m)s.one_GetKey_and_one_field_of_that_reply
            final(t).sent == old(t).sent || (%(g)s),  // @C10.wrapper.%(m)s.at_most_one_message
""" % dict(g=GREW, proj=proj, m=meth))


# ---- the redirector actor (shared_state/redirector_wrapper.rs): locals `local_port`, `bpf_object` ----
BPF_T = "Option<Arc<Mutex<redirector::BpfObject>>>"
RD_ARMS = {
    # variant -> (pattern (whitespace removed), fn name, params, ret type, pre (E5 glue), tail, contract)
    "SetLocalPort": ("RedirectorAction::SetLocalPort{local_port:new_local_port,response,}", "vx_arm_set_local_port",
                     "local_port_0: u16, new_local_port: u16, response: oneshot::Sender<()>", "u16", "let mut local_port = local_port_0;", "local_port", """
        ensures r == new_local_port,  // @C09+C06.redirector_actor.SetLocalPort.stores_its_argument
                answered(response),  // @C09+C06.redirector_actor.SetLocalPort.answers_the_sender
"""),
    "GetLocalPort": ("RedirectorAction::GetLocalPort{response}", "vx_arm_get_local_port", "local_port: u16, response: oneshot::Sender<u16>", "", "", "", """
        ensures sent_value(response) == local_port,  // @C09+C06.redirector_actor.GetLocalPort.replies_stored_value
                answered(response),  // @C09+C06.redirector_actor.GetLocalPort.answers_the_sender
"""),
    "SetBpfObject": ("RedirectorAction::SetBpfObject{bpf_object:new_bpf_object,response,}", "vx_arm_set_bpf_object",
                     "bpf_object_0: %s, new_bpf_object: %s, response: oneshot::Sender<()>" % (BPF_T, BPF_T), BPF_T, "let mut bpf_object = bpf_object_0;", "bpf_object", """
        ensures r == new_bpf_object,  // @C09+C06.redirector_actor.SetBpfObject.stores_its_argument
                answered(response),  // @C09+C06.redirector_actor.SetBpfObject.answers_the_sender
"""),
    "GetBpfObject": ("RedirectorAction::GetBpfObject{response}", "vx_arm_get_bpf_object", "bpf_object: %s, response: oneshot::Sender<%s>" % (BPF_T, BPF_T), "", "", "", """
        ensures sent_value(response) == bpf_object,  // @C09+C06.redirector_actor.GetBpfObject.replies_stored_value
                answered(response),  // @C09+C06.redirector_actor.GetBpfObject.answers_the_sender
"""),
}
RD_T = "Tracked(t): Tracked<&mut ChanTrace<RedirectorAction>>"
# one-message wrappers: method -> (variant, field carrying the argument | None for getters)
RD_WRAPPERS = [("set_local_port", "SetLocalPort", "local_port"), ("get_local_port", "GetLocalPort", None),
               ("set_bpf_object", "SetBpfObject", "bpf_object"), ("get_bpf_object", "GetBpfObject", None)]


def build_redirector_actor(u, rdw):
    uses = """use crate::common::error::Error;
use crate::common::logger;
use crate::common::result::Result;
use crate::redirector;
use std::sync::{Arc, Mutex};
use tokio::sync::{mpsc, oneshot};"""
    P = "RedirectorSharedState::"
    MSG = "crate::shared_state::redirector_wrapper::RedirectorAction"
    with u.mod("redirector_wrapper", uses=uses):
        u.take_ext(rdw, ["RedirectorAction"], "vx_ext_rd_action", uses="use crate::redirector;\nuse std::sync::{Arc, Mutex};\nuse tokio::sync::{mpsc, oneshot};", opaque=False, transparent=True)
        u.take_ext(rdw, ["RedirectorSharedState"], "vx_ext_rd_state", uses="use crate::vx_ext_rd_action::RedirectorAction;\nuse tokio::sync::mpsc;", opaque=False, transparent=True)
        with u.impl_(rdw, "RedirectorSharedState"):
            for (meth, variant, field) in RD_WRAPPERS:
                it = rdw.item(P + meth, "fn")
                if field is not None:
                    if [p["name"] for p in it["params"] if p["name"] not in ("self", None)] != [field]:
                        raise Undecided("%s: parameter list changed" % meth)
                    ok = "r is Ok ==> %s && (final(t).sent.last() matches RedirectorAction::%s { %s: a, response: resp } && a == %s && answered(resp))" % (GREW, variant, field, field)
                    what = "sends_exactly_its_argument_once_and_waits_for_the_answer"
                else:
                    ok = "r matches Ok(v) ==> %s && (final(t).sent.last() matches RedirectorAction::%s { response } && v == sent_value(response) && answered(response))" % (GREW, variant)
                    what = "returns_the_actors_reply_to_its_one_message"
                u.take_fn(rdw, P + meth, ghost=RD_T, pre_body="broadcast use group_fmt_chan_errors;", e9=chan_e9(rdw, P + meth, MSG, "rd"), contract="""
        ensures
            r is Err ==> final(t).gone,  // @%(L)s.redirector_wrapper.%(m)s.fails_only_if_actor_gone
            %(ok)s,  // @%(L)s.redirector_wrapper.%(m)s.%(w)s
            final(t).sent == old(t).sent || (%(g)s),  // @C09+C06.redirector_wrapper.%(m)s.at_most_one_message
""" % dict(m=meth, ok=ok, w=what, g=GREW, L=("C09+C06+C07" if meth == "get_bpf_object" else "C09+C06")))   # C07: unit conn's stub of get_bpf_object (Ok(Some) iff loaded) rests on these two clauses
            for (meth, val) in (("update_bpf_object", "a == Some(bpf_object)"), ("clear_bpf_object", "a is None")):
                # E4 on every call of a one-message wrapper inside it (whatever it is after an edit: judged by the contract, not by the extraction)
                names = sorted(set(c["callee"] for c in rdw.item(P + meth, "fn")["calls"] if c["kind"] == "method" and c["callee"] in [w[0] for w in RD_WRAPPERS]))
                u.take_fn(rdw, P + meth, ghost=RD_T, ghost_calls=[(n, "all", "Tracked(t)") for n in names], contract="""
        ensures
            r is Err ==> final(t).gone,  // @C09+C06.redirector_wrapper.%(m)s.fails_only_if_actor_gone
            r is Ok ==> %(g)s && (final(t).sent.last() matches RedirectorAction::SetBpfObject { bpf_object: a, response: _ } && %(val)s),  // @C09+C06.redirector_wrapper.%(m)s.one_SetBpfObject_with_that_value
            final(t).sent == old(t).sent || (%(g)s),  // @C09+C06.redirector_wrapper.%(m)s.at_most_one_message
""" % dict(g=GREW, val=val, m=meth))
        FN = "RedirectorSharedState::start_new"
        it = rdw.item(FN, "fn")
        ms = [m for m in it["matches"] if rdw.s(m["scrutinee"][0], m["scrutinee"][1]).strip() == "action"]
        if len(ms) != 1:
            raise Undecided("%s: the dispatch `match action` was found %d times" % (FN, len(ms)))
        seen = set()
        for arm in ms[0]["arms"]:
            pat = re.sub(r"\s+", "", rdw.s(arm["pat"][0], arm["pat"][1]))
            m = re.match(r"RedirectorAction::(\w+)\b", pat)
            if not m or m.group(1) in seen or m.group(1) not in RD_ARMS:
                raise Undecided("%s: unknown or repeated actor arm `%s`" % (FN, pat[:60]))
            v = m.group(1)
            seen.add(v)
            want, name, params, rty, pre, tail, contract = RD_ARMS[v]
            if pat != want and pat != want.replace(",}", "}"):
                raise Undecided("%s: arm %s binds other names than %s" % (FN, v, want))
            lo, hi = arm_block(rdw, arm, FN + " " + v)
            # rustc checks the frame: the slice only compiles if the arm uses no actor local other than the one passed in
            u.slice_fn(rdw, FN, name, lo, hi, params, ret_type=rty, contract=contract,
                       pre_body="broadcast use axiom_to_string_string, axiom_string_ext;\n" + pre + "\n", tail=(tail + "\n") if tail else "",
                       what="(actor arm RedirectorAction::%s)" % v)
        if seen != set(RD_ARMS):
            raise Undecided("%s: actor arms %s missing" % (FN, sorted(set(RD_ARMS) - seen)))
