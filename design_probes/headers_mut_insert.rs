use vstd::prelude::*;
use hyper::header::{HeaderName, HeaderValue};
use hyper::Request;
verus! {
#[verifier::allow(undeclared_external_trait)]
mod m {
use super::*;
#[verifier::external_type_specification] #[verifier::external_body] #[verifier::reject_recursive_types(T)]
pub struct ExRequest<T>(http::Request<T>);
#[verifier::external_type_specification] #[verifier::external_body]
pub struct ExHeaderName(http::header::HeaderName);
#[verifier::external_type_specification] #[verifier::external_body]
pub struct ExHeaderValue(http::header::HeaderValue);
#[verifier::external_type_specification] #[verifier::external_body] #[verifier::reject_recursive_types(T)]
pub struct ExHeaderMap<T>(http::HeaderMap<T>);

pub uninterp spec fn hm_view<T>(m: http::HeaderMap<T>) -> Map<Seq<char>, Seq<T>>;
pub uninterp spec fn req_headers<T>(r: Request<T>) -> http::HeaderMap;
pub uninterp spec fn req_rest<T>(r: Request<T>) -> int;
pub uninterp spec fn key_view<K>(k: K) -> Seq<char>;
pub uninterp spec fn hn_view(k: HeaderName) -> Seq<char>;
#[verifier::external_body]
pub broadcast proof fn axiom_key_view_hn(k: HeaderName) ensures #[trigger] key_view::<HeaderName>(k) == hn_view(k) {}

pub assume_specification<T, K> [http::HeaderMap::<T>::insert] (m: &mut http::HeaderMap<T>, k: K, v: T) -> (r: std::option::Option<T>) where K: http::header::IntoHeaderName,
    ensures hm_view(*final(m)) == hm_view(*old(m)).insert(key_view(k), seq![v]);
pub assume_specification<T> [http::Request::<T>::headers_mut] (r: &mut http::Request<T>) -> (h: &mut http::HeaderMap)
    ensures *h == req_headers(*old(r)), req_headers(*final(r)) == *final(h), req_rest(*final(r)) == req_rest(*old(r));
pub assume_specification [http::HeaderName::from_static] (s: &'static str) -> (r: http::HeaderName)
    ensures hn_view(r) == s@;

fn add(req: &mut Request<u8>, v: HeaderValue)
    ensures hm_view(req_headers(*final(req))) == hm_view(req_headers(*old(req))).insert("x-ms-azure-host-claims"@, seq![v]),
            req_rest(*final(req)) == req_rest(*old(req)),
{
    broadcast use axiom_key_view_hn;
    req.headers_mut().insert(HeaderName::from_static("x-ms-azure-host-claims"), v);
}
}
}
fn main(){}
