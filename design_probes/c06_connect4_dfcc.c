#include <linux/bpf.h>
#include <stddef.h>
#include "/repo/linux-ebpf/ebpf_cgroup.c"

/* ---- abstract state: one cell per map is what a single call can touch; the rest is covered by the frame ---- */
struct cell_pol { _Bool present; destination_entry key, val; } POL;
struct cell_skip { _Bool present; __u32 pid; } SKIP;
struct cell_loc { _Bool present; __u64 key; sock_addr_local_entry val; } LOC;
struct cell_aud { _Bool present; sock_addr_audit_key key; sock_addr_audit_entry val; } AUD;
__u64 CUR_PID_TGID, CUR_UID_GID;

static _Bool dest_eq(const destination_entry *a, const destination_entry *b) {
  return a->destination_ip.ipv6[0]==b->destination_ip.ipv6[0] && a->destination_ip.ipv6[1]==b->destination_ip.ipv6[1] &&
         a->destination_ip.ipv6[2]==b->destination_ip.ipv6[2] && a->destination_ip.ipv6[3]==b->destination_ip.ipv6[3] &&
         a->destination_port==b->destination_port && a->protocol==b->protocol; }

/* ---- helper model (documented semantics) ---- */
void *bpf_map_lookup_elem(void *map, const void *key) {
  if (map == (void*)&policy_map) { const destination_entry *k = key; __CPROVER_assume(k->destination_ip.ipv6[1]==0 && k->destination_ip.ipv6[2]==0 && k->destination_ip.ipv6[3]==0); /* BPF verifier: key bytes initialised; clang zero-fills `= {0}` */ }
  if (map == (void*)&policy_map) return (POL.present && dest_eq(key, &POL.key)) ? (void*)&POL.val : NULL;
  if (map == (void*)&skip_process_map) return (SKIP.present && *(const __u32*)key == SKIP.pid) ? (void*)&SKIP.pid : NULL;
  if (map == (void*)&local_map) return (LOC.present && *(const __u64*)key == LOC.key) ? (void*)&LOC.val : NULL;
  if (map == (void*)&audit_map) return NULL;
  __CPROVER_assert(0, "lookup on unknown map"); return NULL; }
long bpf_map_update_elem(void *map, const void *key, const void *value, __u64 flags) {
  if (map == (void*)&local_map) { LOC.present = 1; LOC.key = *(const __u64*)key; LOC.val = *(const sock_addr_local_entry*)value; return 0; }
  if (map == (void*)&audit_map) { AUD.present = 1; AUD.key = *(const sock_addr_audit_key*)key; AUD.val = *(const sock_addr_audit_entry*)value; return 0; }
  __CPROVER_assert(0, "program writes a map it must not write"); return -1; }
long bpf_map_delete_elem(void *map, const void *key) {
  if (map == (void*)&local_map) { if (LOC.present && LOC.key == *(const __u64*)key) { LOC.present = 0; return 0; } return -2; }
  __CPROVER_assert(0, "program deletes from a map it must not touch"); return -1; }
__u64 bpf_get_current_pid_tgid(void) { return CUR_PID_TGID; }
__u64 bpf_get_current_uid_gid(void) { return CUR_UID_GID; }
__u64 bpf_get_socket_cookie(void *c) { return 0; }
long bpf_probe_read(void *dst, __u32 n, const void *src) { __CPROVER_assert(0, "not used by connect4"); return -1; }

#define UID  ((__u32)(CUR_UID_GID & 0xffffffffu))
#define TGID ((__u32)(CUR_PID_TGID >> 32))
#define HIT(ctx)  (POL.present && POL.key.destination_ip.ipv6[0]==(ctx)->user_ip4 && POL.key.destination_ip.ipv6[1]==0 && POL.key.destination_ip.ipv6[2]==0 && POL.key.destination_ip.ipv6[3]==0 && POL.key.destination_port==(ctx)->user_port && POL.key.protocol==(ctx)->protocol)
#define HIT_OLD(ctx)  (POL.present && POL.key.destination_ip.ipv6[0]==__CPROVER_old((ctx)->user_ip4) && POL.key.destination_ip.ipv6[1]==0 && POL.key.destination_ip.ipv6[2]==0 && POL.key.destination_ip.ipv6[3]==0 && POL.key.destination_port==__CPROVER_old((ctx)->user_port) && POL.key.protocol==(ctx)->protocol)
#define SKIPPED (SKIP.present && SKIP.pid == TGID)

int contract_connect4(struct bpf_sock_addr *ctx)
__CPROVER_requires(__CPROVER_is_fresh(ctx, sizeof(*ctx)))
__CPROVER_requires(!LOC.present)
__CPROVER_assigns(ctx->user_ip4, ctx->user_port, LOC)
__CPROVER_ensures(__CPROVER_return_value == 1)
__CPROVER_ensures((HIT_OLD(ctx) && !SKIPPED) ==>
      (ctx->user_ip4 == POL.val.destination_ip.ipv4 && ctx->user_port == POL.val.destination_port
       && LOC.present && LOC.key == CUR_PID_TGID && LOC.val.process_id == TGID
       && LOC.val.destination_ipv4 == __CPROVER_old(ctx->user_ip4) && LOC.val.destination_port == __CPROVER_old(ctx->user_port)
       && LOC.val.protocol == ctx->protocol))
__CPROVER_ensures((HIT_OLD(ctx) && !SKIPPED) ==> (LOC.val.logon_id == UID && LOC.val.is_root == (UID == 0)))
__CPROVER_ensures(!(HIT_OLD(ctx) && !SKIPPED) ==>
      (ctx->user_ip4 == __CPROVER_old(ctx->user_ip4) && ctx->user_port == __CPROVER_old(ctx->user_port) && !LOC.present))
{ return connect4(ctx); }

void main_h(void) { struct bpf_sock_addr c; contract_connect4(&c); }
