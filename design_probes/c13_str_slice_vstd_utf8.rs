use vstd::prelude::*;
verus! {
pub const MAX_MESSAGE_LENGTH: usize = 1024 * 4;
fn trunc(message: &str) -> String {
    let event_message = if message.len() > MAX_MESSAGE_LENGTH {
        message[..MAX_MESSAGE_LENGTH].to_string()
    } else {
        message.to_string()
    };
    event_message
}
fn trunc_fixed(message: &str) -> String {
    let event_message = if message.len() > MAX_MESSAGE_LENGTH {
        let mut end = MAX_MESSAGE_LENGTH;
        while !message.is_char_boundary(end)
            invariant end <= 4096, message.len() > 4096,
            decreases end
        {
            end -= 1;
        }
        message[..end].to_string()
    } else {
        message.to_string()
    };
    event_message
}
}
fn main(){}
