#include <linux/bpf.h>
#include <stddef.h>
#include "/repo/linux-ebpf/ebpf_cgroup.c"
struct cell_pol { _Bool present; destination_entry key, val; } POL;
struct cell_skip { _Bool present; __u32 pid; } SKIP;
struct cell_loc { _Bool present; __u64 key; sock_addr_local_entry val; } LOC;
struct cell_aud { _Bool present; sock_addr_audit_key key; sock_addr_audit_entry val; } AUD;
__u64 CUR_PID_TGID, CUR_UID_GID;
struct sock_common SKC; _Bool PROBE_OK;   /* the kernel socket the kprobe argument points to */
static _Bool dest_eq(const destination_entry *a, const destination_entry *b) {
  return a->destination_ip.ipv6[0]==b->destination_ip.ipv6[0] && a->destination_ip.ipv6[1]==b->destination_ip.ipv6[1] &&
         a->destination_ip.ipv6[2]==b->destination_ip.ipv6[2] && a->destination_ip.ipv6[3]==b->destination_ip.ipv6[3] &&
         a->destination_port==b->destination_port && a->protocol==b->protocol; }
void *bpf_map_lookup_elem(void *map, const void *key) {
  if (map == (void*)&policy_map) { const destination_entry *k = key; __CPROVER_assume(k->destination_ip.ipv6[1]==0 && k->destination_ip.ipv6[2]==0 && k->destination_ip.ipv6[3]==0);
       return (POL.present && dest_eq(key, &POL.key)) ? (void*)&POL.val : NULL; }
  if (map == (void*)&skip_process_map) return (SKIP.present && *(const __u32*)key == SKIP.pid) ? (void*)&SKIP.pid : NULL;
  if (map == (void*)&local_map) return (LOC.present && *(const __u64*)key == LOC.key) ? (void*)&LOC.val : NULL;
  __CPROVER_assert(0, "lookup on unexpected map"); return NULL; }
long bpf_map_update_elem(void *map, const void *key, const void *value, __u64 flags) {
  if (map == (void*)&audit_map) { AUD.present = 1; AUD.key = *(const sock_addr_audit_key*)key; AUD.val = *(const sock_addr_audit_entry*)value; return 0; }
  __CPROVER_assert(0, "kprobe writes a map it must not write"); return -1; }
long bpf_map_delete_elem(void *map, const void *key) {
  if (map == (void*)&local_map) { if (LOC.present && LOC.key == *(const __u64*)key) { LOC.present = 0; return 0; } return -2; }
  __CPROVER_assert(0, "kprobe deletes from a map it must not touch"); return -1; }
__u64 bpf_get_current_pid_tgid(void) { return CUR_PID_TGID; }
__u64 bpf_get_current_uid_gid(void) { return CUR_UID_GID; }
__u64 bpf_get_socket_cookie(void *c) { return 0; }
long bpf_probe_read(void *dst, __u32 n, const void *src) {
  __CPROVER_assert(n == sizeof(struct sock_common), "probe_read size");
  if (!PROBE_OK) return -14;
  *(struct sock_common*)dst = SKC; return 0; }
#define UID  ((__u32)(CUR_UID_GID & 0xffffffffu))
#define TGID ((__u32)(CUR_PID_TGID >> 32))
#define SKIPPED (SKIP.present && SKIP.pid == TGID)
#define ACTIVE (PROBE_OK && SKC.skc_family == AF_INET && !SKIPPED)
#define HAD_LOCAL (__CPROVER_old(LOC.present) && __CPROVER_old(LOC.key) == CUR_PID_TGID)
#define POLHIT (POL.present && POL.key.destination_ip.ipv6[0]==SKC.skc_daddr && POL.key.destination_ip.ipv6[1]==0 && POL.key.destination_ip.ipv6[2]==0 && POL.key.destination_ip.ipv6[3]==0 && POL.key.destination_port==SKC.skc_dport && POL.key.protocol==IPPROTO_TCP)

int contract_kprobe(struct pt_regs *ctx, struct probe_sock *sk)
__CPROVER_requires(!AUD.present)
__CPROVER_assigns(LOC, AUD)
__CPROVER_ensures(__CPROVER_return_value == 0)
__CPROVER_ensures(!ACTIVE ==> (!AUD.present && LOC.present == __CPROVER_old(LOC.present)))
__CPROVER_ensures((ACTIVE && HAD_LOCAL) ==> (AUD.present && AUD.key.protocol == __CPROVER_old(LOC.val.protocol) && AUD.key.source_port == SKC.skc_num
     && AUD.val.logon_id == __CPROVER_old(LOC.val.logon_id) && AUD.val.process_id == __CPROVER_old(LOC.val.process_id) && AUD.val.is_root == __CPROVER_old(LOC.val.is_root)
     && AUD.val.destination_ipv4 == __CPROVER_old(LOC.val.destination_ipv4) && AUD.val.destination_port == __CPROVER_old(LOC.val.destination_port) && !LOC.present))
__CPROVER_ensures((ACTIVE && !HAD_LOCAL && POLHIT) ==> (AUD.present && AUD.key.protocol == IPPROTO_TCP && AUD.key.source_port == SKC.skc_num
     && AUD.val.process_id == TGID && AUD.val.destination_ipv4 == SKC.skc_daddr && AUD.val.destination_port == SKC.skc_dport))
__CPROVER_ensures((ACTIVE && !HAD_LOCAL && POLHIT) ==> (AUD.val.logon_id == UID && AUD.val.is_root == (UID == 0)))
__CPROVER_ensures((ACTIVE && !HAD_LOCAL && !POLHIT) ==> !AUD.present)
{ return trace_v4(ctx, sk); }
void main_h(void) { struct probe_sock s; contract_kprobe((struct pt_regs*)0, &s); }
