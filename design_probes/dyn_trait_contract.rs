use vstd::prelude::*;
verus! {
#[derive(PartialEq)]
enum AuthorizeResult { Ok, OkWithAudit, Forbidden }
struct Claims { elevated: bool }
trait Authorizer {
    spec fn spec_auth(&self, allowed: bool, audit: bool) -> AuthorizeResult;
    fn authorize(&self, allowed: bool, audit: bool) -> (r: AuthorizeResult)
        ensures r == self.spec_auth(allowed, audit);
    fn to_string(&self) -> String;
}
struct WireServer { claims: Claims }
impl Authorizer for WireServer {
    spec fn spec_auth(&self, allowed: bool, audit: bool) -> AuthorizeResult {
        if !self.claims.elevated { AuthorizeResult::Forbidden } else if allowed { AuthorizeResult::Ok } else if audit { AuthorizeResult::OkWithAudit } else { AuthorizeResult::Forbidden }
    }
    fn authorize(&self, allowed: bool, audit: bool) -> AuthorizeResult {
        if !self.claims.elevated { return AuthorizeResult::Forbidden; }
        if allowed { return AuthorizeResult::Ok; } else { if audit { return AuthorizeResult::OkWithAudit; } return AuthorizeResult::Forbidden; }
    }
    fn to_string(&self) -> String { "WireServer".to_string() }
}
struct ProxyAgent {}
impl Authorizer for ProxyAgent {
    spec fn spec_auth(&self, allowed: bool, audit: bool) -> AuthorizeResult { AuthorizeResult::Forbidden }
    fn authorize(&self, allowed: bool, audit: bool) -> AuthorizeResult { AuthorizeResult::Forbidden }
    fn to_string(&self) -> String { "ProxyAgent".to_string() }
}
fn get_authorizer(port: u16, claims: Claims) -> (r: Box<dyn Authorizer>)
    ensures port != 80 ==> forall|a: bool, b: bool| r.spec_auth(a, b) == AuthorizeResult::Forbidden,
{
    if port == 80 { Box::new(WireServer { claims }) } else { return Box::new(ProxyAgent {}); }
}
fn authorize(port: u16, claims: Claims, allowed: bool, audit: bool) -> (r: AuthorizeResult)
    ensures port != 80 ==> r == AuthorizeResult::Forbidden
{
    let auth = get_authorizer(port, claims);
    auth.authorize(allowed, audit)
}
}
fn main(){}
