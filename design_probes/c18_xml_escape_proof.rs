#![feature(pattern)]
use vstd::prelude::*;
verus! {
/// spec of `str::replace(from: char, to: &str)`: per-character flat map
pub open spec fn repl(s: Seq<char>, from: char, to: Seq<char>) -> Seq<char>
    decreases s.len()
{
    if s.len() == 0 { seq![] } else { repl(s.drop_last(), from, to) + (if s.last() == from { to } else { seq![s.last()] }) }
}
pub uninterp spec fn pat_char<P>(p: P) -> char;
#[verifier::external_body]
pub broadcast proof fn ax_pat_char(c: char) ensures #[trigger] pat_char::<char>(c) == c {}
#[verifier::allow(undeclared_external_trait)]
pub assume_specification<P: core::str::pattern::Pattern> [str::replace::<P>] (s: &str, from: P, to: &str) -> (r: String)
    ensures r@ == repl(s@, pat_char(from), to@);

pub open spec fn occurs(s: Seq<char>, c: char) -> bool { exists|i: int| 0 <= i < s.len() && s[i] == c }

/// replacing c by a string without c removes c
proof fn lemma_repl_removes(s: Seq<char>, from: char, to: Seq<char>)
    requires !occurs(to, from)
    ensures !occurs(repl(s, from, to), from)
    decreases s.len()
{
    if s.len() > 0 {
        lemma_repl_removes(s.drop_last(), from, to);
        let a = repl(s.drop_last(), from, to);
        let b = if s.last() == from { to } else { seq![s.last()] };
        assert forall|i: int| 0 <= i < (a + b).len() implies (a + b)[i] != from by {
            if i < a.len() { assert(a[i] != from) by { if a[i] == from { assert(occurs(a, from)); } } }
            else { let j = i - a.len(); assert((a+b)[i] == b[j]); if b[j] == from { if s.last() == from { assert(occurs(to, from)); } } }
        }
    }
}
/// replacing `from` by a string without `c` keeps `c` absent (c != from)
proof fn lemma_repl_keeps_absent(s: Seq<char>, from: char, to: Seq<char>, c: char)
    requires !occurs(s, c), !occurs(to, c)
    ensures !occurs(repl(s, from, to), c)
    decreases s.len()
{
    if s.len() > 0 {
        assert(!occurs(s.drop_last(), c)) by { if occurs(s.drop_last(), c) { let i = choose|i: int| 0 <= i < s.drop_last().len() && s.drop_last()[i] == c; assert(s[i] == c); assert(occurs(s, c)); } }
        lemma_repl_keeps_absent(s.drop_last(), from, to, c);
        let a = repl(s.drop_last(), from, to);
        let b = if s.last() == from { to } else { seq![s.last()] };
        assert forall|i: int| 0 <= i < (a + b).len() implies (a + b)[i] != c by {
            if i < a.len() { if a[i] == c { assert(occurs(a, c)); } }
            else { let j = i - a.len(); assert((a+b)[i] == b[j]); if b[j] == c { if s.last() == from { assert(occurs(to, c)); } else { assert(s[s.len()-1] == c); assert(occurs(s, c)); } } }
        }
    }
}

// verbatim from /repo/proxy_agent/src/common/helpers.rs
pub fn xml_escape(s: String) -> (r: String)
    ensures !occurs(r@, '<'), !occurs(r@, '>'), !occurs(r@, '"'), !occurs(r@, '\''),
{
    broadcast use ax_pat_char;
    proof {
        reveal_strlit("&amp;"); reveal_strlit("&apos;"); reveal_strlit("&quot;"); reveal_strlit("&lt;"); reveal_strlit("&gt;");
        let amp = "&amp;"@; let apos = "&apos;"@; let quot = "&quot;"@; let lt = "&lt;"@; let gt = "&gt;"@;
        assert(!occurs(apos, '\'') && !occurs(quot, '\'') && !occurs(lt, '\'') && !occurs(gt, '\''));
        assert(!occurs(quot, '"') && !occurs(lt, '"') && !occurs(gt, '"'));
        assert(!occurs(lt, '<') && !occurs(gt, '<'));
        assert(!occurs(gt, '>'));
        let s1 = repl(s@, '&', amp);
        let s2 = repl(s1, '\'', apos);  lemma_repl_removes(s1, '\'', apos);
        let s3 = repl(s2, '"', quot);    lemma_repl_removes(s2, '"', quot);  lemma_repl_keeps_absent(s2, '"', quot, '\'');
        let s4 = repl(s3, '<', lt);      lemma_repl_removes(s3, '<', lt);    lemma_repl_keeps_absent(s3, '<', lt, '\''); lemma_repl_keeps_absent(s3, '<', lt, '"');
        let s5 = repl(s4, '>', gt);      lemma_repl_removes(s4, '>', gt);    lemma_repl_keeps_absent(s4, '>', gt, '\''); lemma_repl_keeps_absent(s4, '>', gt, '"'); lemma_repl_keeps_absent(s4, '>', gt, '<');
    }
    s.replace('&', "&amp;")
        .replace('\'', "&apos;")
        .replace('"', "&quot;")
        .replace('<', "&lt;")
        .replace('>', "&gt;")
}
}
fn main(){}
