#![allow(unused_imports, dead_code)]
use vstd::prelude::*;
use itertools::Itertools;
use std::collections::HashMap;
use hyper::Uri;
verus! {
#[verifier::allow(undeclared_external_trait)]
mod m {
use super::*;
#[verifier::external_type_specification] #[verifier::external_body]
pub struct ExUri(http::Uri);

pub assume_specification [hyper::Uri::path] (_0: &hyper::Uri) -> &str;
pub assume_specification [str::to_lowercase] (_0: &str) -> std::string::String;
#[verifier::external_body] pub fn query_pairs(uri: &Uri) -> Vec<(String, String)> { unimplemented!() }

pub mod vx_dep { use super::*; #[verifier::external_body] pub fn e9_sorted_keys<'a>(pairs: &'a HashMap<String,(String,String)>) -> std::vec::IntoIter<&'a String> { pairs.keys().sorted() } #[verifier::external_body] pub fn clone_pair(p: &(String,String)) -> (r: (String,String)) ensures r == *p { p.clone() } }
fn get_path_and_canonicalized_parameters(url: &Uri) -> (String, String) {
    let path = url.path().to_string();

    let query_pairs = query_pairs(url);
    let mut canonicalized_parameters = String::new();
    let mut pairs: HashMap<String, (String, String)> = HashMap::new();
    if !query_pairs.is_empty() {
        for (key, value) in query_pairs {
            let key = key.to_lowercase();
            pairs.insert(
                // add the query parameter value for sorting,
                // just in case of duplicate keys by value lexicographically in ascending order.
                format!("{}{}", key, value),
                (key.to_lowercase(), value.to_string()),
            );
        }

        // Sort the parameters lexicographically by parameter name and value, in ascending order.
        let mut first = true;
        for key in vx_dep::e9_sorted_keys(&pairs) {
            if !first {
                canonicalized_parameters.push('&');
            }
            first = false;
            let query_pair = vx_dep::clone_pair(&pairs[key]);
            // Join each parameter key value pair with '='
            let p = if query_pair.1.is_empty() {
                key.to_string()
            } else {
                format!("{}={}", query_pair.0, query_pair.1)
            };
            canonicalized_parameters.push_str(&p);
        }
    }

    (path, canonicalized_parameters)
}
}
}
fn main(){}
