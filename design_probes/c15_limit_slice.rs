#![allow(unused_imports, dead_code)]
use vstd::prelude::*;
use hyper::body::Incoming;
use hyper::Request;
use tower_http::limit::RequestBodyLimitLayer;
use tower::layer::util::{Stack, Identity};
verus! {
#[verifier::allow(undeclared_external_trait)]
mod m {
use super::*;
#[verifier::external_type_specification] #[verifier::external_body] #[verifier::reject_recursive_types(T)]
pub struct ExRequest<T>(http::Request<T>);
#[verifier::external_type_specification] #[verifier::external_body]
pub struct ExIncoming(hyper::body::Incoming);
#[verifier::external_type_specification] #[verifier::external_body]
pub struct ExMethod(http::Method);
#[verifier::external_type_specification] #[verifier::external_body]
pub struct ExUri(http::Uri);
#[verifier::external_type_specification] #[verifier::external_body]
pub struct ExLayer(tower_http::limit::RequestBodyLimitLayer);
#[verifier::external_type_specification] #[verifier::external_body]
pub struct ExIdentity(tower::layer::util::Identity);
#[verifier::external_type_specification] #[verifier::external_body] #[verifier::reject_recursive_types(A)] #[verifier::reject_recursive_types(B)]
pub struct ExStack<A,B>(tower::layer::util::Stack<A,B>);
#[verifier::external_type_specification] #[verifier::external_body] #[verifier::reject_recursive_types(L)]
pub struct ExSB<L>(tower::ServiceBuilder<L>);

pub uninterp spec fn layer_limit(l: RequestBodyLimitLayer) -> usize;
pub uninterp spec fn sb_limit<L>(s: tower::ServiceBuilder<L>) -> usize;
pub uninterp spec fn skip_spec(m: http::Method, u: http::Uri) -> bool;
pub uninterp spec fn req_method<T>(r: Request<T>) -> http::Method;
pub uninterp spec fn req_uri<T>(r: Request<T>) -> http::Uri;

pub assume_specification[ RequestBodyLimitLayer::new ](n: usize) -> (r: RequestBodyLimitLayer) ensures layer_limit(r) == n;
pub assume_specification[ tower::ServiceBuilder::<Identity>::new ]() -> (r: tower::ServiceBuilder<Identity>);
pub assume_specification<L, T>[ tower::ServiceBuilder::<L>::layer::<T> ](s: tower::ServiceBuilder<L>, t: T) -> (r: tower::ServiceBuilder<Stack<T, L>>) ensures sb_limit(r) == any_limit(t);
pub assume_specification<L: Clone>[ <tower::ServiceBuilder<L> as Clone>::clone ](s: &tower::ServiceBuilder<L>) -> (r: tower::ServiceBuilder<L>) ensures sb_limit(r) == sb_limit(*s);
pub assume_specification<T>[ http::Request::<T>::method ](r: &Request<T>) -> (m: &http::Method) ensures *m == req_method(*r);
pub assume_specification<T>[ http::Request::<T>::uri ](r: &Request<T>) -> (m: &http::Uri) ensures *m == req_uri(*r);
pub uninterp spec fn any_limit<T>(t: T) -> usize;
#[verifier::external_body]
pub broadcast proof fn ax_any_limit(t: RequestBodyLimitLayer) ensures #[trigger] any_limit::<RequestBodyLimitLayer>(t) == layer_limit(t) {}

pub mod hyper_client { use super::*;
  #[verifier::external_body] pub fn should_skip_sig(method: &hyper::Method, relative_uri: &hyper::Uri) -> (r: bool) ensures r == skip_spec(*method, *relative_uri) { unimplemented!() } }
const REQUEST_BODY_LOW_LIMIT_SIZE: usize = 1024 * 100; // 100KB
const REQUEST_BODY_LARGE_LIMIT_SIZE: usize = 1024 * REQUEST_BODY_LOW_LIMIT_SIZE; // 100MB

fn slice_choose_layer(req: &Request<Incoming>) -> (tower_service_layer: tower::ServiceBuilder<Stack<RequestBodyLimitLayer, Identity>>)
  ensures sb_limit(tower_service_layer) == (if skip_spec(req_method(*req), req_uri(*req)) { 104857600usize } else { 102400usize })
{
    broadcast use ax_any_limit;
                    let low_limit_layer = RequestBodyLimitLayer::new(REQUEST_BODY_LOW_LIMIT_SIZE);
                    let large_limit_layer =
                        RequestBodyLimitLayer::new(REQUEST_BODY_LARGE_LIMIT_SIZE);
                    let low_limited_tower_service =
                        tower::ServiceBuilder::new().layer(low_limit_layer);
                    let large_limited_tower_service =
                        tower::ServiceBuilder::new().layer(large_limit_layer);
                    let tower_service_layer =
                        if hyper_client::should_skip_sig(req.method(), req.uri()) {
                            // skip signature check for large request
                            large_limited_tower_service.clone()
                        } else {
                            // use low limit for normal request
                            low_limited_tower_service.clone()
                        };
    tower_service_layer
}
}
}
fn main(){}
