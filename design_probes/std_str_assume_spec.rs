#![feature(pattern)]
use vstd::prelude::*;
use core::str::pattern::Pattern;
verus! {
pub uninterp spec fn lower(s: Seq<char>) -> Seq<char>;
pub uninterp spec fn pat_view<P>(p: P) -> Seq<char>;
pub open spec fn is_prefix(p: Seq<char>, s: Seq<char>) -> bool { p.len() <= s.len() && s.subrange(0, p.len() as int) == p }

pub assume_specification[ str::to_lowercase ](s: &str) -> (r: String)
    ensures r@ == lower(s@);

pub assume_specification<P: Pattern>[ str::starts_with::<P> ](s: &str, p: P) -> (r: bool)
    ensures r == is_prefix(pat_view(p), s@);

#[verifier::external_body]
pub broadcast proof fn axiom_pat_view_string(p: &String)
    ensures #[trigger] pat_view::<&String>(p) == p@ {}

pub struct Privilege { pub name: String, pub path: String }

fn path_match(p: &Privilege, url_path: &str) -> (r: bool)
    ensures r == is_prefix(p.path@, lower(url_path@))
{
    broadcast use axiom_pat_view_string;
    if url_path.to_lowercase().starts_with(&p.path) { return true; }
    false
}
}
fn main(){}
