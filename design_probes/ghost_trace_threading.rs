use vstd::prelude::*;
verus! {
pub enum Ev { Lookup(u16), Remove(u16) }
pub tracked struct Trace { pub ghost s: Seq<Ev> }
#[verifier::external_body]
async fn lookup_audit(port: u16, Tracked(tr): Tracked<&mut Trace>) -> (r: Result<u32, u8>)
    ensures final(tr).s == old(tr).s.push(Ev::Lookup(port))
{ Ok(1) }
#[verifier::external_body]
async fn remove_audit(port: u16, Tracked(tr): Tracked<&mut Trace>) -> (r: Result<(), u8>)
    ensures final(tr).s == old(tr).s.push(Ev::Remove(port))
{ Ok(()) }

async fn get_audit_entry(port: u16, Tracked(tr): Tracked<&mut Trace>) -> (r: Result<u32, u8>)
    ensures r is Ok ==> final(tr).s == old(tr).s.push(Ev::Lookup(port)).push(Ev::Remove(port)),
            r is Err ==> final(tr).s == old(tr).s.push(Ev::Lookup(port)),
{
    match lookup_audit(port, Tracked(tr)).await {
        Ok(data) => {
            match remove_audit(port, Tracked(tr)).await {
                Ok(_) => {},
                Err(e) => {},
            }
            Ok(data)
        }
        Err(e) => Err(e),
    }
}
}
fn main(){}
