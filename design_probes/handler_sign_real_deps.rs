#![allow(unused_imports, dead_code)]
use vstd::prelude::*;
use http_body_util::Full;
use http_body_util::{combinators::BoxBody, BodyExt};
use hyper::body::{Bytes, Frame, Incoming};
use hyper::header::{HeaderName, HeaderValue};
use hyper::StatusCode;
use hyper::{Request, Response};
use tower_http::body::Limited;

verus! {
#[verifier::allow(undeclared_external_trait)]
mod m {
use super::*;
// ---------- deps.rs (external types, opaque) ----------
#[verifier::external_type_specification] #[verifier::external_body] #[verifier::reject_recursive_types(T)]
pub struct ExRequest<T>(http::Request<T>);
#[verifier::external_type_specification] #[verifier::external_body] #[verifier::reject_recursive_types(T)]
pub struct ExResponse<T>(http::Response<T>);
#[verifier::external_type_specification] #[verifier::external_body]
pub struct ExParts(http::request::Parts);
#[verifier::external_type_specification] #[verifier::external_body] #[verifier::reject_recursive_types(T)]
pub struct ExLimited<T>(tower_http::body::Limited<T>);
#[verifier::external_type_specification] #[verifier::external_body]
pub struct ExIncoming(hyper::body::Incoming);
#[verifier::external_type_specification] #[verifier::external_body]
pub struct ExBytes(hyper::body::Bytes);
#[verifier::external_type_specification] #[verifier::external_body] #[verifier::reject_recursive_types(T)]
pub struct ExFull<T>(http_body_util::Full<T>);
#[verifier::external_type_specification] #[verifier::external_body] #[verifier::reject_recursive_types(D)] #[verifier::reject_recursive_types(E)]
pub struct ExBoxBody<D, E>(http_body_util::combinators::BoxBody<D, E>);
#[verifier::external_type_specification] #[verifier::external_body]
pub struct ExHyperError(hyper::Error);
#[verifier::external_type_specification] #[verifier::external_body]
pub struct ExStatusCode(http::StatusCode);
#[verifier::external_type_specification] #[verifier::external_body]
pub struct ExHeaderName(http::header::HeaderName);
#[verifier::external_type_specification] #[verifier::external_body]
pub struct ExHeaderValue(http::header::HeaderValue);
#[verifier::external_type_specification] #[verifier::external_body]
pub struct ExInvalidHeaderValue(http::header::InvalidHeaderValue);
#[verifier::external_type_specification] #[verifier::external_body]
pub struct ExMethod(http::Method);
#[verifier::external_type_specification] #[verifier::external_body]
pub struct ExUri(http::Uri);
#[verifier::external_type_specification] #[verifier::external_body] #[verifier::reject_recursive_types(T)]
pub struct ExHeaderMap<T>(http::HeaderMap<T>);

// AUTODEPS
pub assume_specification<T> [http::Request::<T>::into_parts] (_0: http::Request<T>) -> (http::request::Parts, T);
pub assume_specification [hyper::body::Bytes::len] (_0: &hyper::body::Bytes) -> usize;
pub assume_specification<T> [http::Request::<T>::from_parts] (_0: http::request::Parts, _1: T) -> http::Request<T>;
pub assume_specification<D> [http_body_util::Full::<D>::new] (_0: D) -> http_body_util::Full<D> where D: hyper::body::Buf,;
pub assume_specification<T, E> [std::result::Result::<T, E>::unwrap_or] (_0: std::result::Result<T, E>, _1: T) -> T where E: std::marker::Destruct, T: std::marker::Destruct,;
pub assume_specification<T, K> [http::HeaderMap::<T>::insert] (_0: &mut http::HeaderMap<T>, _1: K, _2: T) -> std::option::Option<T> where K: http::header::IntoHeaderName,;
pub assume_specification<T> [http::Request::<T>::headers_mut] (_0: &mut http::Request<T>) -> &mut http::HeaderMap;
pub assume_specification [http::HeaderName::from_static] (_0: &'static str) -> http::HeaderName;
pub assume_specification [http::HeaderValue::from_str] (_0: &str) -> std::result::Result<http::HeaderValue, http::header::InvalidHeaderValue>;

use vstd::std_specs::fmt::*;
#[verifier::external_body] pub broadcast proof fn ax_fmt_1() ensures #[trigger] fmt_req_all::<OpaqueErr>() {}
#[verifier::external_body] pub broadcast proof fn ax_fmt_2() ensures #[trigger] fmt_req_all::<Error>() {}
#[verifier::external_body] pub broadcast proof fn ax_fmt_3() ensures #[trigger] fmt_req_all::<hyper::Method>() {}
#[verifier::external_body] pub broadcast proof fn ax_fmt_4() ensures #[trigger] fmt_req_all::<hyper::Uri>() {}
#[verifier::external_body] pub broadcast proof fn ax_fmt_5() ensures #[trigger] fmt_req_all::<http::header::InvalidHeaderValue>() {}
pub broadcast group fmt_axs { ax_fmt_1, ax_fmt_2, ax_fmt_3, ax_fmt_4, ax_fmt_5 }
// ---------- environment of the extracted function (stubs) ----------
pub struct Error { pub msg: String }
pub type Result<T> = core::result::Result<T, Error>;
pub enum LoggerLevel { Trace, Info, Warn, Error }
pub struct ConnectionLogger { pub q: Vec<String> }
impl ConnectionLogger { #[verifier::external_body] pub fn write(&mut self, l: LoggerLevel, m: String) {} }
pub struct HttpConnectionContext { pub id: u128, pub method: hyper::Method, pub url: hyper::Uri, pub logger: ConnectionLogger }
impl HttpConnectionContext {
    pub fn log(&mut self, l: LoggerLevel, m: String) { self.logger.write(l, m) }
    #[verifier::external_body]
    pub async fn send_request(&self, request: hyper::Request<Full<Bytes>>) -> (r: Result<hyper::Response<hyper::body::Incoming>>) { unimplemented!() }
}
pub struct KeyKeeperSharedState {}
impl KeyKeeperSharedState {
    #[verifier::external_body] pub async fn get_current_key_value(&self) -> Result<Option<String>> { unimplemented!() }
    #[verifier::external_body] pub async fn get_current_key_guid(&self) -> Result<Option<String>> { unimplemented!() }
}
pub struct ProxyServer { pub key_keeper_shared_state: KeyKeeperSharedState }
pub mod constants {
    pub const AUTHORIZATION_SCHEME: &'static str = "Azure-HMAC-SHA256";
    pub const AUTHORIZATION_HEADER: &'static str = "x-ms-azure-host-authorization";
}
pub mod hyper_client {
    use super::*;
    #[verifier::external_body] pub fn as_sig_input(head: http::request::Parts, body: Bytes) -> Vec<u8> { unimplemented!() }
}
pub struct OpaqueErr {}
impl core::fmt::Display for OpaqueErr { #[verifier::external_body] fn fmt(&self, f: &mut core::fmt::Formatter<'_>) -> core::fmt::Result { Ok(()) } }
pub uninterp spec fn code(s: StatusCode) -> u16;
pub mod vx_dep {
    use super::*;
    pub mod sc { use super::super::*;
      #[verifier::external_body] pub fn BAD_REQUEST() -> (r: StatusCode) ensures code(r) == 400 { StatusCode::BAD_REQUEST }
      #[verifier::external_body] pub fn BAD_GATEWAY() -> (r: StatusCode) ensures code(r) == 502 { StatusCode::BAD_GATEWAY }
    }
    /// E9 redirection of `body.collect().await` + `.to_bytes()`: same behaviour, error type made opaque
    #[verifier::external_body] pub async fn body_collect_limited(b: Limited<Incoming>) -> core::result::Result<Bytes, OpaqueErr> { unimplemented!() }
}
pub mod helpers {
    use super::*;
    #[verifier::external_body] pub fn compute_signature(k: &str, i: &[u8]) -> Result<String> { unimplemented!() }
}
impl core::fmt::Display for Error { #[verifier::external_body] fn fmt(&self, f: &mut core::fmt::Formatter<'_>) -> core::fmt::Result { Ok(()) } }

impl ProxyServer {
    #[verifier::external_body]
    fn empty_response(status_code: StatusCode) -> Response<BoxBody<Bytes, hyper::Error>> { unimplemented!() }
    #[verifier::external_body]
    async fn forward_response(&self, proxy_response: Result<Response<Incoming>>, http_connection_context: HttpConnectionContext) -> Result<Response<BoxBody<Bytes, hyper::Error>>> { unimplemented!() }

    // ---------- verbatim from /repo/proxy_agent/src/proxy/proxy_server.rs:838-926 ----------
    async fn handle_request_with_signature(
        &self,
        http_connection_context: HttpConnectionContext,
        request: Request<Limited<Incoming>>,
    ) -> Result<Response<BoxBody<Bytes, hyper::Error>>> {
        broadcast use fmt_axs;
        let mut http_connection_context = http_connection_context;
        let (head, body) = request.into_parts();
        let whole_body = match vx_dep::body_collect_limited(body).await {
            Ok(data) => data,
            Err(e) => {
                http_connection_context.log(
                    LoggerLevel::Error,
                    format!("Failed to receive the request body: {}", e),
                );
                return Ok(Self::empty_response(vx_dep::sc::BAD_REQUEST()));
            }
        };

        http_connection_context.log(
            LoggerLevel::Trace,
            format!(
                "Received the client request body (len={}) for {} {}",
                whole_body.len(),
                http_connection_context.method,
                http_connection_context.url,
            ),
        );

        // create a new request to the Host endpoint
        let mut proxy_request: Request<Full<Bytes>> =
            Request::from_parts(head.clone(), Full::new(whole_body.clone()));

        // sign the request
        // Add header x-ms-azure-host-authorization
        if let (Some(key), Some(key_guid)) = (
            self.key_keeper_shared_state
                .get_current_key_value()
                .await
                .unwrap_or(None),
            self.key_keeper_shared_state
                .get_current_key_guid()
                .await
                .unwrap_or(None),
        ) {
            let input_to_sign = hyper_client::as_sig_input(head, whole_body);
            match helpers::compute_signature(&key, input_to_sign.as_slice()) {
                Ok(sig) => {
                    let authorization_value =
                        format!("{} {} {}", constants::AUTHORIZATION_SCHEME, key_guid, sig);
                    proxy_request.headers_mut().insert(
                        HeaderName::from_static(constants::AUTHORIZATION_HEADER),
                        match HeaderValue::from_str(&authorization_value) {
                            Ok(value) => value,
                            Err(e) => {
                                http_connection_context.log(
                                    LoggerLevel::Error,
                                    format!(
                                        "Failed to add authorization header: {} with error: {}",
                                        authorization_value, e
                                    ),
                                );
                                return Ok(Self::empty_response(vx_dep::sc::BAD_GATEWAY()));
                            }
                        },
                    );

                    http_connection_context.log(
                        LoggerLevel::Trace,
                        format!("Added authorization header {}", authorization_value),
                    )
                }
                Err(e) => {
                    http_connection_context.log(
                        LoggerLevel::Error,
                        format!("compute_signature failed with error: {}", e),
                    );
                }
            }
        } else {
            http_connection_context.log(
                LoggerLevel::Trace,
                "current key is empty, skip computing the signature.".to_string(),
            );
        }

        // start new request to the Host endpoint
        let proxy_response = http_connection_context.send_request(proxy_request).await;
        self.forward_response(proxy_response, http_connection_context)
            .await
    }
}
}
}
fn main(){}
