use vstd::prelude::*;
verus! {
#[verifier::external_body]
pub broadcast proof fn axiom_str_ext(a: &str, b: &str)
    ensures (#[trigger] a@ == #[trigger] b@) ==> a == b
{}
pub const A: &'static str = "alpha";
pub const B: &'static str = "beta";
proof fn lits() ensures A@ != B@ { reveal_strlit("alpha"); reveal_strlit("beta"); assert(A@.len() != B@.len()); }
fn f(s: &String) -> (r: u8)
  ensures s@ == A@ ==> r == 1, s@ == B@ ==> r == 2, (s@ != A@ && s@ != B@) ==> r == 0,
{
    broadcast use axiom_str_ext;
    proof { lits(); }
    match s.as_str() {
        A => 1,
        B => 2,
        _ => 0,
    }
}
}
fn main() {}
