#![feature(allocator_api)]
use vstd::prelude::*;
use std::collections::{hash_map, HashMap};
use vstd::std_specs::hash::*;
verus! {
#[verifier::allow(undeclared_external_trait)]
mod m {
use super::*;
broadcast use vstd::std_specs::hash::group_hash_axioms;
pub struct Summ { pub count: u64 }

pub assume_specification<'a, K, V, S, A, Q> [std::collections::HashMap::<K, V, S, A>::get_mut] (_0: &'a mut std::collections::HashMap<K, V, S, A>, _1: &Q) -> std::option::Option<&'a mut V>
           where
           A: std::alloc::Allocator,
           K: std::cmp::Eq + std::hash::Hash + std::borrow::Borrow<Q>,
           Q: std::hash::Hash + std::cmp::Eq + ?Sized,
           S: std::hash::BuildHasher,;

fn add(failed: &mut HashMap<String, Summ>, key: String, summary: Summ)
    requires obeys_key_model::<String>(),
{
    if let hash_map::Entry::Vacant(e) = failed.entry(key.clone()) {
        e.insert(summary);
    } else if let Some(connection_summary) = failed.get_mut(&key) {
        if connection_summary.count < 100 { connection_summary.count += 1; }
    }
}
}
}
fn main(){}
