use vstd::prelude::*;
use std::path::PathBuf;
verus! {
#[verifier::external_type_specification] #[verifier::external_body]
pub struct ExPathBuf(std::path::PathBuf);
pub struct IoErr {}
pub type Result<T> = core::result::Result<T, IoErr>;

/// abstract directory: the set of log files still present
pub tracked struct Dir { pub ghost files: Set<PathBuf> }

/// E9/E4 redirection of `fs::remove_file(log)`
#[verifier::external_body]
fn vx_remove_file(log: PathBuf, Tracked(d): Tracked<&mut Dir>) -> (r: Result<()>)
    ensures r is Ok ==> final(d).files == old(d).files.remove(log), r is Err ==> final(d).files == old(d).files,
{ unimplemented!() }

pub struct RollingLogger { pub max_log_file_count: u16 }
impl RollingLogger {
    #[verifier::external_body]
    fn get_log_files(&self, Tracked(d): Tracked<&Dir>) -> (r: Result<Vec<PathBuf>>)
        ensures r is Ok ==> r->Ok_0@.to_set() == d.files && r->Ok_0@.no_duplicates(),
    { unimplemented!() }

    // statements of archive_file after the rename (E5 slice), verbatim
    fn archive_tail(&self, Tracked(d): Tracked<&mut Dir>) -> (r: Result<()>)
        requires self.max_log_file_count >= 1, old(d).files.finite(),
        ensures r is Ok ==> final(d).files.len() <= self.max_log_file_count - 1 || final(d).files.len() == old(d).files.len() && old(d).files.len() < self.max_log_file_count,
                final(d).files.subset_of(old(d).files),
    {
        let log_files = self.get_log_files(Tracked(d))?;
        // delete oldest files
        let max_count: usize = self.max_log_file_count.into();
        let file_count = log_files.len();
        if file_count >= max_count {
            let mut count = max_count;
            for log in log_files {
                vx_remove_file(log, Tracked(d))?;
                count += 1;

                if count > file_count {
                    break;
                }
            }
        }

        Ok(())
    }
}
}
fn main(){}
