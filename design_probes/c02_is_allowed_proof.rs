use vstd::prelude::*;
use std::collections::{HashMap, HashSet};
use vstd::std_specs::hash::*;
verus! {
broadcast use vstd::std_specs::hash::group_hash_axioms;

pub struct Privilege { pub name: String, pub path: String }
pub struct Identity { pub name: String, pub user: Option<String> }
pub struct Claims { pub user: String }
pub struct Url { pub path: String }
pub struct Logger {}
impl Logger { #[verifier::external_body] pub fn write(&mut self, m: String) {} }
#[derive(PartialEq, Eq, Structural)]
pub enum AuthorizationMode { Disabled, Audit, Enforce }

pub uninterp spec fn pmatch(p: Privilege, u: Url) -> bool;
pub uninterp spec fn imatch(i: Identity, c: Claims) -> bool;

impl Privilege { #[verifier::external_body] pub fn is_match(&self, logger: &mut Logger, u: &Url) -> (r: bool) ensures r == pmatch(*self, *u) { unimplemented!() } }
impl Identity { #[verifier::external_body] pub fn is_match(&self, logger: &mut Logger, c: &Claims) -> (r: bool) ensures r == imatch(*self, *c) { unimplemented!() } }

pub struct ComputedAuthorizationItem {
    pub defaultAllowed: bool,
    pub mode: AuthorizationMode,
    pub privileges: HashMap<String, Privilege>,
    pub privilegeAssignments: HashMap<String, HashSet<String>>,
    pub identities: HashMap<String, Identity>,
}

impl ComputedAuthorizationItem {
    pub open spec fn wf(&self) -> bool {
        forall|k: String| #[trigger] self.privileges@.contains_key(k) ==> self.privileges@[k].name == k
    }
    pub open spec fn grants(&self, pn: String, idn: String, u: Url, c: Claims) -> bool {
        self.privileges@.contains_key(pn) && pmatch(self.privileges@[pn], u)
        && self.privilegeAssignments@.contains_key(pn) && self.privilegeAssignments@[pn]@.contains(idn)
        && self.identities@.contains_key(idn) && imatch(self.identities@[idn], c)
    }
    pub open spec fn decision(&self, u: Url, c: Claims) -> bool {
        if self.mode == AuthorizationMode::Disabled { true }
        else if exists|pn: String, idn: String| self.grants(pn, idn, u, c) { true }
        else if exists|pn: String| self.privileges@.contains_key(pn) && pmatch(#[trigger] self.privileges@[pn], u) { false }
        else { self.defaultAllowed }
    }

    #[verifier::loop_isolation(false)]
    pub fn is_allowed(&self, logger: &mut Logger, request_url: Url, claims: Claims) -> (r: bool)
        requires obeys_key_model::<String>(), self.wf(),
        ensures r == self.decision(request_url, claims),
    {
        if self.mode == AuthorizationMode::Disabled {
            logger.write("skip".to_string());
            return true;
        }

        let mut any_privilege_matched = false;
        let ghost mut done: Set<String> = Set::empty();
        for privilege in it: self.privileges.values()
            invariant
                it.seq().unref().to_set() == self.privileges@.values(),
                forall|pn: String, idn: String| done.contains(pn) ==> !(#[trigger] self.grants(pn, idn, request_url, claims)),
                any_privilege_matched == exists|pn: String| done.contains(pn) && self.privileges@.contains_key(pn) && pmatch(#[trigger] self.privileges@[pn], request_url),
                forall|v: Privilege| #[trigger] it.seq().unref().contains(v) ==> done.contains(v.name)
                    || exists|i: int| it.index@ <= i < it.seq().len() && it.seq().unref()[i] == v,
        {
            let privilege_name = &privilege.name;
            proof {
                let i0 = it.index@;
                assert(it.seq().unref()[i0] == *privilege);
                assert(it.seq().unref().to_set().contains(*privilege));
                assert(self.privileges@.values().contains(*privilege));
                let k = choose|k: String| self.privileges@.contains_key(k) && self.privileges@[k] == *privilege;
                assert(k == privilege.name);
            }
            if privilege.is_match(logger, &request_url) {
                any_privilege_matched = true;
                if let Some(assignments) = self.privilegeAssignments.get(privilege_name) {
                    let ghost mut tried: Set<String> = Set::empty();
                    for assignment in it2: assignments.iter()
                        invariant
                            it2.seq().unref().to_set() == assignments@,
                            forall|idn: String| tried.contains(idn) ==> !(#[trigger] self.grants(privilege.name, idn, request_url, claims)),
                            forall|idn: String| #[trigger] it2.seq().unref().contains(idn) ==> tried.contains(idn)
                                || exists|j: int| it2.index@ <= j < it2.seq().len() && it2.seq().unref()[j] == idn,
                            self.privileges@.contains_key(privilege.name) && self.privileges@[privilege.name] == *privilege,
                            self.privilegeAssignments@.contains_key(privilege.name) && self.privilegeAssignments@[privilege.name] == *assignments,
                    {
                        let identity_name = assignment.clone();
                        proof { tried = tried.insert(*assignment); }
                        if let Some(identity) = self.identities.get(&identity_name) {
                            if identity.is_match(logger, &claims) {
                                proof {
                                    let j0 = it2.index@;
                                    assert(it2.seq().unref()[j0] == *assignment);
                                    assert(it2.seq().unref().to_set().contains(*assignment));
                                    assert(self.grants(privilege.name, identity_name, request_url, claims));
                                }
                                return true;
                            }
                        }
                    }
                    proof {
                        assert forall|idn: String| !self.grants(privilege.name, idn, request_url, claims) by {
                            if self.grants(privilege.name, idn, request_url, claims) {
                                assert(assignments@.contains(idn));
                                assert(tried.contains(idn));
                            }
                        }
                    }
                }
            }
            proof {
                done = done.insert(privilege.name);
            }
        }

        proof {
            assert forall|pn: String| self.privileges@.contains_key(pn) implies done.contains(pn) by {
                let v = self.privileges@[pn];
                assert(self.privileges@.values().contains(v));
            }
        }
        if any_privilege_matched {
            return false;
        }
        self.defaultAllowed
    }
}
}
fn main(){}
