#pragma once
