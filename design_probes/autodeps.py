import re,subprocess,sys
src=sys.argv[1]
ext=open('externs.txt').read().split()
decls=[]
for it in range(12):
    s=open(src).read()
    out=subprocess.run(['verus',src,*ext,'-L','dependency=target/debug/deps','--multiple-errors','50'],capture_output=True,text=True).stderr
    new=re.findall(r'The following declaration may resolve this error:\n((?:\s+.*\n)+?)(?=error|warning|\s*\n|$)',out)
    new=[re.sub(r'\s+',' ',d).strip() for d in new]
    new=[d for d in dict.fromkeys(new) if d not in decls]
    if not new:
        print(out[:6000]); break
    decls+=new
    blk='\n'.join(d for d in new)
    s=s.replace('// ---------- environment','// AUTODEPS\n'+blk+'\n// ---------- environment',1)
    open(src,'w').write(s)
    print('iter',it,'added',len(new))
print('\n'.join(decls))
