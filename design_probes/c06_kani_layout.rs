#[path = "/repo/proxy_agent/src/redirector/linux/ebpf_obj.rs"]
mod ebpf_obj;
use ebpf_obj::*;

#[cfg(kani)]
#[kani::proof]
fn policy_key_layout() {
    let ip: u32 = kani::any(); let port: u16 = kani::any();
    let a = destination_entry::from_ipv4(ip, port).to_array();
    assert!(a[0] == ip && a[1] == 0 && a[2] == 0 && a[3] == 0);
    assert!(a[4] == (port.to_be() as u32));
    assert!(a[5] == 6);
    let bytes = (a[4]).to_ne_bytes();
    assert!(u16::from_be_bytes([bytes[0], bytes[1]]) == port && bytes[2]==0 && bytes[3]==0);
}
