#![feature(const_destruct)]
use vstd::prelude::*;
verus! {
#[verifier::allow(undeclared_external_trait)]
pub assume_specification<T, E> [core::result::Result::<T, E>::unwrap_or] (r: core::result::Result<T, E>, d: T) -> (o: T) where E: core::marker::Destruct, T: core::marker::Destruct,
   ensures o == (match r { Ok(t) => t, Err(_) => d });
pub struct Err0 {}
pub type Result<T> = core::result::Result<T, Err0>;
impl core::fmt::Display for Err0 { #[verifier::external_body] fn fmt(&self, f: &mut core::fmt::Formatter<'_>) -> core::fmt::Result { Ok(()) } }
impl core::fmt::Debug for Err0 { #[verifier::external_body] fn fmt(&self, f: &mut core::fmt::Formatter<'_>) -> core::fmt::Result { Ok(()) } }
pub struct Key { pub guid: String, pub key: String }
impl Clone for Key { #[verifier::external_body] fn clone(&self) -> (r: Self) ensures r == *self { unimplemented!() } }
pub struct KeyStatus { pub keyGuid: Option<String> }
impl KeyStatus { #[verifier::external_body] pub fn get_secure_channel_state(&self) -> String { unimplemented!() } }
pub struct KK {}
impl KK {
    #[verifier::external_body] pub async fn get_current_key_guid(&self) -> Result<Option<String>> { unimplemented!() }
    #[verifier::external_body] pub async fn update_key(&self, k: Key) -> Result<()> { unimplemented!() }
    #[verifier::external_body] pub async fn update_current_secure_channel_state(&self, s: String) -> Result<bool> { unimplemented!() }
    #[verifier::external_body] pub async fn clear_key(&self) -> Result<()> { unimplemented!() }
}
pub const DISABLE_STATE: &'static str = "disabled";
pub mod logger { #[verifier::external_body] pub fn write_warning(m: String) {} }
pub mod key { use super::*;
  #[verifier::external_body] pub async fn acquire_key(b: &u8) -> Result<Key> { unimplemented!() }
  #[verifier::external_body] pub async fn attest_key(b: &u8, k: &Key) -> Result<()> { unimplemented!() } }
pub struct KeyKeeper { pub key_keeper_shared_state: KK, pub base_url: u8 }
use vstd::std_specs::fmt::*;
#[verifier::external_body] pub broadcast proof fn ax_fmt_1() ensures #[trigger] fmt_req_all::<Err0>() {}

impl KeyKeeper {
    #[verifier::external_body] fn fetch_key(g: &str) -> Result<Key> { unimplemented!() }
    #[verifier::external_body] fn store_key(k: &Key) -> Result<()> { unimplemented!() }
    #[verifier::external_body] fn check_key(k: &Key) -> Result<()> { unimplemented!() }

    // E5(a) slice: tail of loop_poll's loop body, `continue` -> `return`
    async fn poll_tail(&self, status: KeyStatus) {
        broadcast use ax_fmt_1;
            let state = status.get_secure_channel_state();
            // check if need fetch the key
            if state != DISABLE_STATE
                && (status.keyGuid.is_none()  // key has not latched yet
                || status.keyGuid != self.key_keeper_shared_state.get_current_key_guid().await.unwrap_or(None))
            // key changed
            {
                let mut key_found = false;
                if let Some(guid) = &status.keyGuid {
                    // key latched before and search the key locally first
                    match Self::fetch_key(guid) {
                        Ok(key) => {
                            if let Err(e) =
                                self.key_keeper_shared_state.update_key(key.clone()).await
                            {
                                logger::write_warning(format!("Failed to update key: {}", e));
                            }
                            key_found = true;
                        }
                        Err(e) => {
                        }
                    };
                }
                if !key_found {
                    let key = match key::acquire_key(&self.base_url).await {
                        Ok(k) => k,
                        Err(e) => {
                            return;
                        }
                    };
                    let guid = key.guid.to_string();
                    match Self::store_key(&key) {
                        Ok(()) => {
                        }
                        Err(e) => {
                            return;
                        }
                    }
                    if let Err(e) = Self::check_key(&key) {
                        return;
                    } else {
                        match key::attest_key(&self.base_url, &key).await {
                            Ok(()) => {
                                if let Err(e) =
                                    self.key_keeper_shared_state.update_key(key.clone()).await
                                {
                                    logger::write_warning(format!("Failed to update key: {}", e));
                                }
                            }
                            Err(e) => {
                                logger::write_warning(format!("Failed to attest the key: {:?}", e));
                                return;
                            }
                        }
                    }
                }
            }
            match self
                .key_keeper_shared_state
                .update_current_secure_channel_state(state.to_string())
                .await
            {
                Ok(updated) => {
                    if updated {
                        if state == DISABLE_STATE {
                            if let Err(e) = self.key_keeper_shared_state.clear_key().await {
                                logger::write_warning(format!("Failed to clear key: {}", e));
                            }
                        }
                    }
                }
                Err(e) => {
                    logger::write_warning(format!("Failed to update secure channel state: {}", e));
                }
            }
    }
}
}
fn main(){}
