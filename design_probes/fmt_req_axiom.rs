use vstd::prelude::*;
use vstd::std_specs::fmt::*;
verus! {
pub struct E {}
impl core::fmt::Display for E { #[verifier::external_body] fn fmt(&self, f: &mut core::fmt::Formatter<'_>) -> core::fmt::Result { Ok(()) } }
#[verifier::external_body]
pub broadcast proof fn axiom_fmt_E() ensures #[trigger] fmt_req_all::<E>() {}
fn g(e: E, n: u64) -> String { broadcast use axiom_fmt_E; format!("x {} {}", e, 5u8) }
}
fn main(){}
