use vstd::prelude::*;
use vstd::std_specs::iter::*;
verus! {
/// E11: transparent iterator newtype around `core::str::Split<'a, char>`; `next` delegates.
#[verifier::external_body]
pub struct VxSplit<'a>(core::str::Split<'a, char>);

pub uninterp spec fn split_char(s: Seq<char>, c: char) -> Seq<Seq<char>>;
pub uninterp spec fn vx_remaining<'a>(it: &VxSplit<'a>) -> Seq<&'a str>;
pub uninterp spec fn vx_none<'a>(it: &VxSplit<'a>) -> bool;

impl<'a> Iterator for VxSplit<'a> {
    type Item = &'a str;
    #[verifier::external_body]
    fn next(&mut self) -> (r: Option<&'a str>) { self.0.next() }
}
impl<'a> IteratorSpecImpl for VxSplit<'a> {
    open spec fn obeys_prophetic_iter_laws(&self) -> bool { true }
    open spec fn remaining(&self) -> Seq<&'a str> { vx_remaining(self) }
    open spec fn will_return_none(&self) -> bool { true }
    open spec fn decrease(&self) -> Option<nat> { Some(vx_remaining(self).len()) }
    open spec fn peek(&self, index: int) -> Option<&'a str> { if 0 <= index < vx_remaining(self).len() { Some(vx_remaining(self)[index]) } else { None } }
}
/// generated E9 stub: body is the removed expression wrapped in the newtype
#[verifier::external_body]
fn vx_e9_split<'a>(query: &'a str) -> (r: VxSplit<'a>)
    ensures IteratorSpec::remaining(&r).len() == split_char(query@, '&').len(),
            forall|i: int| 0 <= i < IteratorSpec::remaining(&r).len() ==> (#[trigger] IteratorSpec::remaining(&r)[i])@ == split_char(query@, '&')[i],
{ VxSplit(query.split('&')) }

pub fn pieces(query: &str) -> (r: Vec<String>)
    ensures r@.len() == split_char(query@, '&').len(), forall|i: int| 0 <= i < r@.len() ==> (#[trigger] r@[i])@ == split_char(query@, '&')[i],
{
    let mut out: Vec<String> = Vec::new();
    for pair in it: vx_e9_split(query)
        invariant
            it.seq().len() == split_char(query@, '&').len(),
            forall|i: int| 0 <= i < it.seq().len() ==> (#[trigger] it.seq()[i])@ == split_char(query@, '&')[i],
            out@.len() == it.index@,
            forall|i: int| 0 <= i < out@.len() ==> (#[trigger] out@[i])@ == split_char(query@, '&')[i],
    {
        out.push(pair.to_string());
    }
    out
}
}
fn main(){}
