// vx: source indexer for the /verif extraction machinery.
//
// Usage: vx FILE...   -> one JSON object on stdout: { "<file>": { "items": [...] }, ... }
//
// vx does not rewrite anything. It parses each file with syn and reports *byte
// ranges* into the original text (items, signatures, bodies, loops, blocks,
// statements, match arms, closures, calls, macro invocations). All splicing is
// done by tools/vxlib.py on the original bytes, so the text that reaches the
// verifier is the text of /repo.
use proc_macro2::Span;
use serde_json::{json, Value};
use syn::spanned::Spanned;
use syn::visit::Visit;

struct Src {
    line_starts: Vec<usize>,
    text: String,
}

impl Src {
    fn new(text: String) -> Self {
        let mut line_starts = vec![0usize];
        for (i, b) in text.bytes().enumerate() {
            if b == b'\n' {
                line_starts.push(i + 1);
            }
        }
        Src { line_starts, text }
    }
    fn off(&self, line: usize, col: usize) -> usize {
        // line is 1-based, col is 0-based in chars
        let ls = self.line_starts[line - 1];
        let rest = &self.text[ls..];
        let mut n = 0usize;
        let mut bytes = 0usize;
        for ch in rest.chars() {
            if n == col {
                break;
            }
            n += 1;
            bytes += ch.len_utf8();
        }
        ls + bytes
    }
    fn sp(&self, s: Span) -> Value {
        let a = s.start();
        let b = s.end();
        json!([self.off(a.line, a.column), self.off(b.line, b.column)])
    }
    fn sp2(&self, s: Span) -> (usize, usize) {
        let a = s.start();
        let b = s.end();
        (self.off(a.line, a.column), self.off(b.line, b.column))
    }
}

fn attrs_json(src: &Src, attrs: &[syn::Attribute]) -> Value {
    let v: Vec<Value> = attrs
        .iter()
        .map(|a| {
            let name = a
                .path()
                .segments
                .iter()
                .map(|s| s.ident.to_string())
                .collect::<Vec<_>>()
                .join("::");
            let (s, e) = src.sp2(a.span());
            json!({"span":[s,e], "name": name, "text": &src.text[s..e]})
        })
        .collect();
    Value::Array(v)
}

fn vis_json(src: &Src, vis: &syn::Visibility) -> Value {
    match vis {
        syn::Visibility::Inherited => Value::Null,
        v => src.sp(v.span()),
    }
}

struct FnVisitor<'a> {
    src: &'a Src,
    loops: Vec<Value>,
    blocks: Vec<Value>,
    matches: Vec<Value>,
    closures: Vec<Value>,
    calls: Vec<Value>,
    macros: Vec<Value>,
    awaits: Vec<Value>,
    lets: Vec<Value>,
}

impl<'a> FnVisitor<'a> {
    fn new(src: &'a Src) -> Self {
        FnVisitor {
            src,
            loops: vec![],
            blocks: vec![],
            matches: vec![],
            closures: vec![],
            calls: vec![],
            macros: vec![],
            awaits: vec![],
            lets: vec![],
        }
    }
}

impl<'a, 'ast> Visit<'ast> for FnVisitor<'a> {
    fn visit_expr_for_loop(&mut self, n: &'ast syn::ExprForLoop) {
        self.loops.push(json!({"kind":"for","span":self.src.sp(n.span()),"body":self.src.sp(n.body.span()),
            "pat": self.src.sp(n.pat.span()), "expr": self.src.sp(n.expr.span()),
            "for_token": self.src.sp(n.for_token.span())}));
        syn::visit::visit_expr_for_loop(self, n);
    }
    fn visit_expr_while(&mut self, n: &'ast syn::ExprWhile) {
        self.loops.push(json!({"kind":"while","span":self.src.sp(n.span()),"body":self.src.sp(n.body.span()),
            "cond": self.src.sp(n.cond.span())}));
        syn::visit::visit_expr_while(self, n);
    }
    fn visit_expr_loop(&mut self, n: &'ast syn::ExprLoop) {
        self.loops.push(json!({"kind":"loop","span":self.src.sp(n.span()),"body":self.src.sp(n.body.span())}));
        syn::visit::visit_expr_loop(self, n);
    }
    fn visit_block(&mut self, n: &'ast syn::Block) {
        let stmts: Vec<Value> = n.stmts.iter().map(|s| self.src.sp(s.span())).collect();
        self.blocks.push(json!({"span": self.src.sp(n.span()), "stmts": stmts}));
        syn::visit::visit_block(self, n);
    }
    fn visit_local(&mut self, n: &'ast syn::Local) {
        self.lets.push(json!({"span": self.src.sp(n.span()), "pat": self.src.sp(n.pat.span()),
            "init": n.init.as_ref().map(|i| self.src.sp(i.expr.span()))}));
        syn::visit::visit_local(self, n);
    }
    fn visit_expr_match(&mut self, n: &'ast syn::ExprMatch) {
        let arms: Vec<Value> = n
            .arms
            .iter()
            .map(|a| {
                json!({"span": self.src.sp(a.span()), "pat": self.src.sp(a.pat.span()),
                   "guard": a.guard.as_ref().map(|g| self.src.sp(g.1.span())),
                   "body": self.src.sp(a.body.span())})
            })
            .collect();
        self.matches.push(json!({"span": self.src.sp(n.span()), "scrutinee": self.src.sp(n.expr.span()), "arms": arms}));
        syn::visit::visit_expr_match(self, n);
    }
    fn visit_expr_closure(&mut self, n: &'ast syn::ExprClosure) {
        self.closures.push(json!({"span": self.src.sp(n.span()), "body": self.src.sp(n.body.span())}));
        syn::visit::visit_expr_closure(self, n);
    }
    fn visit_expr_call(&mut self, n: &'ast syn::ExprCall) {
        let (s, e) = self.src.sp2(n.func.span());
        let args: Vec<Value> = n.args.iter().map(|a| self.src.sp(a.span())).collect();
        self.calls.push(json!({"kind":"path","span": self.src.sp(n.span()), "callee": &self.src.text[s..e], "callee_span":[s,e], "args": args}));
        syn::visit::visit_expr_call(self, n);
    }
    fn visit_expr_method_call(&mut self, n: &'ast syn::ExprMethodCall) {
        let args: Vec<Value> = n.args.iter().map(|a| self.src.sp(a.span())).collect();
        self.calls.push(json!({"kind":"method","span": self.src.sp(n.span()), "callee": n.method.to_string(),
            "callee_span": self.src.sp(n.method.span()), "receiver": self.src.sp(n.receiver.span()), "args": args}));
        syn::visit::visit_expr_method_call(self, n);
    }
    fn visit_expr_await(&mut self, n: &'ast syn::ExprAwait) {
        self.awaits.push(json!({"span": self.src.sp(n.span()), "base": self.src.sp(n.base.span())}));
        syn::visit::visit_expr_await(self, n);
    }
    fn visit_macro(&mut self, n: &'ast syn::Macro) {
        let name = n
            .path
            .segments
            .iter()
            .map(|s| s.ident.to_string())
            .collect::<Vec<_>>()
            .join("::");
        self.macros.push(json!({"span": self.src.sp(n.span()), "name": name}));
        syn::visit::visit_macro(self, n);
    }
}

fn fn_json(
    src: &Src,
    kind: &str,
    path: &str,
    attrs: &[syn::Attribute],
    vis: &syn::Visibility,
    sig: &syn::Signature,
    block: Option<&syn::Block>,
    whole: Span,
) -> Value {
    let mut v = FnVisitor::new(src);
    if let Some(b) = block {
        v.visit_block(b);
    }
    let params: Vec<Value> = sig
        .inputs
        .iter()
        .map(|a| match a {
            syn::FnArg::Receiver(r) => json!({"span": src.sp(r.span()), "name":"self", "mut": false}),
            syn::FnArg::Typed(t) => {
                let (name, mutspan) = match &*t.pat {
                    syn::Pat::Ident(pi) => (
                        pi.ident.to_string(),
                        pi.mutability.map(|m| src.sp(m.span())),
                    ),
                    _ => ("_".to_string(), None),
                };
                json!({"span": src.sp(t.span()), "name": name, "mut": mutspan.is_some(), "mut_span": mutspan,
                   "ty": src.sp(t.ty.span())})
            }
        })
        .collect();
    let (sig_s, sig_e) = src.sp2(sig.span());
    json!({
        "kind": kind, "name": sig.ident.to_string(), "path": path,
        "span": src.sp(whole), "attrs": attrs_json(src, attrs), "vis": vis_json(src, vis),
        "sig": [sig_s, sig_e], "body": block.map(|b| src.sp(b.span())),
        "is_async": sig.asyncness.is_some(),
        "fn_token": src.sp(sig.fn_token.span()),
        "output": match &sig.output { syn::ReturnType::Default => Value::Null, syn::ReturnType::Type(_, t) => src.sp(t.span()) },
        "params": params,
        "loops": v.loops, "blocks": v.blocks, "matches": v.matches, "closures": v.closures,
        "calls": v.calls, "macros": v.macros, "awaits": v.awaits, "lets": v.lets,
    })
}

fn flatten_use(t: &syn::UseTree, prefix: &mut Vec<String>, out: &mut Vec<Value>) {
    match t {
        syn::UseTree::Path(p) => {
            prefix.push(p.ident.to_string());
            flatten_use(&p.tree, prefix, out);
            prefix.pop();
        }
        syn::UseTree::Name(n) => {
            let mut v = prefix.clone();
            v.push(n.ident.to_string());
            out.push(json!({"path": v, "alias": Value::Null, "glob": false}));
        }
        syn::UseTree::Rename(r) => {
            let mut v = prefix.clone();
            v.push(r.ident.to_string());
            out.push(json!({"path": v, "alias": r.rename.to_string(), "glob": false}));
        }
        syn::UseTree::Glob(_) => {
            out.push(json!({"path": prefix.clone(), "alias": Value::Null, "glob": true}));
        }
        syn::UseTree::Group(g) => {
            for i in &g.items {
                flatten_use(i, prefix, out);
            }
        }
    }
}

fn type_name(src: &Src, t: &syn::Type) -> String {
    let (s, e) = src.sp2(t.span());
    src.text[s..e].split_whitespace().collect::<Vec<_>>().join("")
}

fn items_json(src: &Src, prefix: &str, items: &[syn::Item]) -> Vec<Value> {
    let mut out = vec![];
    for it in items {
        let p = |n: &str| {
            if prefix.is_empty() {
                n.to_string()
            } else {
                format!("{}::{}", prefix, n)
            }
        };
        match it {
            syn::Item::Fn(f) => out.push(fn_json(
                src,
                "fn",
                &p(&f.sig.ident.to_string()),
                &f.attrs,
                &f.vis,
                &f.sig,
                Some(&f.block),
                f.span(),
            )),
            syn::Item::Struct(s) => {
                let fields: Vec<Value> = s
                    .fields
                    .iter()
                    .map(|f| {
                        json!({"name": f.ident.as_ref().map(|i| i.to_string()), "span": src.sp(f.span()),
                        "vis": vis_json(src, &f.vis), "attrs": attrs_json(src, &f.attrs), "ty": src.sp(f.ty.span())})
                    })
                    .collect();
                out.push(json!({"kind":"struct","name": s.ident.to_string(), "path": p(&s.ident.to_string()),
                    "span": src.sp(s.span()), "attrs": attrs_json(src, &s.attrs), "vis": vis_json(src, &s.vis), "fields": fields}));
            }
            syn::Item::Enum(e) => {
                let variants: Vec<Value> = e
                    .variants
                    .iter()
                    .map(|v| {
                        let fields: Vec<Value> = v.fields.iter().map(|f| json!({"name": f.ident.as_ref().map(|i| i.to_string()), "span": src.sp(f.span()), "attrs": attrs_json(src, &f.attrs)})).collect();
                        json!({"name": v.ident.to_string(), "span": src.sp(v.span()), "attrs": attrs_json(src, &v.attrs), "fields": fields})
                    })
                    .collect();
                out.push(json!({"kind":"enum","name": e.ident.to_string(), "path": p(&e.ident.to_string()),
                    "span": src.sp(e.span()), "attrs": attrs_json(src, &e.attrs), "vis": vis_json(src, &e.vis), "variants": variants}));
            }
            syn::Item::Const(c) => out.push(json!({"kind":"const","name": c.ident.to_string(), "path": p(&c.ident.to_string()),
                    "span": src.sp(c.span()), "attrs": attrs_json(src, &c.attrs), "vis": vis_json(src, &c.vis),
                    "ty": src.sp(c.ty.span()), "expr": src.sp(c.expr.span())})),
            syn::Item::Static(c) => out.push(json!({"kind":"static","name": c.ident.to_string(), "path": p(&c.ident.to_string()),
                    "span": src.sp(c.span()), "attrs": attrs_json(src, &c.attrs), "vis": vis_json(src, &c.vis)})),
            syn::Item::Type(c) => out.push(json!({"kind":"type","name": c.ident.to_string(), "path": p(&c.ident.to_string()),
                    "span": src.sp(c.span()), "attrs": attrs_json(src, &c.attrs), "vis": vis_json(src, &c.vis)})),
            syn::Item::Use(u) => {
                let mut flat = vec![];
                flatten_use(&u.tree, &mut vec![], &mut flat);
                out.push(json!({"kind":"use","name":"", "path": p("use"), "leading_colon": u.leading_colon.is_some(),
                    "span": src.sp(u.span()), "attrs": attrs_json(src, &u.attrs), "vis": vis_json(src, &u.vis), "uses": flat}))
            }
            syn::Item::Macro(m) => {
                let mut v = FnVisitor::new(src);
                v.visit_macro(&m.mac);
                out.push(json!({"kind":"macro","name": m.ident.as_ref().map(|i| i.to_string()), "path": p("macro"),
                    "span": src.sp(m.span()), "attrs": attrs_json(src, &m.attrs), "macros": v.macros}))
            }
            syn::Item::Mod(m) => {
                let name = m.ident.to_string();
                let sub = match &m.content {
                    Some((_, items)) => items_json(src, &p(&name), items),
                    None => vec![],
                };
                out.push(json!({"kind":"mod","name": name, "path": p(&name), "inline": m.content.is_some(),
                    "span": src.sp(m.span()), "attrs": attrs_json(src, &m.attrs), "vis": vis_json(src, &m.vis), "items": sub}));
            }
            syn::Item::Trait(t) => {
                let name = t.ident.to_string();
                let mut sub = vec![];
                for ti in &t.items {
                    if let syn::TraitItem::Fn(f) = ti {
                        sub.push(fn_json(
                            src,
                            "trait_fn",
                            &format!("{}::{}", p(&name), f.sig.ident),
                            &f.attrs,
                            &syn::Visibility::Inherited,
                            &f.sig,
                            f.default.as_ref(),
                            f.span(),
                        ));
                    }
                }
                let brace = src.sp(t.brace_token.span.join());
                out.push(json!({"kind":"trait","name": name, "path": p(&name), "brace": brace,
                    "span": src.sp(t.span()), "attrs": attrs_json(src, &t.attrs), "vis": vis_json(src, &t.vis), "items": sub}));
            }
            syn::Item::Impl(i) => {
                let self_ty = type_name(src, &i.self_ty);
                let name = match &i.trait_ {
                    Some((_, path, _)) => {
                        let (s, e) = src.sp2(path.span());
                        format!("<{} as {}>", self_ty, src.text[s..e].split_whitespace().collect::<Vec<_>>().join(""))
                    }
                    None => self_ty.clone(),
                };
                let mut sub = vec![];
                for ii in &i.items {
                    match ii {
                        syn::ImplItem::Fn(f) => sub.push(fn_json(
                            src,
                            "impl_fn",
                            &format!("{}::{}", p(&name), f.sig.ident),
                            &f.attrs,
                            &f.vis,
                            &f.sig,
                            Some(&f.block),
                            f.span(),
                        )),
                        syn::ImplItem::Const(c) => sub.push(json!({"kind":"impl_const","name": c.ident.to_string(),
                            "path": format!("{}::{}", p(&name), c.ident), "span": src.sp(c.span()),
                            "attrs": attrs_json(src, &c.attrs), "vis": vis_json(src, &c.vis),
                            "ty": src.sp(c.ty.span()), "expr": src.sp(c.expr.span())})),
                        syn::ImplItem::Type(c) => sub.push(json!({"kind":"impl_type","name": c.ident.to_string(),
                            "path": format!("{}::{}", p(&name), c.ident), "span": src.sp(c.span()),
                            "attrs": attrs_json(src, &c.attrs), "vis": vis_json(src, &c.vis)})),
                        _ => {}
                    }
                }
                let brace = src.sp(i.brace_token.span.join());
                out.push(json!({"kind":"impl","name": name, "path": p(&name), "self_ty": self_ty,
                    "is_trait_impl": i.trait_.is_some(), "brace": brace,
                    "span": src.sp(i.span()), "attrs": attrs_json(src, &i.attrs), "items": sub}));
            }
            _ => {}
        }
    }
    out
}

fn main() {
    let mut all = serde_json::Map::new();
    let mut rc = 0;
    for f in std::env::args().skip(1) {
        let text = match std::fs::read_to_string(&f) {
            Ok(t) => t,
            Err(e) => {
                all.insert(f.clone(), json!({"error": format!("read: {}", e)}));
                rc = 3;
                continue;
            }
        };
        match syn::parse_file(&text) {
            Ok(file) => {
                let src = Src::new(text);
                let items = items_json(&src, "", &file.items);
                all.insert(f.clone(), json!({"items": items, "len": src.text.len()}));
            }
            Err(e) => {
                all.insert(f.clone(), json!({"error": format!("parse: {} at {:?}", e, e.span().start())}));
                rc = 3;
            }
        }
    }
    println!("{}", serde_json::to_string(&Value::Object(all)).unwrap());
    std::process::exit(rc);
}
