// stubs.rs -- what the real files pulled into the harness crate import but that is NOT under verification.
// Copied verbatim into the generated crate by kani/ebpf_rs/engine.py.
//
//  * `aya_stub`: a RECORDING stand-in for the three aya map calls the extracted `BpfObject` methods make
//    (`HashMap::try_from`, `insert`, `remove`, `get`) with aya's signatures.  It stores the key/value words it is
//    given; the harness clauses are about those recorded arguments ("clause on the argument", DESIGN C06/C07).
//    Every outcome aya can report (map missing, wrong map type, syscall error) is an explicit harness input.
//  * `common::{error, logger, result}`, `event_logger`: types/log sinks with the shapes the extracted text uses.

pub mod aya_stub {
    use core::borrow::Borrow;
    use core::cell::Cell;
    use core::marker::PhantomData;

    pub const OP_NONE: u8 = 0;
    pub const OP_INSERT: u8 = 1;
    pub const OP_REMOVE: u8 = 2;
    pub const OP_GET: u8 = 3;

    #[derive(Debug)]
    pub struct MapError;
    impl MapError {
        // aya's MapError is Display; the extracted code only calls `.to_string()` on it for log/error text (not modelled)
        pub fn to_string(&self) -> String { String::new() }
    }
    impl core::fmt::Display for MapError {
        fn fmt(&self, f: &mut core::fmt::Formatter<'_>) -> core::fmt::Result { f.write_str("map error") }
    }

    /// ghost record of the calls made on one map
    pub struct MapData {
        pub calls: Cell<u8>,
        pub op: Cell<u8>,
        pub key: Cell<[u32; 6]>,
        pub key_words: Cell<u8>,
        pub val: Cell<[u32; 6]>,
        pub val_words: Cell<u8>,
        pub flags: Cell<u64>,
        pub op_ok: bool,          // outcome of the syscall (harness input)
        pub stored: [u32; 6],     // what `get` returns (harness input)
    }
    pub struct Map {
        pub type_ok: bool, // whether HashMap::try_from accepts the map (harness input)
        pub data: MapData,
    }
    impl Map {
        pub fn new(type_ok: bool, op_ok: bool, stored: [u32; 6]) -> Self {
            Map {
                type_ok,
                data: MapData {
                    calls: Cell::new(0), op: Cell::new(OP_NONE), key: Cell::new([0; 6]), key_words: Cell::new(0),
                    val: Cell::new([0; 6]), val_words: Cell::new(0), flags: Cell::new(0), op_ok, stored,
                },
            }
        }
    }

    pub struct Ebpf {
        pub policy_map: Option<Map>,
        pub audit_map: Option<Map>,
        pub skip_process_map: Option<Map>,
        pub unknown_name_lookups: Cell<u8>,
    }
    impl Ebpf {
        pub fn map_mut(&mut self, name: &str) -> Option<&mut Map> {
            if name == "policy_map" { self.policy_map.as_mut() }
            else if name == "audit_map" { self.audit_map.as_mut() }
            else if name == "skip_process_map" { self.skip_process_map.as_mut() }
            else { self.unknown_name_lookups.set(self.unknown_name_lookups.get().saturating_add(1)); None }
        }
        pub fn map(&self, name: &str) -> Option<&Map> {
            if name == "policy_map" { self.policy_map.as_ref() }
            else if name == "audit_map" { self.audit_map.as_ref() }
            else if name == "skip_process_map" { self.skip_process_map.as_ref() }
            else { self.unknown_name_lookups.set(self.unknown_name_lookups.get().saturating_add(1)); None }
        }
    }

    pub trait Words: Sized {
        const N: u8;
        fn put(&self) -> [u32; 6];
        fn take(w: [u32; 6]) -> Self;
    }
    macro_rules! words { ($n:literal; $($i:literal),*) => {
        impl Words for [u32; $n] {
            const N: u8 = $n;
            fn put(&self) -> [u32; 6] { let mut o = [0u32; 6]; $(o[$i] = self[$i];)* o }
            fn take(w: [u32; 6]) -> Self { let mut o = [0u32; $n]; $(o[$i] = w[$i];)* o }
        } } }
    words!(1; 0); words!(2; 0, 1); words!(5; 0, 1, 2, 3, 4); words!(6; 0, 1, 2, 3, 4, 5);

    pub struct HashMap<T, K, V> { inner: T, _p: PhantomData<(K, V)> }

    impl<'a, K, V> TryFrom<&'a mut Map> for HashMap<&'a mut MapData, K, V> {
        type Error = MapError;
        fn try_from(m: &'a mut Map) -> Result<Self, MapError> {
            if m.type_ok { Ok(HashMap { inner: &mut m.data, _p: PhantomData }) } else { Err(MapError) }
        }
    }
    impl<'a, K, V> TryFrom<&'a Map> for HashMap<&'a MapData, K, V> {
        type Error = MapError;
        fn try_from(m: &'a Map) -> Result<Self, MapError> {
            if m.type_ok { Ok(HashMap { inner: &m.data, _p: PhantomData }) } else { Err(MapError) }
        }
    }
    fn record(d: &MapData, op: u8, key: [u32; 6], kw: u8, val: [u32; 6], vw: u8, flags: u64) {
        d.calls.set(d.calls.get().saturating_add(1));
        d.op.set(op); d.key.set(key); d.key_words.set(kw); d.val.set(val); d.val_words.set(vw); d.flags.set(flags);
    }
    impl<'a, K: Words, V: Words> HashMap<&'a mut MapData, K, V> {
        pub fn insert(&mut self, key: impl Borrow<K>, value: impl Borrow<V>, flags: u64) -> Result<(), MapError> {
            record(self.inner, OP_INSERT, key.borrow().put(), K::N, value.borrow().put(), V::N, flags);
            if self.inner.op_ok { Ok(()) } else { Err(MapError) }
        }
        pub fn remove(&mut self, key: &K) -> Result<(), MapError> {
            record(self.inner, OP_REMOVE, key.put(), K::N, [0; 6], 0, 0);
            if self.inner.op_ok { Ok(()) } else { Err(MapError) }
        }
    }
    impl<'a, K: Words, V: Words> HashMap<&'a MapData, K, V> {
        pub fn get(&self, key: &K, flags: u64) -> Result<V, MapError> {
            record(self.inner, OP_GET, key.put(), K::N, [0; 6], V::N, flags);
            if self.inner.op_ok { Ok(V::take(self.inner.stored)) } else { Err(MapError) }
        }
    }
}

pub mod common_stub {
    pub mod error {
        #[derive(Debug)]
        pub enum BpfErrorType {
            GetBpfMap(String, String),
            LoadBpfMapHashMap(String, String),
            UpdateBpfMapHashMap(String, String, String),
            MapLookupElem(String, String),
            MapDeleteElem(String, String),
        }
        #[derive(Debug)]
        pub enum Error {
            Bpf(BpfErrorType),
        }
        // the real error types are Display (thiserror); the text is log/error text only (not modelled)
        impl core::fmt::Display for BpfErrorType {
            fn fmt(&self, f: &mut core::fmt::Formatter<'_>) -> core::fmt::Result { f.write_str("bpf error") }
        }
        impl core::fmt::Display for Error {
            fn fmt(&self, f: &mut core::fmt::Formatter<'_>) -> core::fmt::Result { f.write_str("error") }
        }
    }
    pub mod logger {
        pub const AGENT_LOGGER_KEY: &str = "Agent_Log";
        pub fn write(_message: String) {}
        pub fn write_warning(_message: String) {}
    }
    pub mod result {
        pub type Result<T> = core::result::Result<T, super::error::Error>;
    }
}

pub mod event_logger {
    pub fn write_event(_level: super::LoggerLevel, _message: String, _method: &str, _module: &str, _logger_key: &str) {}
}
#[allow(dead_code)]
pub enum LoggerLevel { Trace, Debug, Info, Warn, Error }
