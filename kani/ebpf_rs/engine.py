#!/usr/bin/env python3
"""Unit `ebpf_rs` (property C06, user-space half): Kani 0.68 full-domain, loop-free harnesses over the REAL Rust files.

  run(tier, seed, pid) -> result dictionary of /verif/tools/engines.py
  python3 engine.py --replay <check> v1 v2 ...   re-runs a witness with plain rustc on the same real files; exit != 0 = clause violated
  python3 engine.py [quick|thorough]             prints the result dictionary

Generated on every run into /verif/build/kani_ebpf_rs/<run>/crate (Cargo project) from crate.rs.tmpl + stubs.rs:
  * `#[path]` pulls in  $VERIF_REPO/proxy_agent/src/redirector/linux/ebpf_obj.rs  and  common/constants.rs  whole and untouched;
  * redirector.rs and redirector/linux.rs cannot be compiled as a whole without the agent's dependency tree (tokio, aya, hyper,
    serde ...), so the items needed are copied byte-for-byte by span at run time with the indexer build/vx/release/vx:
      redirector.rs:        struct AuditEntry (its `#[derive(Serialize, Deserialize)]` attribute dropped), impl AuditEntry, fn ip_to_string, fn string_to_ip
      redirector/linux.rs:  impl BpfObject { update_skip_process_map, update_policy_elem_bpf_map, lookup_audit, update_redirect_policy, remove_audit_map_entry }
    and compiled against kani/ebpf_rs/stubs.rs (recording aya stub; log sinks; error enum shape);
  * layout constants / layout assertions from c/ebpf/layout.json (the table the CBMC layout harness checks against the C structs).

Every clause is `assert!(cond, "C06.rs.<what>: text")`; Kani's check description carries the label.  Checks without such a
description (overflow, bounds, unwrap ... inside the real code or the harness) are labelled C06.rs.<harness>.safety.
"""
import concurrent.futures
import hashlib
import json
import os
import re
import shlex
import shutil
import subprocess
import sys
import time

# source files taken in as a whole (tools/check.py uncovered_fingerprint)
COVERED_FILES = ["proxy_agent/src/redirector/linux/ebpf_obj.rs"]


HERE = os.path.dirname(os.path.abspath(__file__))
VERIF = os.path.dirname(os.path.dirname(HERE))
UNIT = "ebpf_rs"
VX = os.path.join(VERIF, "build", "vx", "release", "vx")
LAYOUT = os.path.join(VERIF, "c", "ebpf", "layout.json")
R_OBJ = "proxy_agent/src/redirector/linux/ebpf_obj.rs"
R_CONST = "proxy_agent/src/common/constants.rs"
R_RED = "proxy_agent/src/redirector.rs"
R_LIN = "proxy_agent/src/redirector/linux.rs"

# harness -> ordered inputs (every one a kani::any() of a primitive; same order in the replay command line)
HARNESS = [
    ("policy_key_image", [("ip", "u32"), ("port", "u16")]),
    ("audit_key_image", [("port", "u16")]),
    ("audit_entry_field_order", [("w0", "u32"), ("w1", "u32"), ("w2", "u32"), ("w3", "u32"), ("w4", "u32")]),
    ("skip_entry_image", [("pid", "u32")]),
    ("rust_layout", []),
    ("audit_decode", [("o0", "u8"), ("o1", "u8"), ("o2", "u8"), ("o3", "u8"), ("port", "u16")]),
    ("lookup_audit", [("source_port", "u16"), ("map_present", "bool"), ("type_ok", "bool"), ("op_ok", "bool"), ("uid", "u32"), ("tgid", "u32"), ("is_root", "u32"),
                      ("o0", "u8"), ("o1", "u8"), ("o2", "u8"), ("o3", "u8"), ("dport", "u16")]),
    ("update_redirect_policy", [("dest_ipv4", "u32"), ("dest_port", "u16"), ("local_port", "u16"), ("redirect", "bool"), ("map_present", "bool"), ("type_ok", "bool"), ("op_ok", "bool")]),
    ("update_policy_elem", [("local_port", "u16"), ("dest_ipv4", "u32"), ("dest_port", "u16"), ("map_present", "bool"), ("type_ok", "bool"), ("op_ok", "bool")]),
    ("update_skip_process_map", [("pid", "u32"), ("map_present", "bool"), ("type_ok", "bool"), ("op_ok", "bool")]),
    ("remove_audit_map_entry", [("source_port", "u16"), ("map_present", "bool"), ("type_ok", "bool"), ("op_ok", "bool")]),
    ("constants_wire_server", []), ("constants_ga_plugin", []), ("constants_imds", []), ("constants_proxy_agent", []),
]
# Kani proof harnesses: (proof name, check, fixed inputs).  The three aya-outcome booleans are enumerated exhaustively by FOUR
# proofs per check -- (absent,*,*), (present,mistyped,*), (present,typed,syscall fails), (present,typed,ok) -- instead of three
# kani::any() booleans: same full domain, but the four run as parallel processes (symbolic execution of the String-building error
# paths dominates the cost, not SAT).
OUTCOMES = [("absent", {"map_present": 0}), ("mistyped", {"map_present": 1, "type_ok": 0}),
            ("syscall_err", {"map_present": 1, "type_ok": 1, "op_ok": 0}), ("ok", {"map_present": 1, "type_ok": 1, "op_ok": 1})]
PROOFS = []
for _n, _ins in HARNESS:
    if any(a == "map_present" for a, _ in _ins):
        for _suf, _fix in OUTCOMES:
            PROOFS.append(("%s__%s" % (_n, _suf), _n, _fix))
    else:
        PROOFS.append((_n, _n, {}))


def make_groups():
    light = [p for p, n, f in PROOFS if not f and not n.startswith("constants_")]
    cheap = [p for p, n, f in PROOFS if f and f.get("type_ok") != 1]
    heavy = [[p] for p, n, f in PROOFS if f.get("type_ok") == 1]
    consts = [p for p, n, f in PROOFS if n.startswith("constants_")]
    return [light, cheap] + heavy + [consts[:2], consts[2:]]


# real functions exercised by each harness: (file, item path) -- file:line looked up at run time
REAL = {
    "policy_key_image": [(R_OBJ, "_destination_entry::from_ipv4"), (R_OBJ, "_destination_entry::to_array"), (R_OBJ, "_ip_address::from_ipv4")],
    "audit_key_image": [(R_OBJ, "sock_addr_audit_key::from_source_port"), (R_OBJ, "sock_addr_audit_key::to_array"), (R_OBJ, "sock_addr_audit_key::from_array")],
    "audit_entry_field_order": [(R_OBJ, "sock_addr_audit_entry::from_array"), (R_OBJ, "sock_addr_audit_entry::to_array")],
    "skip_entry_image": [(R_OBJ, "sock_addr_skip_process_entry::from_pid"), (R_OBJ, "sock_addr_skip_process_entry::to_array")],
    "audit_decode": [(R_RED, "AuditEntry::destination_port_in_host_byte_order"), (R_RED, "AuditEntry::destination_ipv4_addr")],
    "lookup_audit": [(R_LIN, "BpfObject::lookup_audit")],
    "update_redirect_policy": [(R_LIN, "BpfObject::update_redirect_policy"), (R_RED, "string_to_ip")],
    "update_policy_elem": [(R_LIN, "BpfObject::update_policy_elem_bpf_map")],
    "update_skip_process_map": [(R_LIN, "BpfObject::update_skip_process_map")],
    "remove_audit_map_entry": [(R_LIN, "BpfObject::remove_audit_map_entry")],
    "constants_wire_server": [(R_RED, "string_to_ip")],
}
LIN_FNS = ["update_skip_process_map", "update_policy_elem_bpf_map", "lookup_audit", "update_redirect_policy", "remove_audit_map_entry"]
TRUSTED = [
    "aya (HashMap::try_from/insert/remove/get pass the [u32;N] Pod bytes to the bpf syscall unchanged; map names resolve to the maps of the loaded object), "
    "replaced by the recording stub kani/ebpf_rs/stubs.rs; every aya outcome (map missing, wrong type, syscall error) is a harness input",
    "little-endian host (compile_error! on big-endian); the kernel-side byte images in `mod kernel` of crate.rs.tmpl are written from linux-ebpf/ebpf_cgroup.c "
    "with the offsets of c/ebpf/layout.json, which unit ebpf_c proves against the C structs",
    "items of redirector.rs / redirector/linux.rs are compiled outside their crate: copied byte-for-byte by span (vx), only "
    "`#[derive(Serialize, Deserialize)]` on AuditEntry dropped; logger/event_logger/Error are shape-only stubs",
    "callers pass the constants: update_*_redirect_policy in redirector/linux.rs hand (X_IP_NETWORK_BYTE_ORDER, X_PORT) to update_redirect_policy -- "
    "async code over shared state, not under contract here; only the constants and the callee are",
    "not covered: the in-kernel verifier/JIT, aya's loader and attachment, no LRU eviction below 200 in flight, kernel hook ordering (see unit ebpf_c)",
    "Kani 0.68 / CBMC 6.x / rustc; for replays plain rustc",
]


def repo():
    return os.path.abspath(os.environ.get("VERIF_REPO", "/repo"))


def workdir():
    tag = hashlib.sha1(repo().encode()).hexdigest()[:8]
    d = os.path.join(VERIF, "build", "kani_ebpf_rs", "run_" + tag)
    os.makedirs(d, exist_ok=True)
    return d


class Undecided(Exception):
    pass


# ------------------------------------------------------------------ extraction
def vx_index(path):
    try:
        p = subprocess.run([VX, path], stdout=subprocess.PIPE, stderr=subprocess.PIPE, timeout=60)
    except (OSError, subprocess.TimeoutExpired) as e:
        raise Undecided("indexer %s could not run on %s: %s (run /verif/setup.sh)" % (VX, path, e))
    if p.returncode != 0:
        raise Undecided("indexer failed on %s: %s" % (path, p.stderr.decode("utf8", "replace")[-300:]))
    d = json.loads(p.stdout)
    return list(d.values())[0]["items"]


def line_of(src, off):
    return src.count(b"\n", 0, off) + 1


def find_item(items, kind, name):
    r = [i for i in items if i["kind"] == kind and i.get("name") == name]
    if len(r) != 1:
        raise Undecided("anchor lost: %d items `%s %s`" % (len(r), kind, name))
    return r[0]


def extract(rp):
    """-> (redirector text, linux impl text, {item path: (rel, line)})"""
    lines = {}
    p_red, p_lin, p_obj = [os.path.join(rp, r) for r in (R_RED, R_LIN, R_OBJ)]
    for p in (p_red, p_lin, p_obj, os.path.join(rp, R_CONST)):
        if not os.path.isfile(p):
            raise Undecided("anchor missing: %s does not exist" % p)
    src = open(p_red, "rb").read()
    items = vx_index(p_red)
    out = []
    st = find_item(items, "struct", "AuditEntry")
    a, b = st["span"]
    text = src[a:b]
    drop = [x for x in st.get("attrs", []) if x["name"] == "derive"]
    for x in sorted(drop, key=lambda x: -x["span"][0]):
        text = text[:x["span"][0] - a] + text[x["span"][1] - a:]
    out.append(text.decode("utf8"))
    im = find_item(items, "impl", "AuditEntry")
    out.append(src[im["span"][0]:im["span"][1]].decode("utf8"))
    for f in im["items"]:
        lines["AuditEntry::" + f["name"]] = (R_RED, line_of(src, f["fn_token"][0] if isinstance(f.get("fn_token"), list) else f["span"][0]))
    for fn in ("ip_to_string", "string_to_ip"):
        it = find_item(items, "fn", fn)
        out.append(src[it["span"][0]:it["span"][1]].decode("utf8"))
        lines[fn] = (R_RED, line_of(src, it["span"][0]))
    red = "\n".join(out)
    src = open(p_lin, "rb").read()
    items = vx_index(p_lin)
    im = find_item(items, "impl", "BpfObject")
    lo = []
    for fn in LIN_FNS:
        f = [x for x in im["items"] if x["kind"] == "impl_fn" and x["name"] == fn]
        if len(f) != 1:
            raise Undecided("anchor lost: impl BpfObject has %d fn %s in %s" % (len(f), fn, R_LIN))
        lo.append("            " + src[f[0]["span"][0]:f[0]["span"][1]].decode("utf8"))
        lines["BpfObject::" + fn] = (R_LIN, line_of(src, f[0]["span"][0]))
    # ebpf_obj.rs: lines only (the file is pulled in whole)
    src = open(p_obj, "rb").read()
    for it in vx_index(p_obj):
        if it["kind"] == "impl":
            for f in it.get("items", []):
                lines["%s::%s" % (it["name"], f["name"])] = (R_OBJ, line_of(src, f["span"][0]))
    return red, "\n\n".join(lo), lines


# ------------------------------------------------------------------ generation
def cname(s):
    return re.sub(r"\W", "_", s).upper()


def gen_layout(layout):
    consts, checks = [], []
    for s in layout["structs"]:
        S = cname(s["name"])
        consts.append("    pub const %s_SIZE: usize = %d;" % (S, s["size"]))
        consts.append("    pub const %s_WORDS: usize = %d;" % (S, s["array_len"]))
        for f in s["fields"]:
            consts.append("    pub const %s__%s__OFFSET: usize = %d;" % (S, cname(f["name"]), f["offset"]))
            consts.append("    pub const %s__%s__SLOT: usize = %d;" % (S, cname(f["name"]), f["slot"]))
        if s.get("rust_type"):
            t = s["rust_type"]
            lab = "C06.rs.layout.%s" % s["name"]
            checks.append('        clause!(core::mem::size_of::<%s>() == kernel::%s_SIZE, "%s: size_of::<%s>() equals the C struct size in layout.json");' % (t, S, lab, t))
            for f in s["fields"]:
                if f.get("rust_field"):
                    checks.append('        clause!(core::mem::offset_of!(%s, %s) == kernel::%s__%s__OFFSET, "%s: offset_of!(%s) equals the C offset in layout.json");'
                                  % (t, f["rust_field"], S, cname(f["name"]), lab, f["rust_field"]))
    return "\n".join(consts), "\n".join(checks)


def gen_harnesses():
    out = ["#[cfg(kani)]", "mod proofs {", "    use super::checks;"]
    ins_of = dict(HARNESS)
    for pname, name, fixed in PROOFS:
        ins = ins_of[name]
        out.append("    #[kani::proof]")
        out.append("    fn h_%s() {" % pname)
        for a, t in ins:
            if a in fixed:
                out.append("        let %s: %s = %s;" % (a, t, "true" if fixed[a] else "false"))
            else:
                out.append("        let %s: %s = kani::any();" % (a, t))
        out.append("        checks::%s(%s);" % (name, ", ".join(a for a, _ in ins)))
        out.append('        kani::cover!(true, "vacuity: end of h_%s is reachable");' % pname)
        out.append("    }")
    out.append("}")
    out.append("")
    out.append("#[cfg(not(kani))]")
    out.append("pub fn replay_dispatch(name: &str, v: &[u64]) -> bool {")
    out.append("    match name {")
    for name, ins in HARNESS:
        args = ", ".join(("v[%d] != 0" % i) if t == "bool" else ("v[%d] as %s" % (i, t)) for i, (a, t) in enumerate(ins))
        out.append('        "%s" => { if v.len() != %d { return false; } checks::%s(%s); true }' % (name, len(ins), name, args))
    out.append("        _ => false,")
    out.append("    }")
    out.append("}")
    return "\n".join(out)


REPLAY_MAIN = r'''
#[cfg(not(kani))]
fn main() {
    let a: Vec<String> = std::env::args().collect();
    if a.len() < 2 { eprintln!("usage: replay <check> [values...]"); std::process::exit(3); }
    let v: Vec<u64> = a[2..].iter().map(|s| s.parse::<u64>().expect("numeric value")).collect();
    if !replay_dispatch(&a[1], &v) { eprintln!("unknown check {} or wrong number of values", a[1]); std::process::exit(3); }
    println!("all clauses of check `{}` hold on these inputs", a[1]);
}
'''


def generate(wd):
    rp = repo()
    red, lin, lines = extract(rp)
    layout = json.load(open(LAYOUT))
    consts, lchecks = gen_layout(layout)
    t = open(os.path.join(HERE, "crate.rs.tmpl")).read()
    stubs = open(os.path.join(HERE, "stubs.rs")).read()
    body = (t.replace("@STUBS@", stubs).replace("@REPO@", rp)
             .replace("@EXTRACT_REDIRECTOR@", "\n".join("    " + l if l.strip() else l for l in red.split("\n")))
             .replace("@EXTRACT_LINUX@", lin).replace("@LAYOUT_CONSTS@", consts).replace("@LAYOUT_CHECKS@", lchecks)
             .replace("@HARNESSES@", gen_harnesses()))
    crate = os.path.join(wd, "crate")
    os.makedirs(os.path.join(crate, "src"), exist_ok=True)
    with open(os.path.join(crate, "Cargo.toml"), "w") as fh:
        fh.write('[package]\nname = "c06_ebpf_rs"\nversion = "0.0.0"\nedition = "2021"\n\n[lib]\npath = "src/lib.rs"\n\n[dependencies]\n\n'
                 '[lints.rust]\nunexpected_cfgs = { level = "allow", check-cfg = [\'cfg(kani)\'] }\n\n[workspace]\n')
    with open(os.path.join(crate, "src", "lib.rs"), "w") as fh:
        fh.write(body)
    with open(os.path.join(wd, "replay.rs"), "w") as fh:
        fh.write(body + REPLAY_MAIN)
    with open(os.path.join(crate, "Cargo.lock"), "w") as fh:   # no dependencies: nothing of the repo's Cargo.lock applies
        fh.write('version = 3\n\n[[package]]\nname = "c06_ebpf_rs"\nversion = "0.0.0"\n')
    return crate, lines


# ------------------------------------------------------------------ running Kani
def env(target):
    e = dict(os.environ)
    e["CARGO_NET_OFFLINE"] = "true"
    e["CARGO_TARGET_DIR"] = os.path.join(workdir(), target)
    return e


def sh(cmd, cwd, timeout, cmds=None, target="target"):
    if cmds is not None:
        cmds.append("cd %s && CARGO_NET_OFFLINE=true CARGO_TARGET_DIR=%s %s" % (cwd, os.path.join(workdir(), target), " ".join(shlex.quote(c) for c in cmd)))
    t0 = time.time()
    try:
        p = subprocess.run(cmd, cwd=cwd, env=env(target), stdout=subprocess.PIPE, stderr=subprocess.PIPE, timeout=timeout, text=True, errors="replace")
        return p.returncode, p.stdout, p.stderr, time.time() - t0
    except subprocess.TimeoutExpired as e:
        so = e.stdout.decode("utf8", "replace") if isinstance(e.stdout, bytes) else (e.stdout or "")
        return None, so, "timeout after %ss" % timeout, time.time() - t0
    except OSError as e:
        return -127, "", "cannot execute %s: %s" % (cmd[0], e), time.time() - t0


CHECK_RE = re.compile(r"^Check (\d+): (\S+)\n\s+- Status: (\w+)\n\s+- Description: \"(.*)\"\n(?:\s+- Location: (.*)\n)?", re.M)


def parse_kani(out):
    """-> dict harness -> dict(checks=[(id,status,desc,loc)], summary=(failed,total), verdict, solver_s, playback=[...])"""
    res = {}
    parts = re.split(r"^Checking harness (\S+?)\.\.\.\s*$", out, flags=re.M)
    for i in range(1, len(parts), 2):
        h, txt = parts[i].split("::")[-1], parts[i + 1]
        checks = []
        for blk in re.split(r"^(?=Check \d+: )", txt, flags=re.M):
            m = re.match(r"Check (\d+): ([^\n]+)\n\s+- Status: (\w+)\n\s+- Description: (.*?)(?:\n\s+- Location: ([^\n]*))?\n\s*(?:\n|$)", blk, re.S)
            if m:
                checks.append((m.group(2), m.group(3), m.group(4).strip().strip('"'), (m.group(5) or "").strip()))
        m = re.search(r"\*\* (\d+) of (\d+) failed", txt)
        cov = re.search(r"\*\* (\d+) of (\d+) cover properties satisfied", txt)
        v = re.search(r"^VERIFICATION:- (\w+)", txt, re.M)
        st = sum(float(x) for x in re.findall(r"Runtime Solver: ([0-9.eE+-]+)s", txt))
        vt = re.search(r"Verification Time: ([0-9.]+)s", txt)
        pb = []   # [(description of the check the test is for, [byte vectors])]
        for tm in re.finditer(r"/// Check for `(\w+)`: (.*?)\n.*?concrete_vals: Vec<Vec<u8>> = vec!\[(.*?)\n\s*\];", txt, re.S):
            vecs = []
            for line in tm.group(3).split("\n"):
                line = line.strip()
                if line.startswith("vec!["):
                    vecs.append([int(x) for x in re.findall(r"\d+", line[4:])])
            pb.append((tm.group(1), tm.group(2).strip().strip('"'), vecs))
        res[h] = dict(checks=checks, summary=(int(m.group(1)), int(m.group(2))) if m else None, cover=(int(cov.group(1)), int(cov.group(2))) if cov else None,
                      verdict=v.group(1) if v else None, solver_s=st, verif_s=float(vt.group(1)) if vt else 0.0, playback=pb, text=txt)
    return res


def label_of(desc, harness):
    m = re.match(r"^(C06\.rs\.[\w.]+):", desc)
    if m:
        return "clause", m.group(1)
    if desc.startswith("vacuity:"):
        return "vacuity", desc
    return "safety", "C06.rs.%s.safety" % harness.replace("h_", "", 1).split("__")[0]


def run_kani(crate, harnesses, timeout, cmds, playback=False, target="target", solver=None):
    cmd = ["cargo", "kani"]
    if solver:
        cmd += ["--solver", solver]
    if playback:
        cmd += ["-Z", "concrete-playback", "--concrete-playback=print"]
    for h in harnesses:
        cmd += ["--harness", "h_" + h]
    rc, so, se, wall = sh(cmd, crate, timeout, cmds, target)
    return rc, so, se, wall



# ------------------------------------------------------------------ replay
def build_replay(wd, cmds=None):
    rc, so, se, _ = sh(["rustc", "--edition", "2021", "-A", "warnings", "-C", "debug-assertions=on", "-C", "overflow-checks=on", "-o", "replay", "replay.rs"], wd, 300, cmds)
    if rc != 0:
        return None, "rustc could not build the replay program: %s" % (se + so).strip()[-600:]
    return os.path.join(wd, "replay"), None


def replay_cmd(check, vals):
    return "VERIF_REPO=%s python3 %s --replay %s %s" % (shlex.quote(repo()), os.path.join(HERE, "engine.py"), check, " ".join(str(v) for v in vals))


def do_replay(binary, check, vals):
    try:
        p = subprocess.run([binary, check] + [str(v) for v in vals], stdout=subprocess.PIPE, stderr=subprocess.PIPE, text=True, timeout=60)
    except (OSError, subprocess.TimeoutExpired) as e:
        return None, "", str(e)
    return p.returncode, p.stdout.strip(), p.stderr.strip()


CORNER = {"u16": [0x1234, 0x0101, 80, 1, 256, 32526, 65535, 0], "u32": [0x01020304, 0x10813FA8, 1, 0xFFFFFFFF, 0], "u8": [17, 34, 51, 68, 0, 255], "bool": [1, 0]}


def enumerate_witness(binary, check, ins, fixed, label, cap=400):
    """corner-value candidates (values whose bytes are all different, so that any byte/slot swap shows), executed on the real code"""
    import itertools
    doms = []
    for pos, (a, t) in enumerate(ins):
        if a in fixed:
            doms.append([fixed[a]])
        else:
            d = CORNER[t]
            if t in ("u8", "u32"):   # give neighbouring inputs different values
                d = d[pos % 4:] + d[:pos % 4] if t == "u8" else [((v + pos * 0x01010101) & 0xFFFFFFFF) if v == 0x01020304 else v for v in d]
            doms.append(d[:3] if len(ins) > 4 else d)
    n = 0
    for vals in itertools.product(*doms):
        n += 1
        if n > cap:
            break
        rc, out, err = do_replay(binary, check, list(vals))
        if rc not in (0, None) and (label + ":") in err:
            return list(vals)
    return None


def decode_playback(pb, ins, fixed):
    """byte vectors of the concrete-playback test, in kani::any() order -> values for all inputs of the check"""
    free = [a for a, t in ins if a not in fixed]
    if pb is None or len(pb) < len(free):
        return None
    it = iter(pb)
    vals = []
    for a, t in ins:
        vals.append(fixed[a] if a in fixed else int.from_bytes(bytes(next(it)), "little"))
    return vals


# ------------------------------------------------------------------ main entry
def run(tier="quick", seed=0, pid="C06"):
    t_start = time.time()
    res = dict(unit=UNIT, engine="kani", failures=[], undecided=[], functions=[], stubs=[], obligations=0, discharged=0, solver_s=0.0, wall_s=0.0,
               trusted=list(TRUSTED), rules={"span-extract": 9, "drop-derive-serde": 1}, samples=[], cmds=[], bounded=[],
               assumptions=["aya map API replaced by a recording stub; clauses are about the arguments handed to it and the value read from it",
                            "little-endian host"], extra={})
    cmds = res["cmds"]
    wd = workdir()
    timeout = 600 if tier == "quick" else 1800
    try:
        crate, lines = generate(wd)
    except Undecided as e:
        res["undecided"].append(str(e))
        res["wall_s"] = time.time() - t_start
        return res
    except Exception as e:
        res["undecided"].append("harness generation failed: %r" % e)
        res["wall_s"] = time.time() - t_start
        return res
    seen = set()
    for h, _ in HARNESS:
        for rel, path in REAL.get(h, []):
            if path in seen:
                continue
            seen.add(path)
            if path in lines:
                res["functions"].append(dict(name=path, rel=lines[path][0], line=lines[path][1], rules=["path-include" if rel in (R_OBJ, R_CONST) else "span-extract"]))
            else:
                res["undecided"].append("anchor lost: %s not found in %s" % (path, rel))
    names = [p for p, _, _ in PROOFS]
    groups = [g for g in make_groups() if g]
    assert sorted(names) == sorted(sum(groups, []))
    parsed, wall = {}, 0.0
    with concurrent.futures.ThreadPoolExecutor(min(16, len(groups))) as ex:
        futs = [(g, ex.submit(run_kani, crate, g, timeout, cmds, False, "target_g%d" % i)) for i, g in enumerate(groups)]
        for g, f in futs:
            rc, so, se, w = f.result()
            wall = max(wall, w)
            if rc is None:
                res["undecided"].append("cargo kani timed out after %ss on harnesses %s" % (timeout, g))
                continue
            p = parse_kani(so)
            if "error: could not compile" in se or re.search(r"^error(\[|:)", se, re.M) or not p:
                both = so + "\n" + se
                m = re.search(r"^error(?!: could not compile).*?(?=^error: could not compile|\Z)", both, re.M | re.S)
                errs = " ".join((m.group(0) if m else "\n".join(l for l in se.split("\n") if "Blocking waiting" not in l)[-700:]).split())[:700]
                msg = "the harness crate does not compile against the real files / Kani did not run (type/anchor/tool problem, not a verdict): %s" % errs
                if msg not in res["undecided"]:
                    res["undecided"].append(msg)
                continue
            parsed.update(p)
    if not parsed:
        res["wall_s"] = time.time() - t_start
        return res
    failing = {}
    per_h = {}
    clause_reached = {}
    clause_unreached_in, failed_proofs, vac_msgs = {}, set(), []
    for name in names:
        h = "h_" + name
        r = parsed.get(h)
        if r is None or r["summary"] is None or r["verdict"] is None:
            res["undecided"].append("Kani produced no verdict for harness %s: %s" % (h, (r or {}).get("text", se)[-300:]))
            continue
        res["solver_s"] += r["solver_s"]
        n_all = n_ok = n_unreach = n_clause = 0
        for cid, st, desc, loc in r["checks"]:
            kind, lab = label_of(desc, h)
            if kind == "vacuity":
                if st != "SATISFIED":
                    vac_msgs.append((h, "vacuity guard: cover at the end of %s is %s (harness cannot reach its end)" % (h, st)))
                continue
            if st == "UNREACHABLE":
                # Kani proved the check's location unreachable.  For a library-internal safety check that is a fact about the
                # path (not counted either way); for a C06 clause it means the clause was never exercised: vacuous.
                n_unreach += 1
                if kind == "clause":
                    clause_reached.setdefault(lab, False)
                    clause_unreached_in.setdefault(lab, []).append(h)
                continue
            if kind == "clause":
                clause_reached[lab] = True
            n_all += 1
            n_clause += 1 if kind == "clause" else 0
            if st == "SUCCESS":
                n_ok += 1
            elif st == "FAILURE":
                failing.setdefault(lab, []).append((name, cid, desc, loc))
                failed_proofs.add(h)
            else:
                res["undecided"].append("%s: check %s (%s) has status %s" % (h, cid, desc[:80], st))
        if r["summary"][1] != n_all + n_unreach:
            res["undecided"].append("%s: parsed %d checks but Kani's summary says %d" % (h, n_all + n_unreach, r["summary"][1]))
        if r["cover"] is None or r["cover"][0] != r["cover"][1]:
            vac_msgs.append((h, "vacuity guard: %s cover summary %s" % (h, r["cover"])))
        per_h[h] = dict(checks=n_all, clause_checks=n_clause, success=n_ok, unreachable_not_counted=n_unreach, verdict=r["verdict"], solver_s=round(r["solver_s"], 3), verification_s=r["verif_s"])
        res["obligations"] += n_all
        res["discharged"] += n_ok

    # thorough: the same proofs decided by a second SAT solver (Kani's default is CaDiCaL); verdicts must agree proof by proof
    if tier == "thorough" and parsed:
        agree = {}
        with concurrent.futures.ThreadPoolExecutor(min(16, len(groups))) as ex:
            futs = [(g, ex.submit(run_kani, crate, g, timeout, cmds, False, "target_g%d" % i, "kissat")) for i, g in enumerate(groups)]
            for g, f in futs:
                rc, so, se, w = f.result()
                p2 = parse_kani(so) if rc is not None else {}
                for pn in g:
                    a, b = parsed.get("h_" + pn), p2.get("h_" + pn)
                    if a is None:
                        continue
                    if b is None or b["summary"] is None:
                        res["undecided"].append("second solver (kissat) produced no verdict for h_%s" % pn)
                    elif a["summary"] != b["summary"] or a["verdict"] != b["verdict"]:
                        res["undecided"].append("solver disagreement on h_%s: cadical %s %s, kissat %s %s" % (pn, a["verdict"], a["summary"], b["verdict"], b["summary"]))
                    else:
                        agree["h_" + pn] = "kissat agrees: %s, %d of %d failed" % (b["verdict"], b["summary"][0], b["summary"][1])
                    res["solver_s"] += (b or {}).get("solver_s", 0.0)
        res["extra"]["second_solver"] = agree

    # an assert! that fails cuts the path: what follows it in a failing proof is unreachable BECAUSE of the reported failure
    for h, msg in vac_msgs:
        if h not in failed_proofs:
            res["undecided"].append(msg)
    for lab, reached in sorted(clause_reached.items()):
        if not reached and not all(h in failed_proofs for h in clause_unreached_in.get(lab, [])):
            res["undecided"].append("vacuity guard: clause %s is UNREACHABLE in every proof harness (never exercised)" % lab)
    res["extra"]["clauses_exercised"] = sum(1 for v in clause_reached.values() if v)
    try:
        want = set(re.findall(r'"(C06\.rs\.[\w.]+):', open(os.path.join(crate, "src", "lib.rs")).read()))
        if parsed and len(parsed) == len(names) and want - set(clause_reached):
            res["undecided"].append("clauses that did not become Kani checks: %s" % sorted(want - set(clause_reached)))
    except OSError:
        pass

    # failures -> failing input -> replay on the real files with plain rustc.
    #  (i)  witness generator: a small deterministic enumeration of byte-order-revealing corner values, each candidate EXECUTED
    #       against the real code (the replay binary); milliseconds.
    #  (ii) if none violates the clause: Kani's own counterexample (`-Z concrete-playback`, ~10x slower than verification), replayed.
    if failing:
        binary, berr = build_replay(wd, cmds)
        ins_of = dict(HARNESS)
        proof_of = {p: (n, f) for p, n, f in PROOFS}
        found, need_pb = {}, {}
        for lab in sorted(failing):
            pname, cid, desc, loc = failing[lab][0]
            name, fixed = proof_of[pname]
            if binary is None:
                continue
            if not ins_of[name]:
                found[lab] = ([], "concrete check (no inputs)")
                continue
            w = enumerate_witness(binary, name, ins_of[name], fixed, lab)
            if w is not None:
                found[lab] = (w, "witness generator (corner-value enumeration executed on the real code)")
            else:
                need_pb[lab] = pname
        pb = {}
        bad_h = sorted(set(need_pb.values()))
        if bad_h:
            with concurrent.futures.ThreadPoolExecutor(min(16, len(bad_h))) as ex:
                futs = [ex.submit(run_kani, crate, [h], timeout, cmds, True, "target_pb%d" % i) for i, h in enumerate(bad_h)]
                for f in futs:
                    rc2, so2, se2, _ = f.result()
                    if rc2 is not None:
                        pb.update(parse_kani(so2))
        for lab in sorted(failing):
            pname, cid, desc, loc = failing[lab][0]
            name, fixed = proof_of[pname]
            ins = ins_of[name]
            origin = None
            if lab in found:
                vals, origin = found[lab]
            else:
                tests = (pb.get("h_" + pname) or {}).get("playback") or []
                mine = [t for t in tests if t[0] != "cover" and t[1].startswith(lab + ":")] or [t for t in tests if t[0] != "cover"]
                vals = decode_playback(mine[0][2] if mine else None, ins, fixed) if ins else []
                origin = "Kani counterexample (-Z concrete-playback)"
            cex = dict(zip([a for a, _ in ins], vals)) if vals is not None else None
            if binary is None:
                w = dict(failing_input=None, note=berr)
            elif vals is None:
                w = dict(failing_input=None, note="no corner-value candidate violated the clause and Kani printed no concrete playback values for h_%s" % pname)
            else:
                rcr, out, err = do_replay(binary, name, vals)
                m = re.search(r"panicked at [^\n]*\n?(.*)", err, re.S)
                msg = (m.group(1) if m else err).strip().split("\n")[0]
                hit = rcr not in (0, None) and ((lab + ":") in err or lab.endswith(".safety"))
                if hit:
                    w = dict(failing_input=cex if cex else {"(no inputs)": "concrete check"}, found_by=origin, cmd=replay_cmd(name, vals), observed=msg[:400],
                             how="plain rustc build of the same generated crate (real files by #[path]/span) run on this input; the clause panicked")
                elif rcr not in (0, None):
                    w = dict(failing_input=None, note="replay failed on a DIFFERENT clause first: %s; input %s (%s)" % (msg[:200], cex, origin))
                else:
                    w = dict(failing_input=None, note="replay with rustc did not violate the clause; input %s (%s)" % (cex, origin))
            rel_fn = REAL.get(name, [(None, None)])[0]
            src = None
            if rel_fn[1] in lines:
                src = "%s:%d" % lines[rel_fn[1]]
            others = sorted(set(x[0] for x in failing[lab][1:]))
            res["failures"].append(dict(label=lab, fn=(rel_fn[1] or name), msg="Kani check %s FAILURE in harness h_%s: %s%s" % (cid, pname, desc, (" (also in %s)" % others) if others else ""), src=src,
                                        clause=desc, rendered="Check %s\n - Status: FAILURE\n - Description: %s\n - Location: %s" % (cid, desc, loc),
                                        counterexample=cex, witness=w))

    body = open(os.path.join(crate, "src", "lib.rs")).read()
    cl = re.findall(r'clause!\(((?:(?!clause!\().)*?),\s*"(C06\.rs\.[\w.]+): (.*?)"\);', body, re.S)
    for c, lab, txt in cl[:1] + [x for x in cl if x[1] in ("C06.rs.update_redirect_policy_key", "C06.rs.lookup_audit_decodes_destination", "C06.rs.audit_entry_field_order.is_root")]:
        res["samples"].append("%s: assert %s  -- %s" % (lab, " ".join(c.split())[:200], txt))
    res["extra"].update(per_harness=per_h, repo=repo(), labels=sorted(set(x[1] for x in cl)) + ["C06.rs.%s.safety" % h for h, _ in HARNESS],
                        kani_wall_s=round(wall, 2))
    res["wall_s"] = time.time() - t_start
    cleanup(wd)
    return res


def cleanup(wd):
    """scratch copies of the repo (mutation self-tests) get a run directory each; drop their cargo target dirs (~20 MB per proof group)"""
    if repo() != "/repo":
        for d in os.listdir(wd):
            if d.startswith("target"):
                shutil.rmtree(os.path.join(wd, d), ignore_errors=True)


def main(argv):
    if len(argv) >= 2 and argv[1] == "--replay":
        if len(argv) < 3:
            print("usage: engine.py --replay <check> [values ...]", file=sys.stderr)
            return 3
        wd = workdir()
        try:
            generate(wd)
        except Undecided as e:
            print(e, file=sys.stderr)
            return 2
        binary, err = build_replay(wd)
        if binary is None:
            print(err, file=sys.stderr)
            return 2
        return subprocess.run([binary] + argv[2:]).returncode
    tier = argv[1] if len(argv) > 1 else "quick"
    r = run(tier, 0, "C06")
    print(json.dumps(r, indent=1, default=str))
    return 0


if __name__ == "__main__":
    sys.exit(main(sys.argv))
