#!/bin/bash
# MANIFEST.setup_cmd: build the framework offline from files on disk only.
set -e
cd "$(dirname "$0")"
export CARGO_NET_OFFLINE=true
mkdir -p build evidence replay
# 1. vx: the source indexer (syn)
CARGO_TARGET_DIR=$PWD/build/vx cargo build --release --offline --manifest-path vx/Cargo.toml 2>&1 | tail -2
# 2. the dependency crates of /repo, compiled with the Verus toolchain so that extracted text is
#    type-checked against the real http/hyper/tokio/... APIs (versions pinned by /repo/Cargo.lock)
cp /repo/Cargo.lock extdeps/Cargo.lock
CARGO_TARGET_DIR=$PWD/build/extdeps cargo +1.98.1-x86_64-unknown-linux-gnu build --offline --manifest-path extdeps/Cargo.toml 2>&1 | tail -2
# 3. warm up verus (first run is slower)
printf 'use vstd::prelude::*;\nverus!{ proof fn t() ensures 1 + 1 == 2int {} }\nfn main(){}\n' > build/warm.rs
(cd build && verus warm.rs >/dev/null 2>&1 || true)
echo setup done
