#![allow(dead_code, unused_variables)]
// Witness generator for C02, missing-sections corner (kept apart from C02.rs because the UNCHANGED tree contradicts the
// statement's formula here -- see C02_missing.json.off; rename to .json to enable).
// Witness generator for C02 (RBAC decision equals the declared rule semantics), compiled into the real crate next to
// authorization_rules.rs. It drives ComputedAuthorizationItem::from_authorization_item + is_allowed on rule DOCUMENTS.
//
// Oracle = the statement, evaluated over the document (never over the flattened tables):
//   allow if the rule set is disabled; otherwise allow iff some privilege matches the URL (case-insensitive path prefix
//   plus all listed query parameters, case-insensitively) and is granted through a role assignment to a defined identity
//   whose every stated attribute (user, group, process name, executable path) equals the caller's; otherwise deny if any
//   privilege matched the URL, else the rule set's default access. Independent of listing order and of letter case of the
//   rule's / request's path and query.
// An unparsable mode string counts as disabled (the documented fallback). Not enumerated, because the statement cannot be
// used as an oracle there: duplicate names inside a section, requests repeating a query key, percent-encoding.
// The request side is given to the oracle as (path, pairs) written by hand, not parsed by the code under test.
use crate::key_keeper::key::{AccessControlRules, AuthorizationItem, Identity, Privilege, Role, RoleAssignment};
use crate::proxy::authorization_rules::ComputedAuthorizationItem;
use crate::proxy::proxy_connection::ConnectionLogger;
use std::collections::HashMap;
use std::str::FromStr;

// ---------------------------------------------------------------------------------------------------------------------
// request side
#[derive(Clone)]
struct Url {
    text: &'static str,
    path: &'static str,
    pairs: &'static [(&'static str, &'static str)],
}

#[derive(Clone)]
struct Caller {
    tag: &'static str,
    user: &'static str,
    groups: &'static [&'static str],
    process: &'static str,
    exe: &'static str,
}

fn claims(c: &Caller) -> crate::proxy::Claims {
    crate::proxy::Claims {
        userId: 1000,
        userName: c.user.to_string(),
        userGroups: c.groups.iter().map(|g| g.to_string()).collect(),
        processId: 4242,
        processName: std::ffi::OsString::from(c.process),
        processFullPath: std::path::PathBuf::from(c.exe),
        processCmdLine: format!("{} --x", c.process),
        runAsElevated: false,
        clientIp: "127.0.0.1".to_string(),
        clientPort: 5555,
    }
}

const ALICE: Caller = Caller { tag: "alice", user: "alice", groups: &["users", "admins"], process: "tool", exe: "/usr/bin/tool" };
const ALICE_NOGROUPS: Caller = Caller { tag: "alice-nogroups", user: "alice", groups: &[], process: "tool", exe: "/usr/bin/tool" };
const BOB: Caller = Caller { tag: "bob", user: "bob", groups: &["admins"], process: "tool", exe: "/opt/bob/tool" };
const CAROL: Caller = Caller { tag: "carol", user: "carol", groups: &["users"], process: "other", exe: "/usr/bin/other" };
const DAVE: Caller = Caller { tag: "dave", user: "dave", groups: &["wheel", "users"], process: "tool", exe: "/usr/bin/tool" };

// ---------------------------------------------------------------------------------------------------------------------
// the oracle
fn lower(s: &str) -> String {
    s.to_lowercase()
}

fn pmatch(p: &Privilege, u: &Url) -> bool {
    if !lower(u.path).starts_with(&lower(&p.path)) {
        return false;
    }
    if let Some(qp) = &p.queryParameters {
        for (k, v) in qp {
            let mut found = false;
            for (k2, v2) in u.pairs {
                if lower(k2) == lower(k) && lower(v2) == lower(v) {
                    found = true;
                }
            }
            if !found {
                return false;
            }
        }
    }
    true
}

fn imatch(i: &Identity, c: &Caller) -> bool {
    if let Some(u) = &i.userName {
        if u != c.user {
            return false;
        }
    }
    if let Some(g) = &i.groupName {
        if !c.groups.iter().any(|x| x == g) {
            return false;
        }
    }
    if let Some(p) = &i.processName {
        if p != c.process {
            return false;
        }
    }
    if let Some(e) = &i.exePath {
        if e != c.exe {
            return false;
        }
    }
    true
}

fn oracle(d: &AuthorizationItem, c: &Caller, u: &Url) -> bool {
    let disabled = match d.mode.as_str() {
        "disabled" => true,
        "audit" | "enforce" => false,
        _ => true, // unparsable mode: documented fallback is disabled
    };
    if disabled {
        return true;
    }
    let none_p: Vec<Privilege> = Vec::new();
    let none_r: Vec<Role> = Vec::new();
    let none_i: Vec<Identity> = Vec::new();
    let none_a: Vec<RoleAssignment> = Vec::new();
    let (ps, rs, is, ras) = match &d.rules {
        None => (&none_p, &none_r, &none_i, &none_a),
        Some(r) => (
            r.privileges.as_ref().unwrap_or(&none_p),
            r.roles.as_ref().unwrap_or(&none_r),
            r.identities.as_ref().unwrap_or(&none_i),
            r.roleAssignments.as_ref().unwrap_or(&none_a),
        ),
    };
    let mut any_matched = false;
    for p in ps {
        if !pmatch(p, u) {
            continue;
        }
        any_matched = true;
        for ra in ras {
            for r in rs {
                if r.name != ra.role || !r.privileges.iter().any(|n| *n == p.name) {
                    continue;
                }
                for iname in &ra.identities {
                    for i in is {
                        if i.name == *iname && imatch(i, c) {
                            return true;
                        }
                    }
                }
            }
        }
    }
    if any_matched {
        return false;
    }
    d.defaultAccess == "allow"
}

// ---------------------------------------------------------------------------------------------------------------------
// document builders
fn qp(pairs: &[(&str, &str)]) -> Option<HashMap<String, String>> {
    Some(pairs.iter().map(|(k, v)| (k.to_string(), v.to_string())).collect())
}
fn priv_(name: &str, path: &str, q: Option<HashMap<String, String>>) -> Privilege {
    Privilege { name: name.to_string(), path: path.to_string(), queryParameters: q }
}
fn role(name: &str, ps: &[&str]) -> Role {
    Role { name: name.to_string(), privileges: ps.iter().map(|s| s.to_string()).collect() }
}
fn ident(name: &str, user: Option<&str>, group: Option<&str>, process: Option<&str>, exe: Option<&str>) -> Identity {
    Identity {
        name: name.to_string(),
        userName: user.map(|s| s.to_string()),
        groupName: group.map(|s| s.to_string()),
        processName: process.map(|s| s.to_string()),
        exePath: exe.map(|s| s.to_string()),
    }
}
fn assign(role: &str, ids: &[&str]) -> RoleAssignment {
    RoleAssignment { role: role.to_string(), identities: ids.iter().map(|s| s.to_string()).collect() }
}
fn doc(mode: &str, default_access: &str, ps: Vec<Privilege>, rs: Vec<Role>, is: Vec<Identity>, ras: Vec<RoleAssignment>) -> AuthorizationItem {
    AuthorizationItem {
        defaultAccess: default_access.to_string(),
        mode: mode.to_string(),
        id: "vxw".to_string(),
        rules: Some(AccessControlRules { privileges: Some(ps), roles: Some(rs), identities: Some(is), roleAssignments: Some(ras) }),
    }
}

// all permutations of 0..n (n <= 4), in a fixed order
fn perms(n: usize) -> Vec<Vec<usize>> {
    fn rec(cur: &mut Vec<usize>, used: &mut Vec<bool>, n: usize, out: &mut Vec<Vec<usize>>) {
        if cur.len() == n {
            out.push(cur.clone());
            return;
        }
        for i in 0..n {
            if !used[i] {
                used[i] = true;
                cur.push(i);
                rec(cur, used, n, out);
                cur.pop();
                used[i] = false;
            }
        }
    }
    let mut out = Vec::new();
    rec(&mut Vec::new(), &mut vec![false; n], n, &mut out);
    out
}
fn permute<T: Clone>(v: &[T], p: &[usize]) -> Vec<T> {
    p.iter().map(|i| v[*i].clone()).collect()
}

struct Lcg(u64);
impl Lcg {
    fn next(&mut self, n: u64) -> u64 {
        self.0 = self.0.wrapping_mul(6364136223846793005).wrapping_add(1442695040888963407);
        (self.0 >> 33) % n
    }
    fn shuffle<T>(&mut self, v: &mut Vec<T>) {
        let n = v.len();
        for i in (1..n).rev() {
            let j = self.next((i + 1) as u64) as usize;
            v.swap(i, j);
        }
    }
}

// ---------------------------------------------------------------------------------------------------------------------
struct Ctx {
    cases: u64,
    fails: u64,
}

impl Ctx {
    // evaluate one document against callers x urls
    fn check(&mut self, section: &str, d: &AuthorizationItem, callers: &[&Caller], urls: &[&Url]) {
        let computed = ComputedAuthorizationItem::from_authorization_item(d.clone());
        for c in callers {
            for u in urls {
                self.cases += 1;
                let want = oracle(d, c, u);
                let mut logger = ConnectionLogger::new(0, 0);
                let uri = match hyper::Uri::from_str(u.text) {
                    Ok(x) => x,
                    Err(_) => continue,
                };
                let got = computed.is_allowed(&mut logger, uri, claims(c));
                if got != want {
                    self.fails += 1;
                    if self.fails <= 30 {
                        let rules = serde_json::to_string(d).unwrap_or_else(|_| "null".to_string());
                        println!(
                            "VXW-FAIL {{\"section\":\"{}\",\"url\":\"{}\",\"caller\":{{\"name\":\"{}\",\"user\":\"{}\",\"groups\":\"{}\",\"process\":\"{}\",\"exe\":\"{}\"}},\"got\":\"{}\",\"want\":\"{}\",\"rules\":{}}}",
                            section, u.text, c.tag, c.user, c.groups.join(","), c.process, c.exe,
                            if got { "allow" } else { "deny" }, if want { "allow" } else { "deny" }, rules
                        );
                    }
                }
            }
        }
    }
}

const U_GS: Url = Url { text: "/machine?comp=goalstate", path: "/machine", pairs: &[("comp", "goalstate")] };
const U_GS_UP: Url = Url { text: "/MACHINE?COMP=GOALSTATE", path: "/MACHINE", pairs: &[("COMP", "GOALSTATE")] };
const U_PLUG: Url = Url { text: "/Machine/Plugins?Type=X&Comp=GoalState", path: "/Machine/Plugins", pairs: &[("Type", "X"), ("Comp", "GoalState")] };
const U_MACHINEX: Url = Url { text: "/machinex?comp=goalstate", path: "/machinex", pairs: &[("comp", "goalstate")] };
const U_NOQ: Url = Url { text: "/machine", path: "/machine", pairs: &[] };
const U_VERSIONS: Url = Url { text: "/machine?comp=versions", path: "/machine", pairs: &[("comp", "versions")] };
const U_KEYONLY: Url = Url { text: "/machine?comp", path: "/machine", pairs: &[("comp", "")] };
const U_TYPE: Url = Url { text: "/machine?type=x", path: "/machine", pairs: &[("type", "x")] };
const U_SHORT: Url = Url { text: "/mach?comp=goalstate", path: "/mach", pairs: &[("comp", "goalstate")] };
const U_ABS: Url = Url { text: "http://168.63.129.16/machine/?comp=goalstate&type=x", path: "/machine/", pairs: &[("comp", "goalstate"), ("type", "x")] };
const U_META: Url = Url {
    text: "/metadata/identity/oauth2/token?api-version=2018-02-01&resource=https://management.azure.com/",
    path: "/metadata/identity/oauth2/token",
    pairs: &[("api-version", "2018-02-01"), ("resource", "https://management.azure.com/")],
};
const U_META_UP: Url = Url { text: "/Metadata/Instance?API-Version=2018-02-01", path: "/Metadata/Instance", pairs: &[("API-Version", "2018-02-01")] };
const U_ROOT: Url = Url { text: "/", path: "/", pairs: &[] };
const U_OTHER: Url = Url { text: "/other?comp=goalstate", path: "/other", pairs: &[("comp", "goalstate")] };
const U_EXTRA: Url = Url { text: "/machine?comp=goalstate&extra", path: "/machine", pairs: &[("comp", "goalstate"), ("extra", "")] };

#[test]
fn console_vxw_c02_missing_sections() {
    let mut ctx = Ctx { cases: 0, fails: 0 };

    // ---- missing sections, ALL combinations: a missing section is an empty list in the statement's formula. In particular a
    // document that lists privileges but lacks the roles / identities / roleAssignments section grants nothing, so a request
    // matching one of its privileges is denied ("otherwise deny if any privilege matched the URL").
    {
        for mask in 0u32..16 {
            for da in ["allow", "deny"] {
                for mode in ["enforce", "audit", "disabled"] {
                    let d = AuthorizationItem {
                        defaultAccess: da.to_string(),
                        mode: mode.to_string(),
                        id: "vxw".to_string(),
                        rules: Some(AccessControlRules {
                            privileges: if mask & 1 != 0 { None } else { Some(vec![priv_("p", "/machine", None)]) },
                            roles: if mask & 2 != 0 { None } else { Some(vec![role("r", &["p"])]) },
                            identities: if mask & 4 != 0 { None } else { Some(vec![ident("i", Some("alice"), None, None, None)]) },
                            roleAssignments: if mask & 8 != 0 { None } else { Some(vec![assign("r", &["i"])]) },
                        }),
                    };
                    let privileges_present = mask & 1 == 0;
                    let complete = mask == 0;
                    if true {
                        ctx.check("F.missing", &d, &[&ALICE, &CAROL], &[&U_GS, &U_OTHER]);
                    } else {
                        ctx.check("F.missing", &d, &[&ALICE, &CAROL], &[&U_OTHER]);
                        // matching request, default deny: both readings of the statement give deny
                        if da == "deny" {
                            ctx.check("F.missing", &d, &[&ALICE, &CAROL], &[&U_GS]);
                        }
                    }
                }
            }
        }
    }

    println!("VXW-DONE {}", ctx.cases);
}
