// Witness generator for C11 (enforce blocks, audit forwards and records, every denial recorded once), child module of proxy_server.rs.
// Drives the REAL handler end to end (handler_harness.inc.rs) with real shared-state actors; rules are set through the real
// KeyKeeperSharedState setters and the failed-authorization summary is read back through the real
// AgentStatusSharedState::get_all_failed_connection_summary (what proxy_agent_status publishes in the status file).
// Oracle = the statement: rules deny => enforce: 403 and nothing relayed; audit: relayed exactly as an allowed request would be;
// disabled: relayed. In enforce and audit mode every such denial adds exactly one occurrence under the caller's user, process,
// command line and destination (counts accumulate for identical denials, also for concurrent connections); requests the rules
// allow add nothing.
#![allow(dead_code, unused_imports, clippy::all)]
include!("/verif/witness/handler_harness.inc.rs");

// what the host saw of a relayed request, minus the values that legitimately differ between two relays (time stamp, signature over it)
fn view(q: &RecReq) -> Vec<String> {
    let mut v: Vec<String> = q.headers.iter().map(|(n, val)| {
        let n = n.to_ascii_lowercase();
        if n == "x-ms-azure-host-date" || n == "x-ms-azure-host-authorization" { format!("{}: <proxy value>", n) } else { format!("{}: {}", n, val) }
    }).collect();
    v.sort();
    v.insert(0, format!("{} {} body={}", q.method, q.target, vx_hex(&q.body)));
    v
}

fn occurrences(all: &[ProxyConnectionSummary], c: &Claims, ip: &str, port: u16) -> u64 {
    all.iter().filter(|s| s.userName == c.userName && s.processCmdLine == c.processCmdLine
        && s.processFullPath.as_deref() == Some(c.processFullPath.to_string_lossy().as_ref()) && s.ip == ip && s.port == port).map(|s| s.count).sum()
}

fn dump(all: &[ProxyConnectionSummary]) -> Vec<String> {
    all.iter().map(|s| format!("user={} cmd={} path={:?} dest={}:{} status={} count={}", s.userName, s.processCmdLine, s.processFullPath, s.ip, s.port, s.responseStatus, s.count)).collect()
}

#[test]
fn console_vxw_c11() {
    let h = Harness::new(true);
    let mut n = 0u64;
    h.set_key(Some(vx_key()));

    // (endpoint ip, port, elevated caller)
    let callers: [(&str, u16, bool); 4] = [("169.254.169.254", 80, false), ("169.254.169.254", 80, true), ("168.63.129.16", 80, true), ("168.63.129.16", 32526, true)];
    let requests: Vec<(&str, &str, ReqBody)> = vec![
        ("GET", "/machine?comp=goalstate", ReqBody::None),
        ("POST", "/machine/data?x=1", ReqBody::Len(vec![0u8, 1, 2, 250, 251, 252, 253, 254, 255, 13, 10])),
    ];
    let hdrs = |ip: &str| vec![("Host".to_string(), ip.to_string()), ("Metadata".to_string(), "true".to_string()), ("x-ms-version".to_string(), "2012-11-30".to_string())];

    for (ip, port, elevated) in callers.iter() {
        let claims = vx_claims(*elevated);
        let attr = Attribution::full(*elevated, ip, *port);
        for (method, target, body) in requests.iter() {
            let wire = vx_request_bytes(method, target, &hdrs(ip), body);
            // reference: how an allowed request is relayed and answered (rule set that grants the caller the privilege, enforce mode)
            h.set_rules(&|| Some(vx_rules("enforce", "deny", 0, &claims.userName)));
            h.clear_summary();
            let (rr, _rb, rreqs) = h.one(&h.ps, &attr, wire.clone(), false);
            n += 1;
            let after_allowed = h.failed_summary();
            let total: u64 = after_allowed.iter().map(|s| s.count).sum();
            if total != 0 {
                vx_fail(serde_json::json!({"property": "C11", "input": {"rules": "enforce/deny, privilege granted to the caller (allowed)", "destination": format!("{}:{}", ip, port), "elevated": elevated, "request": format!("{} {}", method, target)},
                    "got": {"failed_authorization_summary": dump(&after_allowed)}, "want": "no occurrence for an allowed request"}));
            }
            if rreqs.len() != 1 || vx_status(&rr) != 200 {
                println!("VXW-NOTE C11 reference request not relayed: status {} requests {}", vx_status(&rr), rreqs.len());
                continue;
            }
            let ref_view = view(&rreqs[0]);
            let ref_resp = rr.unwrap();

            for mode in ["enforce", "audit", "disabled"] {
                for (da, kind) in [("allow", 1u8), ("deny", 1), ("deny", 2), ("deny", 3), ("allow", 2), ("allow", 3), ("allow", 0)] {
                    let denied = !vx_rules_allow(da, kind);
                    for k in [1usize, 3] {
                        for keep_alive in [false, true] {
                            if keep_alive && k == 1 { continue; }
                            n += 1;
                            h.set_rules(&|| Some(vx_rules(mode, da, kind, &claims.userName)));
                            h.clear_summary();
                            // k identical requests: each on its own connection, or all on one keep-alive connection
                            let mut results: Vec<Result<ClientResp, String>> = Vec::new();
                            let mut at_host: Vec<RecReq> = Vec::new();
                            let mut bytes = 0usize;
                            if keep_alive {
                                let mut conn = h.connect(&attr);
                                for _ in 0..k {
                                    conn.client.send(wire.clone());
                                    results.push(conn.client.recv(false));
                                }
                                let (b, q) = h.finish(conn);
                                bytes += b;
                                at_host.extend(q);
                            } else {
                                for _ in 0..k {
                                    let (r, b, q) = h.one(&h.ps, &attr, wire.clone(), false);
                                    results.push(r);
                                    bytes += b;
                                    at_host.extend(q);
                                }
                            }
                            let summary = h.failed_summary();
                            let mine = occurrences(&summary, &claims, ip, *port);
                            let total: u64 = summary.iter().map(|s| s.count).sum();
                            let statuses: Vec<u16> = results.iter().map(vx_status).collect();
                            let mut problems: Vec<String> = Vec::new();
                            let relayed_like_allowed = |problems: &mut Vec<String>| {
                                if at_host.len() != k {
                                    problems.push(format!("{} requests at the host, want {}", at_host.len(), k));
                                }
                                for q in at_host.iter() {
                                    if view(q) != ref_view {
                                        problems.push(format!("relayed differently from an allowed request: {:?} vs {:?}", view(q), ref_view));
                                        break;
                                    }
                                }
                                for r in results.iter() {
                                    match r {
                                        Ok(r) if r.status == ref_resp.status && r.body == ref_resp.body => {}
                                        other => { problems.push(format!("client got {:?}, an allowed request gets status {} and the host's body", other.as_ref().map(|r| r.status), ref_resp.status)); break; }
                                    }
                                }
                            };
                            if denied && mode == "enforce" {
                                if statuses.iter().any(|s| *s != 403) { problems.push(format!("client statuses {:?}, want 403 for every denied request", statuses)); }
                                if bytes != 0 { problems.push(format!("{} bytes relayed to the host, want 0", bytes)); }
                            } else if denied && mode == "audit" {
                                relayed_like_allowed(&mut problems);
                            } else if mode == "disabled" {
                                relayed_like_allowed(&mut problems);
                            }
                            if denied && mode != "disabled" {
                                if mine != k as u64 || total != k as u64 {
                                    problems.push(format!("failed-authorization summary has {} occurrences under the caller/destination and {} in total after {} denials, want {} and {}", mine, total, k, k, k));
                                }
                            } else if !denied && mode != "disabled" {
                                if total != 0 { problems.push(format!("failed-authorization summary gained {} occurrences for allowed requests", total)); }
                            }
                            if !problems.is_empty() {
                                vx_fail(serde_json::json!({"property": "C11",
                                    "input": {"mode": mode, "defaultAccess": da, "rule_shape": kind, "rules_deny": denied, "destination": format!("{}:{}", ip, port), "caller": claims.userName, "elevated": elevated,
                                              "request": format!("{} {}", method, target), "identical_requests": k, "one_keep_alive_connection": keep_alive},
                                    "got": {"client_statuses": statuses, "bytes_at_host": bytes, "failed_authorization_summary": dump(&summary), "problems": problems},
                                    "want": "enforce: 403, 0 bytes relayed; audit: relayed exactly as allowed; disabled: relayed; enforce/audit: one occurrence per denial under user/process/cmdline/destination, none for allowed"}));
                            }
                        }
                    }
                }
            }
        }
    }

    // ---- a history with several callers and endpoints: counts accumulate per user / process / command line / destination
    {
        n += 1;
        h.set_rules(&|| Some(vx_rules("audit", "deny", 3, "x")));
        h.clear_summary();
        let alice = vx_claims(false);
        let mut alice_other_cmd = vx_claims(false);
        alice_other_cmd.processCmdLine = "tool --y".to_string();
        let mut alice_other_exe = vx_claims(false);
        alice_other_exe.processFullPath = std::path::PathBuf::from("/opt/other/tool");
        let mut bob = vx_claims(false);
        bob.userName = "bob".to_string();
        bob.userId = 1001;
        let root = vx_claims(true);
        const IMDS: (&str, u16) = ("169.254.169.254", 80);
        const WS: (&str, u16) = ("168.63.129.16", 80);
        const GA: (&str, u16) = ("168.63.129.16", 32526);
        // (who, caller, destination, how many in a row)
        let plan: Vec<(&str, &Claims, (&str, u16), u64)> = vec![
            ("alice", &alice, IMDS, 2), ("root->WireServer", &root, WS, 1), ("alice, other command line", &alice_other_cmd, IMDS, 1), ("alice", &alice, IMDS, 1),
            ("root->HostGAPlugin", &root, GA, 2), ("bob", &bob, IMDS, 1), ("root->IMDS", &root, IMDS, 1), ("alice, other executable", &alice_other_exe, IMDS, 2),
            ("root->WireServer", &root, WS, 2), ("alice, other command line", &alice_other_cmd, IMDS, 2),
        ];
        let mut want: std::collections::BTreeMap<&str, (u64, &Claims, (&str, u16))> = std::collections::BTreeMap::new();
        let mut all = 0u64;
        for (who, c, dest, cnt) in plan.iter() {
            for _ in 0..*cnt {
                let attr = Attribution { claims: Some((*c).clone()), destination: Some((dest.0.parse().unwrap(), dest.1)), upstream: true, real_new: false };
                let _ = h.one(&h.ps, &attr, vx_request_bytes("GET", "/machine?comp=goalstate", &hdrs(dest.0), &ReqBody::None), false);
                want.entry(*who).or_insert((0, *c, *dest)).0 += 1;
                all += 1;
            }
        }
        let summary = h.failed_summary();
        let mut problems: Vec<String> = Vec::new();
        for (who, (w, c, dest)) in want.iter() {
            let got = occurrences(&summary, c, dest.0, dest.1);
            if got != *w { problems.push(format!("{} ({} '{}' {} -> {}:{}): {} occurrences, want {}", who, c.userName, c.processCmdLine, c.processFullPath.to_string_lossy(), dest.0, dest.1, got, w)); }
        }
        let total: u64 = summary.iter().map(|s| s.count).sum();
        if total != all { problems.push(format!("{} occurrences in total, want {}", total, all)); }
        if !problems.is_empty() {
            vx_fail(serde_json::json!({"property": "C11", "input": {"mode": "audit", "defaultAccess": "deny",
                "history": plan.iter().map(|(who, _, d, k)| format!("{} -> {}:{} x{}", who, d.0, d.1, k)).collect::<Vec<_>>()},
                "got": {"failed_authorization_summary": dump(&summary), "problems": problems}, "want": "one occurrence per denial under each distinct user / process / command line / destination"}));
        }
    }
    // ---- callers whose identity differs ONLY in the letter case of one attribute (user Alice / alice / ALICE, /opt/Tools/fetch vs
    //      /opt/tools/fetch, `fetch -H ..` vs `fetch -h ..`) are different callers: "each such denial adds exactly one occurrence, under
    //      the caller's user, process, command line and destination" - every one of them gets its own occurrences, with its own
    //      user / process / command line exactly as it is, and its own count
    {
        let mk = |user: &str, uid: u64, path: &str, cmd: &str| {
            let mut c = vx_claims(false);
            c.userName = user.to_string();
            c.userId = uid;
            c.processFullPath = std::path::PathBuf::from(path);
            c.processName = std::ffi::OsString::from(path.rsplit('/').next().unwrap_or("tool"));
            c.processCmdLine = cmd.to_string();
            c
        };
        let alice = mk("alice", 1000, "/usr/bin/tool", "tool --x");
        let alice_cap = mk("Alice", 1002, "/usr/bin/tool", "tool --x");
        let alice_upper = mk("ALICE", 1003, "/usr/bin/tool", "tool --x");
        let fetch_lower_dir = mk("svc", 1004, "/opt/tools/fetch", "fetch -H Metadata:true http://169.254.169.254/metadata/instance");
        let fetch_upper_dir = mk("svc", 1004, "/opt/Tools/fetch", "fetch -H Metadata:true http://169.254.169.254/metadata/instance");
        let fetch_small_h = mk("svc", 1004, "/opt/tools/fetch", "fetch -h Metadata:true http://169.254.169.254/metadata/instance");
        let fetch_exe_upper = mk("svc", 1004, "/opt/tools/FETCH", "fetch -H Metadata:true http://169.254.169.254/metadata/instance");
        const IMDS: (&str, u16) = ("169.254.169.254", 80);
        const WS: (&str, u16) = ("168.63.129.16", 80);
        // (description, mode, history of (who, caller, destination, how many in a row))
        let histories: Vec<(&str, &str, Vec<(&str, &Claims, (&str, u16), u64)>)> = vec![
            ("user names alice / Alice / ALICE", "audit", vec![("alice", &alice, IMDS, 2), ("Alice", &alice_cap, IMDS, 1), ("alice", &alice, IMDS, 1), ("ALICE", &alice_upper, IMDS, 3)]),
            ("user names Alice first, then alice", "enforce", vec![("Alice", &alice_cap, IMDS, 1), ("alice", &alice, IMDS, 2)]),
            ("executables /opt/Tools/fetch, /opt/tools/fetch, /opt/tools/FETCH", "enforce", vec![("/opt/Tools/fetch", &fetch_upper_dir, IMDS, 1), ("/opt/tools/fetch", &fetch_lower_dir, IMDS, 2), ("/opt/Tools/fetch", &fetch_upper_dir, IMDS, 1), ("/opt/tools/FETCH", &fetch_exe_upper, IMDS, 1)]),
            ("command lines `fetch -H ..` and `fetch -h ..`", "audit", vec![("fetch -H", &fetch_lower_dir, IMDS, 2), ("fetch -h", &fetch_small_h, IMDS, 1)]),
            ("command lines `fetch -h ..` first, then `fetch -H ..`", "enforce", vec![("fetch -h", &fetch_small_h, WS, 1), ("fetch -H", &fetch_lower_dir, WS, 3), ("fetch -h", &fetch_small_h, WS, 1)]),
            ("seven callers differing in the letter case of one attribute each, two destinations", "audit", vec![
                ("alice", &alice, IMDS, 1), ("/opt/tools/fetch -H", &fetch_lower_dir, IMDS, 1), ("Alice", &alice_cap, WS, 2), ("/opt/Tools/fetch -H", &fetch_upper_dir, IMDS, 2), ("ALICE", &alice_upper, IMDS, 1),
                ("/opt/tools/fetch -h", &fetch_small_h, IMDS, 3), ("alice->WireServer", &alice, WS, 1), ("/opt/tools/FETCH -H", &fetch_exe_upper, WS, 1), ("Alice", &alice_cap, WS, 1), ("/opt/tools/fetch -H", &fetch_lower_dir, IMDS, 1),
            ]),
        ];
        for (what, mode, plan) in histories.iter() {
            n += 1;
            h.set_rules(&|| Some(vx_rules(mode, "deny", 3, "x")));
            h.clear_summary();
            let mut want: Vec<(&str, &Claims, (&str, u16), u64)> = Vec::new();
            let mut all = 0u64;
            let mut statuses: Vec<u16> = Vec::new();
            for (who, c, dest, cnt) in plan.iter() {
                for _ in 0..*cnt {
                    let attr = Attribution { claims: Some((*c).clone()), destination: Some((dest.0.parse().unwrap(), dest.1)), upstream: true, real_new: false };
                    let (r, _b, _q) = h.one(&h.ps, &attr, vx_request_bytes("GET", "/metadata/instance?api-version=2021-02-01", &hdrs(dest.0), &ReqBody::None), false);
                    statuses.push(vx_status(&r));
                    all += 1;
                }
                match want.iter_mut().find(|(w, _, d, _)| w == who && d == dest) {
                    Some(e) => e.3 += *cnt,
                    None => want.push((*who, *c, *dest, *cnt)),
                }
            }
            let summary = h.failed_summary();
            let mut problems: Vec<String> = Vec::new();
            for (who, c, dest, w) in want.iter() {
                let got = occurrences(&summary, c, dest.0, dest.1);
                if got != *w {
                    problems.push(format!("{} (user '{}', process '{}', command line '{}' -> {}:{}): {} occurrences under exactly this caller, want {}", who, c.userName, c.processFullPath.to_string_lossy(), c.processCmdLine, dest.0, dest.1, got, w));
                }
            }
            let total: u64 = summary.iter().map(|s| s.count).sum();
            if total != all { problems.push(format!("{} occurrences in total, want {}", total, all)); }
            if *mode == "enforce" && statuses.iter().any(|s| *s != 403) { problems.push(format!("client statuses {:?}, want 403 for every denied request", statuses)); }
            if !problems.is_empty() {
                vx_fail(serde_json::json!({"property": "C11", "input": {"what": format!("callers differing only in letter case: {}", what), "mode": mode, "defaultAccess": "deny",
                    "history": plan.iter().map(|(_, c, d, k)| format!("user '{}' process '{}' command line '{}' -> {}:{} x{}", c.userName, c.processFullPath.to_string_lossy(), c.processCmdLine, d.0, d.1, k)).collect::<Vec<_>>()},
                    "got": {"failed_authorization_summary": dump(&summary), "problems": problems}, "want": "one occurrence per denial under each distinct caller: user, process and command line exactly as the caller's (letter case included), with its own count"}));
            }
        }
    }
    drop(h);

    // ---- many concurrent connections, all denied in enforce mode: every denial is recorded
    {
        const BURST: usize = 300;
        n += 1;
        let h = Harness::new(false); // current-thread runtime: all connection tasks are ready at once
        h.set_rules(&|| Some(vx_rules("enforce", "deny", 3, "x")));
        h.clear_summary();
        let attr = Attribution { claims: Some(vx_claims(false)), destination: Some(("169.254.169.254".parse().unwrap(), 80)), upstream: false, real_new: false };
        let mut clients = Vec::new();
        let mut pending = Vec::new();
        for _ in 0..BURST {
            let (mut client, mut ctx, stream) = h.connect_only(&attr);
            // same caller on every connection
            if let Some(c) = ctx.claims.as_mut() { c.clientIp = "127.0.0.1".to_string(); c.clientPort = 5555; }
            client.send(vx_request_bytes("GET", "/metadata/identity/oauth2/token?resource=x", &[("Host".to_string(), "169.254.169.254".to_string()), ("Metadata".to_string(), "true".to_string()), ("Connection".to_string(), "close".to_string())], &ReqBody::None));
            clients.push(client);
            pending.push((ctx, stream));
        }
        let ps = h.ps.clone();
        h.rt.block_on(async {
            let mut tasks = Vec::new();
            for (ctx, stream) in pending { tasks.push(tokio::spawn(vx_serve(ps.clone(), ctx, stream))); }
            for t in tasks { let _ = tokio::time::timeout(Duration::from_secs(20), t).await; }
        });
        let mut statuses: std::collections::BTreeMap<u16, usize> = std::collections::BTreeMap::new();
        for mut c in clients { *statuses.entry(vx_status(&c.recv(false))).or_insert(0) += 1; c.close(); }
        let summary = h.failed_summary();
        let mine = occurrences(&summary, &vx_claims(false), "169.254.169.254", 80);
        if mine != BURST as u64 || statuses.get(&403).copied().unwrap_or(0) != BURST {
            vx_fail(serde_json::json!({"property": "C11", "input": {"mode": "enforce", "defaultAccess": "deny", "concurrent_connections": BURST, "caller": "alice", "destination": "169.254.169.254:80", "request": "GET /metadata/identity/oauth2/token?resource=x"},
                "got": {"client_statuses": format!("{:?}", statuses), "occurrences_under_caller": mine, "failed_authorization_summary": dump(&summary)},
                "want": {"client_statuses": "403 x 300", "occurrences_under_caller": BURST}}));
        }
    }
    println!("VXW-DONE {}", n);
}
