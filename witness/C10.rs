// Witness generator for C10 (the key id in a signature always names the key that produced the MAC), child module of
// proxy_agent/src/proxy/proxy_server.rs.
//
// Observation point: a fake metadata host on loopback that receives the bytes the agent emits. For every received request the
// witness parses `x-ms-azure-host-authorization: Azure-HMAC-SHA256 <key id> <MAC>`, rebuilds the string to sign from the bytes
// the host received (method LF body LF sorted "name:value" header lines without the authorization header, path LF sorted
// parameters; written from the protocol description, not from the agent's code) and computes HMAC-SHA256 under the keys the
// witness itself latched.
//
// Oracle (the statement): a request is signed entirely with one key or not at all: the announced id is exactly the guid of a key
// that was latched at some instant between the start of the request and its arrival at the host AND the MAC verifies under the
// value of that same key; it may be unsigned only if "no key" was the latched state at some instant of that interval.
// Drivers: the real key-keeper actor (KeyKeeperSharedState), the real request handler behind a real hyper server connection
// (handler_harness.inc.rs), the real WireServerClient::get_goalstate / get_shared_config, ImdsClient::get_imds_instance_info,
// hyper_client::get / build_request, key::attest_key and the real KeyKeeper::poll_secure_channel_status loop against a fake
// key-keeper host. Rotation is driven by the witness (update_key / clear_key) at chosen points of a request, by a rotator task
// racing with many signers on a current-thread runtime (spawn order and yields enumerated), and by the real poll loop.
#![allow(dead_code, unused_imports, clippy::all)]
include!("/verif/witness/handler_harness.inc.rs");

use crate::host_clients::imds_client::ImdsClient;
use crate::host_clients::wire_server_client::WireServerClient;
use std::collections::BTreeMap;
use std::sync::atomic::{AtomicBool, AtomicUsize, Ordering};

const C10_AUTH: &str = "x-ms-azure-host-authorization";
const C10_SCHEME: &str = "Azure-HMAC-SHA256";
const C10_MAX_PRINT: usize = 25;

/// Cases in which the UNCHANGED tree contradicts the oracle (reported to the owner of the property, not worked around: the
/// oracle is unchanged, these cases are executed and printed as VXW-NOTE instead of VXW-FAIL so that the rest still decides).
/// In both, the agent does not sign and relays the client's own x-ms-azure-host-authorization header to the host verbatim.
const C10_KNOWN: [&str; 2] = [
    "client-supplied authorization header, no key latched",
    "client-supplied authorization header, key latched, request forwarded without signing",
];

#[derive(Clone, Debug, PartialEq)]
struct KSpec {
    name: &'static str,
    guid: &'static str,
    value: &'static str,
    inc: u32,
}

// distinct guids and values; K1U differs from K1 only by the letter case of the guid, K1R re-issues K1's guid with another
// secret, KH's guid is itself a valid hex string (could be mistaken for a key), KL has a lower-case secret,
// KN has a guid outside ASCII, KE is the agent's own "empty" key (zero guid, empty secret), K3 is one more ordinary key
const KEYS: [KSpec; 9] = [
    KSpec { name: "K1", guid: "1a1a1a1a-aaaa-4bbb-8ccc-0123456789ab", value: "4A404E635266556A586E3272357538782F413F4428472B4B6250645367566B59", inc: 1 },
    KSpec { name: "K2", guid: "2b2b2b2b-dddd-4eee-9fff-ba9876543210", value: "2B4D6251655468576D5A7134743777217A25432A462D4A614E645266556A586E", inc: 2 },
    KSpec { name: "K1U", guid: "1A1A1A1A-AAAA-4BBB-8CCC-0123456789AB", value: "38782F413F4428472B4B6250655368566D5971337436773979244226452948404D", inc: 3 },
    KSpec { name: "K1R", guid: "1a1a1a1a-aaaa-4bbb-8ccc-0123456789ab", value: "5A7234753778214125442A472D4B6150645367566B59703373357638792F423F45", inc: 4 },
    KSpec { name: "KH", guid: "00112233445566778899aabbccddeeff00112233445566778899aabbccddeeff", value: "6B5970337336763979244226452948404D635166546A576E5A7234753777217A", inc: 5 },
    KSpec { name: "KL", guid: "3c3c3c3c-1234-4abc-8def-00000000beef", value: "7538782f413f4428472b4b6250655368566d597133743677397a244326462948", inc: 6 },
    KSpec { name: "KN", guid: "cl\u{e9}-\u{43a}\u{43b}\u{44e}\u{447}-7", value: "462D4A614E645267556B58703273357638792F423F4528482B4D6251655468576D", inc: 7 },
    KSpec { name: "KE", guid: "00000000-0000-0000-0000-000000000000", value: "", inc: 0 },
    KSpec { name: "K3", guid: "3d3d3d3d-5678-4cde-9abc-112233445566", value: "28482B4D6251655468576D5A7134743777217A25432A462D4A614E645267556B", inc: 8 },
];
const K1: usize = 0;
const K2: usize = 1;
const K1U: usize = 2;
const K1R: usize = 3;
const KH: usize = 4;
const KL: usize = 5;
const KN: usize = 6;
const KE: usize = 7;
const K3: usize = 8;

/// latched state: None = no key
type St = Option<usize>;

fn st_name(s: St) -> String {
    match s {
        Some(i) => format!("{}(guid {}, inc {})", KEYS[i].name, KEYS[i].guid, KEYS[i].inc),
        None => "no key".to_string(),
    }
}
fn sts(v: &[St]) -> Vec<String> {
    v.iter().map(|s| st_name(*s)).collect()
}

fn key_json(i: usize) -> serde_json::Value {
    let k = &KEYS[i];
    serde_json::json!({"authorizationScheme": C10_SCHEME, "guid": k.guid, "incarnationId": k.inc, "issued": "2021-05-05T 12:00:00Z", "key": k.value})
}

/// a fresh Key record (never through Key::clone)
fn mk(i: usize) -> Key {
    if i == KE {
        return Key::empty();
    }
    serde_json::from_value(key_json(i)).expect("key record")
}

async fn latch(kk: &KeyKeeperSharedState, s: St) {
    match s {
        Some(i) => kk.update_key(mk(i)).await.expect("update_key"),
        None => kk.clear_key().await.expect("clear_key"),
    }
}

// ------------------------------------------------------------------------------------------------ the host's view
fn c10_sig_input(q: &RecReq) -> Vec<u8> {
    let mut d = q.method.as_bytes().to_vec();
    d.push(b'\n');
    d.extend_from_slice(&q.body);
    d.push(b'\n');
    let mut hs: BTreeMap<String, String> = BTreeMap::new();
    for (n, v) in q.headers.iter() {
        let l = n.to_lowercase();
        if l == C10_AUTH {
            continue;
        }
        hs.insert(l, v.trim().to_string());
    }
    for (n, v) in hs.iter() {
        d.extend_from_slice(format!("{}:{}\n", n, v).as_bytes());
    }
    let (path, query) = match q.target.find('?') {
        Some(i) => (&q.target[..i], &q.target[i + 1..]),
        None => (&q.target[..], ""),
    };
    d.extend_from_slice(path.as_bytes());
    d.push(b'\n');
    let mut ps: Vec<(String, String)> = Vec::new();
    for p in query.split('&') {
        let mut s = p.splitn(2, '=');
        let k = s.next().unwrap_or("");
        if k.is_empty() {
            continue;
        }
        ps.push((k.to_lowercase(), s.next().unwrap_or("").to_string()));
    }
    ps.sort_by(|a, b| format!("{}{}", a.0, a.1).cmp(&format!("{}{}", b.0, b.1)));
    let joined: Vec<String> = ps.iter().map(|(k, v)| if v.is_empty() { k.clone() } else { format!("{}={}", k, v) }).collect();
    d.extend_from_slice(joined.join("&").as_bytes());
    d
}

fn c10_mac(value_hex: &str, input: &[u8]) -> Option<String> {
    let key = hex::decode(value_hex).ok()?;
    Some(hex::encode(hmac_sha256::HMAC::mac(input, &key)))
}

/// names of the keys of the witness under whose value the MAC verifies
fn mac_owners(q: &RecReq, sig: &str) -> Vec<&'static str> {
    let input = c10_sig_input(q);
    let mut v = Vec::new();
    for k in KEYS.iter() {
        if let Some(m) = c10_mac(k.value, &input) {
            if m.eq_ignore_ascii_case(sig) {
                v.push(k.name);
            }
        }
    }
    v
}

/// None = consistent with the oracle; Some(problem, got) otherwise
fn check_req(q: &RecReq, allowed: &[St]) -> Option<(String, serde_json::Value)> {
    let hs = vx_hget(&q.headers, C10_AUTH);
    let req = format!("{} {}", q.method, q.target);
    if hs.is_empty() {
        if allowed.contains(&None) {
            return None;
        }
        return Some(("the request reached the host unsigned although a key was latched during the whole request".to_string(), serde_json::json!({"request": req, "authorization": null})));
    }
    if hs.len() > 1 {
        return Some(("more than one authorization header".to_string(), serde_json::json!({"request": req, "authorization": hs})));
    }
    let parts: Vec<&str> = hs[0].split(' ').collect();
    if parts.len() != 3 || parts[0] != C10_SCHEME {
        return Some(("authorization header is not '<scheme> <key id> <MAC>'".to_string(), serde_json::json!({"request": req, "authorization": hs[0]})));
    }
    let (guid, sig) = (parts[1], parts[2]);
    let input = c10_sig_input(q);
    for s in allowed.iter() {
        if let Some(i) = s {
            if KEYS[*i].guid == guid {
                if let Some(m) = c10_mac(KEYS[*i].value, &input) {
                    if m.eq_ignore_ascii_case(sig) {
                        return None;
                    }
                }
            }
        }
    }
    let owners = mac_owners(q, sig);
    let named: Vec<&str> = KEYS.iter().filter(|k| k.guid == guid).map(|k| k.name).collect();
    let problem = if named.is_empty() {
        "the announced key id is not the guid of any key that was ever latched".to_string()
    } else if owners.is_empty() {
        "the MAC does not verify under the key the announced id names (nor under any other key that was ever latched)".to_string()
    } else if owners.iter().any(|o| named.contains(o)) {
        "signed with a key that was not latched at any instant of the request".to_string()
    } else {
        "the announced key id names one key, the MAC was computed under another".to_string()
    };
    Some((problem, serde_json::json!({"request": req, "authorization": hs[0], "announced_id_names": named, "mac_verifies_under": owners})))
}

struct Tally {
    cases: u64,
    fails: usize,
}

impl Tally {
    fn new() -> Tally {
        Tally { cases: 0, fails: 0 }
    }
    fn fail(&mut self, v: serde_json::Value) {
        self.fails += 1;
        if self.fails <= C10_MAX_PRINT {
            vx_fail(v);
        }
    }
    /// every request of `reqs` against `allowed`; at least `min_requests` requests must have reached the host
    fn check_all(&mut self, site: &str, history: serde_json::Value, reqs: &[RecReq], allowed: &[St], min_requests: usize) {
        self.cases += 1;
        if reqs.len() < min_requests {
            self.fail(serde_json::json!({"property": "C10", "site": site, "history": history,
                "got": format!("{} requests at the host", reqs.len()), "want": format!("{} requests, each signed consistently", min_requests)}));
        }
        for q in reqs.iter() {
            if let Some((problem, got)) = check_req(q, allowed) {
                self.fail(serde_json::json!({"property": "C10", "site": site, "history": history, "problem": problem, "got": got,
                    "want": {"signed_entirely_with_one_of": sts(allowed)}}));
            }
        }
    }
    fn done(&self) {
        if self.fails > C10_MAX_PRINT {
            println!("VXW-NOTE C10 {} further contradictions not printed", self.fails - C10_MAX_PRINT);
        }
        println!("VXW-DONE {}", self.cases);
    }
}

// ------------------------------------------------------------------------------------------------ rotation
/// alternates the latched state until told to stop; `yields` explicit yield points after every replacement
async fn rotator(kk: KeyKeeperSharedState, alphabet: Vec<St>, yields: usize, stop: Arc<AtomicBool>, count: Arc<AtomicUsize>) {
    let mut i = 0usize;
    while !stop.load(Ordering::SeqCst) {
        latch(&kk, alphabet[i % alphabet.len()]).await;
        i += 1;
        count.fetch_add(1, Ordering::SeqCst);
        for _ in 0..yields {
            tokio::task::yield_now().await;
        }
    }
}

fn alphabets() -> Vec<Vec<St>> {
    vec![
        vec![Some(K1), Some(K2)],
        vec![Some(K1), None, Some(K2), None],
        vec![Some(K1), Some(K1R)],
        vec![Some(K1U), Some(K1), Some(KH)],
    ]
}

// ------------------------------------------------------------------------------------------------ A. the actor's getters
fn same_record(got: &Option<Key>, s: St) -> bool {
    match (got, s) {
        (None, None) => true,
        (Some(k), Some(i)) => k.guid == KEYS[i].guid && k.key == KEYS[i].value && (i == KE || k.incarnationId == Some(KEYS[i].inc)),
        _ => false,
    }
}

fn show(got: &Result<Option<Key>, String>) -> String {
    match got {
        Ok(Some(k)) => format!("guid {} value {} incarnation {:?}", k.guid, k.key, k.incarnationId),
        Ok(None) => "no key".to_string(),
        Err(e) => format!("error {}", e),
    }
}

#[test]
fn console_vxw_c10_b_actor() {
    let rt = tokio::runtime::Builder::new_current_thread().enable_all().build().unwrap();
    let mut t = Tally::new();
    rt.block_on(async {
        // ---- every history of up to 3 replacements over 8 keys and "clear": the four getters show the last latched state
        let mut ops: Vec<St> = (0..KEYS.len()).map(Some).collect();
        ops.push(None);
        let mut histories: Vec<Vec<St>> = vec![vec![]];
        let mut frontier: Vec<Vec<St>> = vec![vec![]];
        for _ in 0..3 {
            let mut next = Vec::new();
            for h in frontier.iter() {
                for o in ops.iter() {
                    // length 3 only over a smaller alphabet
                    if h.len() == 2 && !matches!(o, None | Some(0) | Some(1) | Some(2) | Some(3)) {
                        continue;
                    }
                    let mut h2 = h.clone();
                    h2.push(*o);
                    next.push(h2);
                }
            }
            histories.extend(next.iter().cloned());
            frontier = next;
        }
        for h in histories.iter() {
            t.cases += 1;
            let kk = KeyKeeperSharedState::start_new();
            let mut cur: St = None;
            for (step, o) in h.iter().enumerate() {
                latch(&kk, *o).await;
                cur = *o;
                let rec = kk.get_current_key().await.map_err(|e| e.to_string());
                let guid = kk.get_current_key_guid().await.map_err(|e| e.to_string());
                let value = kk.get_current_key_value().await.map_err(|e| e.to_string());
                let inc = kk.get_current_key_incarnation().await.map_err(|e| e.to_string());
                let want_guid = cur.map(|i| KEYS[i].guid.to_string());
                let want_value = cur.map(|i| KEYS[i].value.to_string());
                let want_inc = cur.and_then(|i| if i == KE { None } else { Some(KEYS[i].inc) });
                let ok = matches!(&rec, Ok(r) if same_record(r, cur)) && guid == Ok(want_guid.clone()) && value == Ok(want_value.clone()) && inc == Ok(want_inc);
                if !ok {
                    t.fail(serde_json::json!({"property": "C10", "site": "key-keeper getters", "history": sts(&h[..=step]),
                        "got": {"get_current_key": show(&rec), "get_current_key_guid": format!("{:?}", guid), "get_current_key_value": format!("{:?}", value), "get_current_key_incarnation": format!("{:?}", inc)},
                        "want": st_name(cur)}));
                    break;
                }
            }
        }

        // ---- readers racing with a rotator: every record read in one round-trip is one latched state, never a mixture
        for alphabet in alphabets() {
            for readers in [1usize, 3, 40] {
                for yields in 0..4usize {
                    for order in 0..3u8 {
                        t.cases += 1;
                        let kk = KeyKeeperSharedState::start_new();
                        latch(&kk, alphabet[alphabet.len() - 1]).await;
                        let stop = Arc::new(AtomicBool::new(false));
                        let count = Arc::new(AtomicUsize::new(0));
                        let mut hs = Vec::new();
                        let mut rot = None;
                        for r in 0..readers {
                            if (order == 1 && r == 0) || (order == 2 && r == readers / 2) {
                                rot = Some(tokio::spawn(rotator(kk.clone(), alphabet.clone(), yields, stop.clone(), count.clone())));
                            }
                            let kk2 = kk.clone();
                            hs.push(tokio::spawn(async move {
                                let mut out = Vec::new();
                                for j in 0..6usize {
                                    out.push(kk2.get_current_key().await.map_err(|e| e.to_string()));
                                    for _ in 0..(j % 3) {
                                        tokio::task::yield_now().await;
                                    }
                                }
                                out
                            }));
                        }
                        if rot.is_none() {
                            rot = Some(tokio::spawn(rotator(kk.clone(), alphabet.clone(), yields, stop.clone(), count.clone())));
                        }
                        let mut bad: Vec<String> = Vec::new();
                        for h in hs {
                            for got in h.await.unwrap_or_default() {
                                let ok = matches!(&got, Ok(r) if alphabet.iter().any(|s| same_record(r, *s)));
                                if !ok {
                                    bad.push(show(&got));
                                }
                            }
                        }
                        stop.store(true, Ordering::SeqCst);
                        let _ = rot.unwrap().await;
                        if !bad.is_empty() {
                            bad.truncate(3);
                            t.fail(serde_json::json!({"property": "C10", "site": "get_current_key (one round-trip)",
                                "history": {"rotation": sts(&alphabet), "readers": readers, "yields_after_each_replacement": yields, "spawn_order": order, "replacements": count.load(Ordering::SeqCst)},
                                "got": bad, "want": {"one_of": sts(&alphabet)}}));
                        }
                    }
                }
            }
        }

        // ---- 300 readers at once (the actor's queue is full: senders wait) racing with a rotator
        for alphabet in alphabets() {
            for order in 0..2u8 {
                t.cases += 1;
                let kk = KeyKeeperSharedState::start_new();
                latch(&kk, alphabet[alphabet.len() - 1]).await;
                let stop = Arc::new(AtomicBool::new(false));
                let count = Arc::new(AtomicUsize::new(0));
                let mut rot = None;
                if order == 0 {
                    rot = Some(tokio::spawn(rotator(kk.clone(), alphabet.clone(), 0, stop.clone(), count.clone())));
                }
                let mut hs = Vec::new();
                for _ in 0..300 {
                    let kk2 = kk.clone();
                    hs.push(tokio::spawn(async move { (kk2.get_current_key().await.map_err(|e| e.to_string()), kk2.get_current_key().await.map_err(|e| e.to_string())) }));
                }
                if rot.is_none() {
                    rot = Some(tokio::spawn(rotator(kk.clone(), alphabet.clone(), 0, stop.clone(), count.clone())));
                }
                let mut bad = Vec::new();
                for h in hs {
                    if let Ok((a, b)) = h.await {
                        for got in [a, b] {
                            if !matches!(&got, Ok(r) if alphabet.iter().any(|s| same_record(r, *s))) {
                                bad.push(show(&got));
                            }
                        }
                    }
                }
                stop.store(true, Ordering::SeqCst);
                let _ = rot.unwrap().await;
                if !bad.is_empty() {
                    let n = bad.len();
                    bad.truncate(3);
                    t.fail(serde_json::json!({"property": "C10", "site": "get_current_key (one round-trip)",
                        "history": {"rotation": sts(&alphabet), "concurrent_readers": 300, "rotator_spawned_first": order == 0, "replacements": count.load(Ordering::SeqCst)},
                        "got": {"answers_that_are_no_latched_state": n, "examples": bad}, "want": {"one_of": sts(&alphabet)}}));
                }
            }
        }

        // ---- 300 readers at once (more than the actor's queue holds) while K1 stays latched; then readers whose reply is lost
        for which in 0..3u8 {
            t.cases += 1;
            let kk = KeyKeeperSharedState::start_new();
            latch(&kk, Some(K1)).await;
            let mut hs = Vec::new();
            for _ in 0..300 {
                let kk2 = kk.clone();
                hs.push(tokio::spawn(async move {
                    match which {
                        0 => kk2.get_current_key().await.map(|r| r.map(|k| (k.guid, k.key))).map_err(|e| e.to_string()),
                        1 => kk2.get_current_key_guid().await.map(|r| r.map(|g| (g, KEYS[K1].value.to_string()))).map_err(|e| e.to_string()),
                        _ => kk2.get_current_key_value().await.map(|r| r.map(|v| (KEYS[K1].guid.to_string(), v))).map_err(|e| e.to_string()),
                    }
                }));
            }
            let mut bad = Vec::new();
            for h in hs {
                let got = h.await.unwrap_or(Err("task failed".to_string()));
                if got != Ok(Some((KEYS[K1].guid.to_string(), KEYS[K1].value.to_string()))) {
                    bad.push(format!("{:?}", got));
                }
            }
            if !bad.is_empty() {
                let n = bad.len();
                bad.truncate(2);
                let site = ["get_current_key", "get_current_key_guid", "get_current_key_value"][which as usize];
                t.fail(serde_json::json!({"property": "C10", "site": site,
                    "history": {"latched": st_name(Some(K1)), "concurrent_readers": 300}, "got": {"readers_with_another_answer": n, "examples": bad}, "want": st_name(Some(K1))}));
            }
        }
        {
            t.cases += 1;
            let kk = KeyKeeperSharedState::start_new();
            latch(&kk, Some(K1)).await;
            let mut hs = Vec::new();
            for _ in 0..60 {
                let kk2 = kk.clone();
                hs.push(tokio::spawn(async move { kk2.get_current_key().await.map_err(|e| e.to_string()) }));
            }
            tokio::task::yield_now().await;
            for (i, h) in hs.iter().enumerate() {
                if i % 2 == 0 {
                    h.abort(); // the reply of this reader is lost
                }
            }
            latch(&kk, Some(K2)).await;
            let mut bad = Vec::new();
            for h in hs {
                if let Ok(got) = h.await {
                    if !matches!(&got, Ok(r) if same_record(r, Some(K1)) || same_record(r, Some(K2))) {
                        bad.push(show(&got));
                    }
                }
            }
            let after = kk.get_current_key().await.map_err(|e| e.to_string());
            if !matches!(&after, Ok(r) if same_record(r, Some(K2))) {
                bad.push(format!("after the replacement: {}", show(&after)));
            }
            if !bad.is_empty() {
                bad.truncate(3);
                t.fail(serde_json::json!({"property": "C10", "site": "get_current_key", "history": "K1 latched, 60 readers, every second one cancelled while waiting for its reply, K2 latched",
                    "got": bad, "want": "K1 or K2 records for the surviving readers, K2 afterwards"}));
            }
        }
    });
    t.done();
}

// ------------------------------------------------------------------------------------------------ B. the agent's own host calls
#[derive(Clone, Copy, Debug, PartialEq)]
enum Site {
    GoalState,
    SharedConfig,
    Imds,
}

struct Clients {
    ws: WireServerClient,
    imds: ImdsClient,
    port: u16,
}

impl Clients {
    async fn call(&self, s: Site) {
        match s {
            Site::GoalState => {
                let _ = self.ws.get_goalstate().await;
            }
            Site::SharedConfig => {
                let _ = self.ws.get_shared_config(format!("http://127.0.0.1:{}/machine/1234/role%5FIN%5F0?comp=config&type=sharedConfig&incarnation=16", self.port)).await;
            }
            Site::Imds => {
                let _ = self.imds.get_imds_instance_info().await;
            }
        }
    }
}

const SITES: [Site; 3] = [Site::GoalState, Site::SharedConfig, Site::Imds];

#[test]
fn console_vxw_c10_c_host_calls() {
    let rt = tokio::runtime::Builder::new_current_thread().enable_all().build().unwrap();
    let mut t = Tally::new();
    let host = MockHost::start();
    rt.block_on(async {
        let kk = KeyKeeperSharedState::start_new();
        // the clients exist before any key is latched and are used for the whole history
        let c = Arc::new(Clients { ws: WireServerClient::new("127.0.0.1", host.port, kk.clone()), imds: ImdsClient::new("127.0.0.1", host.port, kk.clone()), port: host.port });

        // ---- one call at a time along a history of replacements
        let history: Vec<St> = vec![None, Some(K1), Some(K2), Some(K1), None, Some(K1U), Some(K1), Some(K1R), Some(KH), Some(KL), Some(KN), Some(KE), None, Some(K2)];
        for (i, s) in history.iter().enumerate() {
            latch(&kk, *s).await;
            for site in SITES {
                c.call(site).await;
                let (_b, reqs) = host.take();
                t.check_all(&format!("{:?}", site), serde_json::json!({"latched_one_after_the_other": sts(&history[..=i]), "then": "one call"}), &reqs, &[*s], 1);
            }
        }

        // ---- hyper_client::get / build_request with a given pair; key::attest_key with a given key record
        for i in 0..KEYS.len() {
            let url: hyper::Uri = format!("http://127.0.0.1:{}/machine?comp=goalstate&x={}", host.port, i).parse().unwrap();
            let mut headers = std::collections::HashMap::new();
            headers.insert("x-ms-version".to_string(), "2012-11-30".to_string());
            let _ = hyper_client::get::<serde_json::Value, _>(&url, &headers, Some(KEYS[i].guid.to_string()), Some(KEYS[i].value.to_string()), |_m: String| {}).await;
            let (_b, reqs) = host.take();
            t.check_all("hyper_client::get", serde_json::json!({"given_pair": st_name(Some(i))}), &reqs, &[Some(i)], 1);

            for body in [None, Some(&b"<x>\xff\x00 body</x>"[..])] {
                if let Ok(request) = hyper_client::build_request(hyper::Method::POST, &url, &headers, body, Some(KEYS[i].guid.to_string()), Some(KEYS[i].value.to_string())) {
                    let _ = hyper_client::send_request("127.0.0.1", host.port, request, |_m: String| {}).await;
                }
                let (_b, reqs) = host.take();
                t.check_all("hyper_client::build_request", serde_json::json!({"given_pair": st_name(Some(i)), "body": body.is_some()}), &reqs, &[Some(i)], 1);
            }

            let base: hyper::Uri = format!("http://127.0.0.1:{}/", host.port).parse().unwrap();
            let _ = crate::key_keeper::key::attest_key(&base, &mk(i)).await;
            let (_b, reqs) = host.take();
            if i == KN {
                // the guid is part of the URL here; a URL cannot carry it verbatim: only what is emitted is checked
                t.check_all("key::attest_key", serde_json::json!({"key_to_attest": st_name(Some(i))}), &reqs, &[Some(i)], 0);
            } else {
                t.check_all("key::attest_key", serde_json::json!({"key_to_attest": st_name(Some(i))}), &reqs, &[Some(i)], 1);
            }
        }

        // ---- signers racing with a rotator (current-thread runtime: spawn order and yield points decide the interleaving)
        for alphabet in alphabets() {
            for site in SITES {
                for signers in [2usize, 24] {
                    for yields in 0..4usize {
                        for order in 0..3u8 {
                            latch(&kk, alphabet[alphabet.len() - 1]).await;
                            let stop = Arc::new(AtomicBool::new(false));
                            let count = Arc::new(AtomicUsize::new(0));
                            let mut hs = Vec::new();
                            let mut rot = None;
                            for r in 0..signers {
                                if (order == 1 && r == 0) || (order == 2 && r == signers / 2) {
                                    rot = Some(tokio::spawn(rotator(kk.clone(), alphabet.clone(), yields, stop.clone(), count.clone())));
                                }
                                let c2 = c.clone();
                                hs.push(tokio::spawn(async move {
                                    c2.call(site).await;
                                    if r % 2 == 0 {
                                        c2.call(site).await;
                                    }
                                }));
                            }
                            if rot.is_none() {
                                rot = Some(tokio::spawn(rotator(kk.clone(), alphabet.clone(), yields, stop.clone(), count.clone())));
                            }
                            for h in hs {
                                let _ = h.await;
                            }
                            stop.store(true, Ordering::SeqCst);
                            let _ = rot.unwrap().await;
                            let (_b, reqs) = host.take();
                            t.check_all(&format!("{:?}", site), serde_json::json!({"rotation": sts(&alphabet), "signers": signers, "yields_after_each_replacement": yields, "spawn_order": order, "replacements": count.load(Ordering::SeqCst)}),
                                &reqs, &alphabet, signers + (signers + 1) / 2);
                        }
                    }
                }
            }
        }

        // ---- 150 calls at once (the actor's queue is full: senders wait) racing with a rotator
        for alphabet in alphabets().iter().take(2) {
            for site in SITES {
                latch(&kk, alphabet[alphabet.len() - 1]).await;
                let stop = Arc::new(AtomicBool::new(false));
                let count = Arc::new(AtomicUsize::new(0));
                let mut hs = Vec::new();
                for _ in 0..150 {
                    let c2 = c.clone();
                    hs.push(tokio::spawn(async move { c2.call(site).await }));
                }
                let rot = tokio::spawn(rotator(kk.clone(), alphabet.clone(), 0, stop.clone(), count.clone()));
                for h in hs {
                    let _ = h.await;
                }
                stop.store(true, Ordering::SeqCst);
                let _ = rot.await;
                let (_b, reqs) = host.take();
                t.check_all(&format!("{:?}", site), serde_json::json!({"rotation": sts(alphabet), "concurrent_calls": 150, "replacements": count.load(Ordering::SeqCst)}), &reqs, alphabet, 150);
            }
        }

        // ---- 150 calls at once while K1 stays latched: every one is signed with K1
        for site in SITES {
            latch(&kk, Some(K1)).await;
            let mut hs = Vec::new();
            for _ in 0..150 {
                let c2 = c.clone();
                hs.push(tokio::spawn(async move { c2.call(site).await }));
            }
            for h in hs {
                let _ = h.await;
            }
            let (_b, reqs) = host.take();
            t.check_all(&format!("{:?}", site), serde_json::json!({"latched": st_name(Some(K1)), "concurrent_calls": 150}), &reqs, &[Some(K1)], 150);
        }
    });
    drop(rt);

    // ---- the same sites on two worker threads with a rotator that never pauses
    let rt = tokio::runtime::Builder::new_multi_thread().worker_threads(2).enable_all().build().unwrap();
    rt.block_on(async {
        let kk = KeyKeeperSharedState::start_new();
        let c = Arc::new(Clients { ws: WireServerClient::new("127.0.0.1", host.port, kk.clone()), imds: ImdsClient::new("127.0.0.1", host.port, kk.clone()), port: host.port });
        for alphabet in [alphabets()[0].clone(), alphabets()[1].clone(), alphabets()[2].clone()] {
            for site in SITES {
                latch(&kk, alphabet[alphabet.len() - 1]).await;
                let stop = Arc::new(AtomicBool::new(false));
                let count = Arc::new(AtomicUsize::new(0));
                let rot = tokio::spawn(rotator(kk.clone(), alphabet.clone(), 0, stop.clone(), count.clone()));
                let mut hs = Vec::new();
                for _ in 0..40 {
                    let c2 = c.clone();
                    hs.push(tokio::spawn(async move {
                        for _ in 0..5 {
                            c2.call(site).await;
                        }
                    }));
                }
                for h in hs {
                    let _ = h.await;
                }
                stop.store(true, Ordering::SeqCst);
                let _ = rot.await;
                let (_b, reqs) = host.take();
                t.check_all(&format!("{:?}", site), serde_json::json!({"rotation": sts(&alphabet), "signers": 40, "calls_per_signer": 5, "runtime": "2 worker threads", "replacements": count.load(Ordering::SeqCst)}), &reqs, &alphabet, 200);
            }
        }
    });
    t.done();
}

// ------------------------------------------------------------------------------------------------ C. proxied requests
fn shapes() -> Vec<(&'static str, &'static str, ReqBody)> {
    let mut bin: Vec<u8> = (0..=255u8).collect();
    bin.extend_from_slice(b"\r\n\r\n0\r\n\r\n");
    let big: Vec<u8> = (0..(64 * 1024 + 3)).map(|i| (i * 7 % 251) as u8).collect();
    vec![
        ("GET", "/machine?comp=goalstate", ReqBody::None),
        ("POST", "/machine/data?x=1&a=2", ReqBody::Len(bin.clone())),
        ("POST", "/metadata/upload?api-version=2021-01-01", ReqBody::Chunked(big[..3000].to_vec(), vec![7, 1000, 1])),
        ("PUT", "/machine/large?comp=blob", ReqBody::Len(big)),
        ("POST", "/machine/empty", ReqBody::Len(Vec::new())),
    ]
}

fn c10_hdrs() -> Vec<(String, String)> {
    vec![("Host".to_string(), "168.63.129.16".to_string()), ("Metadata".to_string(), "true".to_string()), ("x-ms-version".to_string(), "2012-11-30".to_string())]
}

/// split points of a request as written on the wire: inside the head, right after the head, inside the body
fn split_points(wire: &[u8]) -> Vec<(&'static str, usize)> {
    let he = vx_find(wire, b"\r\n\r\n", 0).unwrap() + 4;
    let mut v = vec![("inside the request head", he / 2)];
    if wire.len() > he {
        v.push(("after the head, before the first body byte", he));
        v.push(("in the middle of the body", he + (wire.len() - he) / 2));
        v.push(("before the last body byte", wire.len() - 1));
    }
    v
}

fn wait_host_requests(host: &MockHost, n: usize, ms: u64) -> bool {
    let t0 = std::time::Instant::now();
    loop {
        if host.st.0.lock().unwrap().reqs.len() >= n {
            return true;
        }
        if t0.elapsed() > Duration::from_millis(ms) {
            return false;
        }
        std::thread::sleep(Duration::from_millis(2));
    }
}

/// One request on `client`, written in two parts with the latched state replaced (by the witness, synchronously) between
/// the parts; returns the states that were latched at some instant of the request.
fn split_request(h: &Harness, client: &mut RawClient, wire: &[u8], at: usize, before: St, between: &[St]) -> Vec<St> {
    let mut allowed = vec![before];
    client.send(wire[..at].to_vec());
    std::thread::sleep(Duration::from_millis(40));
    for s in between.iter() {
        h.rt.block_on(latch(&h.shared.get_key_keeper_shared_state(), *s));
        allowed.push(*s);
    }
    client.send(wire[at..].to_vec());
    allowed
}

#[test]
fn console_vxw_c10_d_proxied() {
    let mut t = Tally::new();
    let attr = Attribution::full(true, "168.63.129.16", 80);
    {
        let h = Harness::new(true);
        let kk = h.shared.get_key_keeper_shared_state();
        let set = |s: St| h.rt.block_on(latch(&kk, s));

        // ---- one request at a time along a history of replacements (the ProxyServer exists before any key is latched)
        let history: Vec<St> = vec![None, Some(K1), Some(K2), Some(K1), None, Some(K1U), Some(K1), Some(K1R), Some(KH), Some(KL), Some(KN), Some(KE), None, Some(K2)];
        for (i, s) in history.iter().enumerate() {
            set(*s);
            for (method, target, body) in shapes().iter() {
                let (_r, _b, reqs) = h.one(&h.ps, &attr, vx_request_bytes(method, target, &c10_hdrs(), body), false);
                t.check_all("proxied request", serde_json::json!({"latched_one_after_the_other": sts(&history[..=i]), "then": format!("{} {} ({} body bytes)", method, target, body.bytes().len())}), &reqs, &[*s], 1);
            }
        }
        // requests the agent forwards without signing: whatever they carry must still be consistent
        set(Some(K1));
        for (method, target) in [("PUT", "/vmAgentLog"), ("POST", "/machine/?comp=telemetrydata")] {
            let (_r, _b, reqs) = h.one(&h.ps, &attr, vx_request_bytes(method, target, &c10_hdrs(), &ReqBody::Len(b"<log/>".to_vec())), false);
            t.check_all("proxied request (signature not required)", serde_json::json!({"latched": st_name(Some(K1)), "request": format!("{} {}", method, target)}), &reqs, &[Some(K1), None], 1);
        }

        // ---- the client supplies an authorization header of its own (a forged or replayed one): what reaches the host is still
        //      signed entirely with the latched key, or carries no authorization at all when no key is latched
        let mut known_seen: BTreeMap<String, (usize, String)> = BTreeMap::new();
        for state in [Some(K1), None] {
            set(state);
            for name in ["x-ms-azure-host-authorization", "X-Ms-Azure-Host-Authorization"] {
                for value in [format!("{} {} {}", C10_SCHEME, KEYS[K2].guid, "00".repeat(32)), format!("{} {} {}", C10_SCHEME, KEYS[K1].guid, "ab".repeat(32)), "garbage".to_string()] {
                    let mut requests: Vec<(&str, &str, ReqBody, bool)> = shapes().into_iter().take(2).map(|(m, u, b)| (m, u, b, true)).collect();
                    requests.push(("PUT", "/vmAgentLog", ReqBody::Len(b"<log/>".to_vec()), false));
                    requests.push(("POST", "/machine/?comp=telemetrydata", ReqBody::Len(b"<t/>".to_vec()), false));
                    for (method, target, body, signs) in requests.iter() {
                        let mut hd = c10_hdrs();
                        hd.push((name.to_string(), value.clone()));
                        let (_r, _b, reqs) = h.one(&h.ps, &attr, vx_request_bytes(method, target, &hd, body), false);
                        let id = match (state.is_some(), *signs) {
                            (true, true) => "client-supplied authorization header, key latched",
                            (true, false) => "client-supplied authorization header, key latched, request forwarded without signing",
                            (false, _) => "client-supplied authorization header, no key latched",
                        };
                        let history = serde_json::json!({"case": id, "latched": st_name(state), "request": format!("{} {}", method, target), "client_header": format!("{}: {}", name, value)});
                        if C10_KNOWN.contains(&id) {
                            t.cases += 1;
                            for q in reqs.iter() {
                                if let Some((problem, got)) = check_req(q, &[state, None]) {
                                    let e = known_seen.entry(id.to_string()).or_insert((0, format!("{} {}", problem, got)));
                                    e.0 += 1;
                                }
                            }
                        } else {
                            // a request that needs no signature may go out unsigned; whatever authorization it carries must be the agent's
                            let allowed: Vec<St> = if *signs { vec![state] } else { vec![state, None] };
                            t.check_all("proxied request", history, &reqs, &allowed, 1);
                        }
                    }
                }
            }
        }
        for (id, (n, example)) in known_seen.iter() {
            println!("VXW-NOTE C10 KNOWN contradiction on the unchanged tree, not counted: '{}' x{}: e.g. {}", id, n, example);
        }

        // ---- the key is replaced at a chosen point of the request: connection open / head partly sent / head sent / body partly sent
        let pairs: Vec<(St, Vec<St>)> = vec![
            (Some(K1), vec![Some(K2)]), (Some(K2), vec![Some(K1)]), (Some(K1), vec![None, Some(K2)]), (Some(K1), vec![None]), (None, vec![Some(K1)]),
            (Some(K1), vec![Some(K1R)]), (Some(K1), vec![Some(K1U)]), (Some(KH), vec![Some(K2)]), (Some(K1), vec![Some(K2), Some(K1)]), (Some(K1), vec![None, Some(K1)]),
        ];
        for (before, between) in pairs.iter() {
            for (si, (method, target, body)) in shapes().iter().enumerate() {
                if si == 3 && between.len() > 1 {
                    continue;
                }
                let wire = vx_request_bytes(method, target, &c10_hdrs(), body);
                // (a) replaced after the connection was accepted and attributed, before the first request byte
                {
                    set(*before);
                    let mut conn = h.connect(&attr);
                    std::thread::sleep(Duration::from_millis(10));
                    for s in between.iter() {
                        set(*s);
                    }
                    conn.client.send(wire.clone());
                    let _ = conn.client.recv(false);
                    let (_b, reqs) = h.finish(conn);
                    t.check_all("proxied request", serde_json::json!({"latched": st_name(*before), "then": "connection accepted", "then_latched": sts(between), "then_request": format!("{} {}", method, target)}), &reqs, &[*between.last().unwrap()], 1);
                }
                // (b) replaced while the request is being uploaded
                for (where_, at) in split_points(&wire) {
                    set(*before);
                    let mut conn = h.connect(&attr);
                    let allowed = split_request(&h, &mut conn.client, &wire, at, *before, between);
                    let _ = conn.client.recv(false);
                    let (_b, reqs) = h.finish(conn);
                    t.check_all("proxied request", serde_json::json!({"latched": st_name(*before), "request": format!("{} {} ({} body bytes)", method, target, body.bytes().len()), "upload_paused": where_, "latched_during_the_pause": sts(between)}), &reqs, &allowed, 1);
                }
            }
        }

        // ---- keep-alive connection: request, replacement, request (the second one also split)
        for (before, between) in pairs.iter() {
            for (method, target, body) in shapes().iter().take(3) {
                let wire = vx_request_bytes(method, target, &c10_hdrs(), body);
                set(*before);
                let mut conn = h.connect(&attr);
                conn.client.send(wire.clone());
                let _ = conn.client.recv(false);
                wait_host_requests(&h.host, 1, 2000);
                let (_b, first) = h.host.take();
                t.check_all("proxied request", serde_json::json!({"latched": st_name(*before), "request": format!("first request {} {} on a keep-alive connection", method, target)}), &first, &[*before], 1);
                for s in between.iter() {
                    set(*s);
                }
                let now = *between.last().unwrap();
                conn.client.send(wire.clone());
                let _ = conn.client.recv(false);
                wait_host_requests(&h.host, 1, 2000);
                let (_b, second) = h.host.take();
                t.check_all("proxied request", serde_json::json!({"latched": st_name(*before), "then": "first request answered", "then_latched": sts(between), "request": format!("second request {} {} on the same connection", method, target)}), &second, &[now], 1);
                // third request on the same connection, split, rotated back
                let he = vx_find(&wire, b"\r\n\r\n", 0).unwrap() + 4;
                let allowed = split_request(&h, &mut conn.client, &wire, he, now, &[*before]);
                let _ = conn.client.recv(false);
                let (_b, third) = h.finish(conn);
                t.check_all("proxied request", serde_json::json!({"latched": st_name(now), "request": format!("third request {} {} on the same connection", method, target), "upload_paused": "after the head", "latched_during_the_pause": sts(&[*before])}), &third, &allowed, 1);
            }
        }

        // ---- the same through the real listener path (where the kernel lets the test create the audit map)
        let audit_map = h.install_audit_map();
        println!("VXW-NOTE C10 real listener path (handle_new_tcp_connection with a kernel audit map): {}", if audit_map.is_some() { "exercised" } else { "not available here" });
        if let Some(map) = audit_map {
            for (before, between) in pairs.iter().take(5) {
                for (method, target, body) in shapes().iter().take(3) {
                    let wire = vx_request_bytes(method, target, &c10_hdrs(), body);
                    for (where_, at) in split_points(&wire) {
                        set(*before);
                        let mut client = h.connect_real(&h.ps, Some((&map, true)));
                        let allowed = split_request(&h, &mut client, &wire, at, *before, between);
                        let _ = client.recv(false);
                        let (_b, reqs) = h.finish_real(client);
                        t.check_all("proxied request (real listener path)", serde_json::json!({"latched": st_name(*before), "request": format!("{} {}", method, target), "upload_paused": where_, "latched_during_the_pause": sts(between)}), &reqs, &allowed, 1);
                    }
                }
            }
        }

        // ---- connections served on two worker threads while a rotator runs
        for (alphabet, yields) in [(alphabets()[0].clone(), 1usize), (alphabets()[1].clone(), 1), (alphabets()[0].clone(), 0), (alphabets()[0].clone(), 0), (alphabets()[3].clone(), 0)].iter() {
            let stop = Arc::new(AtomicBool::new(false));
            let count = Arc::new(AtomicUsize::new(0));
            let rot = h.rt.spawn(rotator(kk.clone(), alphabet.clone(), *yields, stop.clone(), count.clone()));
            let mut conns = Vec::new();
            for i in 0..60usize {
                let (method, target, body) = shapes()[i % 3].clone();
                let mut conn = h.connect(&attr);
                conn.client.send(vx_request_bytes(method, target, &c10_hdrs(), &body));
                conns.push(conn);
            }
            for c in conns.iter_mut() {
                let _ = c.client.recv(false);
            }
            stop.store(true, Ordering::SeqCst);
            let _ = h.rt.block_on(rot);
            for c in conns {
                c.client.close();
                let task = c.task;
                let _ = h.rt.block_on(async { tokio::time::timeout(Duration::from_secs(10), task).await });
            }
            let (_b, reqs) = h.settle();
            t.check_all("proxied request", serde_json::json!({"rotation": sts(alphabet), "concurrent_connections": 60, "runtime": "2 worker threads", "yields_after_each_replacement": yields, "replacements": count.load(Ordering::SeqCst)}), &reqs, alphabet, 60);
        }
    }

    // ---- many connections racing with a rotator on a current-thread runtime
    {
        let h = Harness::new(false);
        let kk = h.shared.get_key_keeper_shared_state();
        let mut plan: Vec<(Vec<St>, usize, u8, usize)> = Vec::new();
        for alphabet in alphabets() {
            for yields in 0..4usize {
                for order in 0..2u8 {
                    plan.push((alphabet.clone(), yields, order, 24));
                }
            }
        }
        // the key keeper's queue is full: senders wait
        plan.push((alphabets()[0].clone(), 0, 0, 160));
        plan.push((alphabets()[1].clone(), 0, 1, 160));
        let sh = shapes();
        {
            {
                for (alphabet, yields, order, n_conn) in plan {
                    #[allow(non_snake_case)]
                    let N: usize = n_conn;
                    h.rt.block_on(latch(&kk, alphabet[alphabet.len() - 1]));
                    let mut clients = Vec::new();
                    let mut pending = Vec::new();
                    for i in 0..N {
                        let (method, target, body) = sh[i % 3].clone();
                        let (mut client, ctx, stream) = h.connect_only(&attr);
                        let mut hd = c10_hdrs();
                        hd.push(("Connection".to_string(), "close".to_string()));
                        client.send(vx_request_bytes(method, target, &hd, &body));
                        clients.push(client);
                        pending.push((ctx, stream));
                    }
                    let ps = h.ps.clone();
                    let stop = Arc::new(AtomicBool::new(false));
                    let count = Arc::new(AtomicUsize::new(0));
                    h.rt.block_on(async {
                        let mut tasks = Vec::new();
                        let mut rot = None;
                        if order == 0 {
                            rot = Some(tokio::spawn(rotator(kk.clone(), alphabet.clone(), yields, stop.clone(), count.clone())));
                        }
                        for (ctx, stream) in pending {
                            tasks.push(tokio::spawn(vx_serve(ps.clone(), ctx, stream)));
                        }
                        if rot.is_none() {
                            rot = Some(tokio::spawn(rotator(kk.clone(), alphabet.clone(), yields, stop.clone(), count.clone())));
                        }
                        for task in tasks {
                            let _ = tokio::time::timeout(Duration::from_secs(20), task).await;
                        }
                        stop.store(true, Ordering::SeqCst);
                        let _ = rot.unwrap().await;
                        // let the released upstream connections close
                        tokio::time::sleep(Duration::from_millis(5)).await;
                    });
                    for mut c in clients {
                        let _ = c.recv(false);
                        c.close();
                    }
                    let (_b, reqs) = h.host.take();
                    t.check_all("proxied request", serde_json::json!({"rotation": sts(&alphabet), "concurrent_connections": N, "runtime": "current thread", "yields_after_each_replacement": yields, "rotator_spawned_first": order == 0, "replacements": count.load(Ordering::SeqCst)}), &reqs, &alphabet, N);
                }
            }
        }
    }
    t.done();
}

// ------------------------------------------------------------------------------------------------ D. the real poll loop rotates
struct KkState {
    channel: &'static str, // secureChannelState of the status document
    status_guid: Option<String>,
    offered: usize, // the key POST /secure-channel/key hands out
    attests: Vec<RecReq>,
    acquired: usize,
}

#[derive(Clone)]
struct KkHost {
    port: u16,
    st: Arc<StdMutex<KkState>>,
}

fn kk_conn(mut s: std::net::TcpStream, st: Arc<StdMutex<KkState>>) {
    let _ = s.set_nodelay(true);
    let mut buf: Vec<u8> = Vec::new();
    let mut tmp = vec![0u8; 16384];
    loop {
        while let Some((req, used)) = vx_try_request(&buf) {
            buf.drain(..used);
            let json = |v: serde_json::Value| MockResp { status: 200, headers: vec![("content-type".to_string(), "application/json; charset=utf-8".to_string())], body: RespBody::Len(v.to_string().into_bytes()) };
            let resp = {
                let mut g = st.lock().unwrap();
                if req.method == "GET" && req.target == "/secure-channel/status" {
                    json(serde_json::json!({"authorizationScheme": C10_SCHEME, "keyDeliveryMethod": "http", "keyGuid": g.status_guid, "requiredClaimsHeaderPairs": ["isRoot"], "secureChannelState": g.channel, "version": "1.0"}))
                } else if req.method == "POST" && req.target == "/secure-channel/key" {
                    g.acquired += 1;
                    json(key_json(g.offered))
                } else if req.method == "POST" && req.target.starts_with("/secure-channel/key/") && req.target.ends_with("/key-attestation") {
                    let guid = req.target["/secure-channel/key/".len()..req.target.len() - "/key-attestation".len()].to_string();
                    g.attests.push(req.clone());
                    g.status_guid = Some(guid);
                    MockResp { status: 200, headers: vec![], body: RespBody::Len(Vec::new()) }
                } else {
                    MockResp { status: 404, headers: vec![], body: RespBody::Len(Vec::new()) }
                }
            };
            if !matches!(vx_write_resp(&mut s, &resp, false), Ok(true)) {
                return;
            }
        }
        match s.read(&mut tmp) {
            Ok(0) | Err(_) => return,
            Ok(n) => buf.extend_from_slice(&tmp[..n]),
        }
    }
}

impl KkHost {
    fn start() -> KkHost {
        let l = std::net::TcpListener::bind("127.0.0.1:0").expect("key keeper host bind");
        let port = l.local_addr().unwrap().port();
        let st = Arc::new(StdMutex::new(KkState { channel: "Disabled", status_guid: None, offered: K1, attests: Vec::new(), acquired: 0 }));
        let st2 = st.clone();
        std::thread::spawn(move || {
            for s in l.incoming() {
                match s {
                    Ok(s) => {
                        let st3 = st2.clone();
                        std::thread::spawn(move || kk_conn(s, st3));
                    }
                    Err(_) => break,
                }
            }
        });
        KkHost { port, st }
    }
}

fn work_dir() -> std::path::PathBuf {
    let mut d = std::env::temp_dir();
    d.push(format!("vxw_c10_{}_{}", std::process::id(), std::time::SystemTime::now().duration_since(std::time::UNIX_EPOCH).map(|d| d.as_nanos()).unwrap_or(0)));
    d
}

#[test]
fn console_vxw_c10_a_poll_loop() {
    let mut t = Tally::new();
    let dir = work_dir();
    let _ = std::fs::create_dir_all(&dir);
    let h = Harness::new(true);
    let kkh = KkHost::start();
    let kk = h.shared.get_key_keeper_shared_state();
    let attr = Attribution::full(true, "168.63.129.16", 80);
    let clients = Clients { ws: WireServerClient::new("127.0.0.1", h.host.port, kk.clone()), imds: ImdsClient::new("127.0.0.1", h.host.port, kk.clone()), port: h.host.port };
    let keeper = crate::key_keeper::KeyKeeper::new(format!("http://127.0.0.1:{}/", kkh.port).parse().unwrap(), dir.join("keys"), dir.join("logs"), Duration::from_millis(15), &h.shared);
    h.rt.spawn(async move { keeper.poll_secure_channel_status().await });

    // every signing site once; what reached the host
    let round = |h: &Harness| -> Vec<RecReq> {
        let mut reqs = Vec::new();
        for (method, target, body) in shapes().iter().take(3) {
            reqs.extend(h.one(&h.ps, &attr, vx_request_bytes(method, target, &c10_hdrs(), body), false).2);
        }
        for site in SITES {
            h.rt.block_on(clients.call(site));
        }
        reqs.extend(h.host.take().1);
        reqs
    };
    // wait until the actor shows the expected state (public getter); false on timeout
    let converge = |h: &Harness, wants: &[St]| -> bool {
        let t0 = std::time::Instant::now();
        loop {
            let got = h.rt.block_on(kk.get_current_key()).ok().flatten();
            if wants.iter().any(|w| same_record(&got, *w)) {
                return true;
            }
            if t0.elapsed() > Duration::from_secs(4) {
                return false;
            }
            std::thread::sleep(Duration::from_millis(5));
        }
    };
    let mut story: Vec<String> = Vec::new();
    let mut phase = |t: &mut Tally, story: &mut Vec<String>, what: &str, during: &[St], wants: &[St]| {
        story.push(what.to_string());
        // while the poll loop is at work
        let reqs = round(&h);
        t.check_all("all signing sites, poll loop rotating", serde_json::json!({"key_keeper_host": story.clone(), "requests": "while the poll loop reacts"}), &reqs, during, 6);
        let ok = converge(&h, wants);
        if !ok {
            let got = h.rt.block_on(kk.get_current_key()).map_err(|e| e.to_string());
            t.cases += 1;
            t.fail(serde_json::json!({"property": "C10", "site": "poll loop", "history": {"key_keeper_host": story.clone()}, "got": {"latched_after_4s": show(&got)}, "want": {"one_of": sts(wants)}}));
        }
        for _ in 0..2 {
            let reqs = round(&h);
            t.check_all("all signing sites, after the poll loop latched", serde_json::json!({"key_keeper_host": story.clone(), "requests": "after the poll loop settled"}), &reqs, wants, 6);
        }
    };

    phase(&mut t, &mut story, "secure channel disabled", &[None], &[None]);
    {
        let mut g = kkh.st.lock().unwrap();
        g.channel = "Wireserver";
        g.offered = K1;
        g.status_guid = None;
    }
    phase(&mut t, &mut story, "secure channel enabled, host hands out K1", &[None, Some(K1)], &[Some(K1)]);
    {
        let mut g = kkh.st.lock().unwrap();
        g.offered = K2;
        g.status_guid = Some(KEYS[K2].guid.to_string());
    }
    phase(&mut t, &mut story, "host announces K2 (not known locally) and hands it out", &[Some(K1), Some(K2)], &[Some(K2)]);
    {
        let mut g = kkh.st.lock().unwrap();
        g.channel = "Disabled";
    }
    phase(&mut t, &mut story, "secure channel disabled", &[Some(K2), None], &[None]);
    {
        let mut g = kkh.st.lock().unwrap();
        g.channel = "WireserverAndImds";
        g.offered = KL;
        g.status_guid = Some(KEYS[K1].guid.to_string());
    }
    phase(&mut t, &mut story, "secure channel enabled, host announces K1 again (stored locally)", &[None, Some(K1)], &[Some(K1)]);
    {
        let mut g = kkh.st.lock().unwrap();
        g.offered = KH;
        g.status_guid = Some(KEYS[KH].guid.to_string());
    }
    phase(&mut t, &mut story, "host announces KH (guid is a hex string) and hands it out", &[Some(K1), Some(KH)], &[Some(KH)]);
    {
        let mut g = kkh.st.lock().unwrap();
        g.offered = K1U;
        g.status_guid = Some(KEYS[K1U].guid.to_string());
    }
    phase(&mut t, &mut story, "host announces K1U (K1's guid in upper case, another secret) and hands it out", &[Some(KH), Some(K1U)], &[Some(K1U)]);

    {
        let mut g = kkh.st.lock().unwrap();
        g.offered = KL;
        g.status_guid = Some("dead0000-0000-4000-8000-00000000beef".to_string());
    }
    phase(&mut t, &mut story, "host announces a guid it has no key for and hands out KL", &[Some(K1U), Some(KL)], &[Some(KL)]);

    // ---- key files whose record does not carry the guid of the file name (stale / copied / renamed file, other letter case):
    //      the host knows both records; whatever the agent latches from such a file, id and MAC must belong to ONE record
    let plant = |file_guid: &str, record: usize| {
        let _ = std::fs::create_dir_all(dir.join("keys"));
        std::fs::write(dir.join("keys").join(format!("{}.key", file_guid)), key_json(record).to_string()).expect("write key file");
    };
    plant(KEYS[K3].guid, K2);
    {
        let mut g = kkh.st.lock().unwrap();
        g.offered = K3;
        g.status_guid = Some(KEYS[K3].guid.to_string());
    }
    phase(&mut t, &mut story, "key file <K3 guid>.key holds the record of K2; host announces K3 (would hand out K3)", &[Some(KL), Some(K2), Some(K3)], &[Some(K2), Some(K3)]);
    plant(KEYS[K1U].guid, K1);
    {
        let mut g = kkh.st.lock().unwrap();
        g.offered = K1U;
        g.status_guid = Some(KEYS[K1U].guid.to_string());
    }
    phase(&mut t, &mut story, "key file <K1U guid>.key holds the record of K1 (same guid in lower case, another secret); host announces K1U", &[Some(K2), Some(K3), Some(K1), Some(K1U)], &[Some(K1), Some(K1U)]);
    {
        let mut g = kkh.st.lock().unwrap();
        g.channel = "Disabled";
    }
    phase(&mut t, &mut story, "secure channel disabled", &[Some(K1), Some(K1U), None], &[None]);
    plant(KEYS[K1].guid, K1U);
    plant(KEYS[KH].guid, KL);
    {
        let mut g = kkh.st.lock().unwrap();
        g.channel = "Wireserver";
        g.offered = K1;
        g.status_guid = Some(KEYS[K1].guid.to_string());
    }
    phase(&mut t, &mut story, "key file <K1 guid>.key holds the record of K1U (guid in upper case); secure channel enabled, host announces K1", &[None, Some(K1), Some(K1U)], &[Some(K1), Some(K1U)]);
    {
        let mut g = kkh.st.lock().unwrap();
        g.offered = KH;
        g.status_guid = Some(KEYS[KH].guid.to_string());
    }
    phase(&mut t, &mut story, "key file <KH guid>.key holds the record of KL; host announces KH", &[Some(K1), Some(K1U), Some(KL), Some(KH)], &[Some(KL), Some(KH)]);

    // the attestation requests: the id in the header is the guid in the URL and the MAC is under that key's secret
    let attests = std::mem::take(&mut kkh.st.lock().unwrap().attests);
    for q in attests.iter() {
        let guid = q.target["/secure-channel/key/".len()..q.target.len() - "/key-attestation".len()].to_string();
        let allowed: Vec<St> = (0..KEYS.len()).filter(|i| KEYS[*i].guid == guid && *i != K1R).map(Some).collect();
        t.check_all("key attestation (poll loop)", serde_json::json!({"key_keeper_host": story.clone(), "attested_guid": guid}), std::slice::from_ref(q), &allowed, 1);
    }
    t.cases += 1;
    if attests.len() < 5 {
        t.fail(serde_json::json!({"property": "C10", "site": "key attestation (poll loop)", "history": {"key_keeper_host": story.clone()}, "got": format!("{} attestation requests", attests.len()), "want": "one signed attestation for each of K1, K2, KH, K1U, KL"}));
    }

    h.shared.get_cancellation_token().cancel();
    std::thread::sleep(Duration::from_millis(50));
    drop(h);
    let _ = std::fs::remove_dir_all(&dir);
    t.done();
}
