// Witness generator for C01 (complete mediation), compiled into the real crate as a child module of proxy_server.rs.
// Drives the REAL ProxyServer::handle_new_http_request end to end on loopback (see handler_harness.inc.rs).
// Oracle = the statement: a request is relayed ONLY IF its connection is attributed (caller and destination known) and the
// policy in force authorizes the caller for the URL. In every other case (direct connection / unknown caller, path with '..',
// policy lookup failure, enforced denial, the built-in refusals of C03) the mock host receives ZERO bytes and the client
// gets an error status out of 404/421/500/403 that belongs to one of the reasons present.
// The "if" direction (authorized => relayed unchanged) is C14's, not checked here (only one sanity probe of the harness).
#![allow(dead_code, unused_imports, clippy::all)]
include!("/verif/witness/handler_harness.inc.rs");

#[test]
fn console_vxw_c01() {
    let h = Harness::new(true);
    let mut n = 0u64;

    // harness sanity (not a property check): an attributed, authorized request must reach the mock host, otherwise the
    // zero-byte oracle below would be vacuous
    h.set_rules(&|| None);
    let (r, b, reqs) = h.one(&h.ps, &Attribution::full(true, "168.63.129.16", 80), vx_request_bytes("GET", "/machine?comp=goalstate", &[("Host".to_string(), "168.63.129.16".to_string())], &ReqBody::None), false);
    assert!(b > 0 && reqs.len() == 1 && vx_status(&r) == 200, "harness sanity: authorized request not relayed (status {}, {} bytes upstream)", vx_status(&r), b);

    let dests: [(&str, u16, &str); 6] = [
        ("168.63.129.16", 80, "wireserver"), ("168.63.129.16", 32526, "hostga"), ("169.254.169.254", 80, "imds"),
        ("127.0.0.1", 3080, "self"), ("10.0.0.4", 80, "other"), ("168.63.129.16", 8080, "other"),
    ];
    // (method, target, body)
    let requests: Vec<(&str, &str, ReqBody)> = vec![
        ("GET", "/machine?comp=goalstate", ReqBody::None),
        ("POST", "/machine/upload?x=1", ReqBody::Len(b"0123456789".to_vec())),
        ("GET", "/machine/../secret?comp=goalstate", ReqBody::None),
        ("PUT", "/machine/..", ReqBody::Chunked(b"abcdefgh".to_vec(), vec![3])),
        // the two signature-exempt uploads (any letter case): exempt from SIGNING, not from authorization
        ("PUT", "/vmAgentLog", ReqBody::Len(b"log line".to_vec())),
        ("POST", "/MACHINE/?comp=TelemetryData", ReqBody::Len(b"<t/>".to_vec())),
    ];
    // None = no rule set received for the endpoints
    let mut configs: Vec<Option<(&str, &str, u8)>> = vec![None];
    // the mode of a rule set is matched without regard to letter case (the host documents "Enforce"; the agent's own status report lower-cases it)
    for mode in ["disabled", "audit", "enforce", "Enforce", "ENFORCE", "Audit"] {
        for da in ["allow", "deny"] {
            for kind in 0u8..4 {
                configs.push(Some((mode, da, kind)));
            }
        }
    }

    let check = |n: &mut u64, desc: serde_json::Value, reasons: &[(bool, u16)], r: &Result<ClientResp, String>, bytes: usize, reqs: &Vec<RecReq>| {
        *n += 1;
        let must_not_relay = reasons.iter().any(|(c, _)| *c);
        if !must_not_relay {
            return;
        }
        let acceptable: Vec<u16> = reasons.iter().filter(|(c, _)| *c).map(|(_, s)| *s).collect();
        let st = vx_status(r);
        if bytes != 0 || !acceptable.contains(&st) {
            vx_fail(serde_json::json!({"property": "C01", "input": desc,
                "got": {"client_status": st, "client_error": r.as_ref().err(), "bytes_at_host": bytes, "requests_at_host": reqs.iter().map(|q| format!("{} {}", q.method, q.target)).collect::<Vec<_>>()},
                "want": {"bytes_at_host": 0, "client_status_one_of": acceptable}}));
        }
    };

    // ---- attributed connections: destination x elevation x rules x request
    for cfg in configs.iter() {
        for elevated in [false, true] {
            let caller = if elevated { "root" } else { "alice" };
            h.set_rules(&|| cfg.map(|(m, d, k)| vx_rules(m, d, k, caller)));
            for (ip, port, ep) in dests.iter() {
                for (method, target, body) in requests.iter() {
                    let wire = vx_request_bytes(method, target, &[("Host".to_string(), ip.to_string()), ("x-ms-version".to_string(), "2012-11-30".to_string())], body);
                    let (r, bytes, reqs) = h.one(&h.ps, &Attribution::full(elevated, ip, *port), wire, false);
                    let traversal = target.split('?').next().unwrap().contains("..");
                    let rules_apply = matches!(*ep, "wireserver" | "hostga" | "imds");
                    let builtin_refusal = *ep == "self" || (matches!(*ep, "wireserver" | "hostga") && !elevated);
                    // the rule sets of vx_rules speak about paths under /machine: for a request outside it (PUT /vmAgentLog) the privilege
                    // never matches and the default access decides
                    let under_machine = target.to_lowercase().starts_with("/machine");
                    let enforced_denial = rules_apply && matches!(cfg, Some((m, da, kind)) if m.eq_ignore_ascii_case("enforce") && (if under_machine || *kind == 3 { !vx_rules_allow(da, *kind) } else { *da != "allow" }));
                    check(&mut n,
                        serde_json::json!({"attributed": true, "elevated": elevated, "destination": format!("{}:{}", ip, port), "rules": cfg.map(|(m, d, k)| format!("{}/{}/kind{}", m, d, k)), "request": format!("{} {}", method, target), "body_bytes": body.bytes().len()}),
                        &[(traversal, 404), (builtin_refusal || enforced_denial, 403)], &r, bytes, &reqs);
                }
            }
        }
    }

    // ---- the three endpoints have rule sets of their OWN: the one of the connection's original destination decides, whatever the
    //      other two say (deny-all in force for one endpoint, the others absent / allow-all / audit)
    for (ei, (ip, port, ep)) in dests.iter().take(3).enumerate() {
        for others in [None, Some(("enforce", "allow", 3u8)), Some(("audit", "deny", 3u8))] {
            let mk = |i: usize| if i == ei { Some(vx_rules("enforce", "deny", 3, "root")) } else { others.map(|(m, d, k)| vx_rules(m, d, k, "root")) };
            h.set_rules_each(&|| mk(0), &|| mk(2), &|| mk(1));
            for (method, target, body) in requests.iter().take(2) {
                let wire = vx_request_bytes(method, target, &[("Host".to_string(), ip.to_string())], body);
                let (r, bytes, reqs) = h.one(&h.ps, &Attribution::full(true, ip, *port), wire, false);
                check(&mut n,
                    serde_json::json!({"attributed": true, "elevated": true, "destination": format!("{}:{} ({})", ip, port, ep), "rules_of_this_endpoint": "enforce/deny (no privilege)",
                        "rules_of_the_other_two_endpoints": others.map(|(m, d, k)| format!("{}/{}/kind{}", m, d, k)), "request": format!("{} {}", method, target)}),
                    &[(true, 403)], &r, bytes, &reqs);
            }
        }
    }
    h.set_rules(&|| None);

    // ---- every shape of a path that CONTAINS ".." (whole segment, glued to other text, encoded separators after it, at the
    //      start / end, three dots), on attributed and fully authorized connections: 404, zero bytes upstream
    let dotdot_paths = [
        "/machine/../admin", "/machine/..", "/..", "/../machine", "/machine/..%2f..%2fadmin", "/machine/..%5Cadmin", "/machine/..;/admin",
        "/machine/...//admin", "/machine/a..b", "/machine/..hidden", "/machine/x..", "/machine/x../y", "/..machine", "/machine/.../x",
        "/metadata/instance/..%2fidentity", "/machine/%2e./..x",
    ];
    for cfg in [None, Some(("enforce", "allow", 3u8)), Some(("audit", "allow", 3u8)), Some(("disabled", "allow", 3u8))] {
        h.set_rules(&|| cfg.map(|(m, d, k)| vx_rules(m, d, k, "root")));
        for (ip, port) in [("168.63.129.16", 80u16), ("169.254.169.254", 80), ("168.63.129.16", 32526), ("10.0.0.4", 80)] {
            for path in dotdot_paths.iter() {
                for (method, q, body) in [("GET", "?comp=goalstate", ReqBody::None), ("POST", "", ReqBody::Len(b"0123456789".to_vec()))] {
                    let target = format!("{}{}", path, q);
                    let wire = vx_request_bytes(method, &target, &[("Host".to_string(), ip.to_string())], &body);
                    let (r, bytes, reqs) = h.one(&h.ps, &Attribution::full(true, ip, port), wire, false);
                    check(&mut n,
                        serde_json::json!({"attributed": true, "elevated": true, "destination": format!("{}:{}", ip, port), "rules": cfg.map(|(m, d, k)| format!("{}/{}/kind{}", m, d, k)), "request": format!("{} {}", method, target), "path_contains_dotdot": true}),
                        &[(true, 404)], &r, bytes, &reqs);
                }
            }
        }
    }

    // ---- connections that are not (fully) attributed; the upstream sender IS connected where the harness builds the context,
    //      so a handler that forgot the check would really relay
    let variants: Vec<(&str, Attribution)> = vec![
        ("direct connection (real TcpConnectionContext::new, no audit record)", Attribution { claims: None, destination: None, upstream: false, real_new: true }),
        ("no caller, no destination", Attribution { claims: None, destination: None, upstream: true, real_new: false }),
        ("destination known, caller unknown", Attribution { claims: None, destination: Some(("169.254.169.254".parse().unwrap(), 80)), upstream: true, real_new: false }),
        ("destination known (wireserver), caller unknown", Attribution { claims: None, destination: Some(("168.63.129.16".parse().unwrap(), 80)), upstream: true, real_new: false }),
        ("caller known (elevated), destination unknown", Attribution { claims: Some(vx_claims(true)), destination: None, upstream: true, real_new: false }),
        ("caller known, destination unknown", Attribution { claims: Some(vx_claims(false)), destination: None, upstream: true, real_new: false }),
    ];
    for cfg in [None, Some(("enforce", "allow", 3u8)), Some(("audit", "deny", 3u8)), Some(("disabled", "deny", 3u8))] {
        h.set_rules(&|| cfg.map(|(m, d, k)| vx_rules(m, d, k, "root")));
        for (vname, attr) in variants.iter() {
            for (method, target, body) in requests.iter() {
                let wire = vx_request_bytes(method, target, &[("Host".to_string(), "169.254.169.254".to_string()), ("Metadata".to_string(), "true".to_string())], body);
                let (r, bytes, reqs) = h.one(&h.ps, attr, wire, false);
                let traversal = target.split('?').next().unwrap().contains("..");
                check(&mut n,
                    serde_json::json!({"attributed": false, "variant": vname, "rules": cfg.map(|(m, d, k)| format!("{}/{}/kind{}", m, d, k)), "request": format!("{} {}", method, target)}),
                    &[(traversal, 404), (true, 421)], &r, bytes, &reqs);
            }
        }
    }

    // ---- policy lookup failure: the key keeper state task is gone, every read of the rules fails
    for (mode, da) in [("enforce", "deny"), ("audit", "allow"), ("disabled", "allow")] {
        let mut ps = h.ps.clone();
        ps.key_keeper_shared_state = vx_dead_key_keeper(mode, da);
        for (ip, port, ep) in dests.iter().take(3) {
            for elevated in [false, true] {
                for (method, target, body) in requests.iter() {
                    let wire = vx_request_bytes(method, target, &[("Host".to_string(), ip.to_string())], body);
                    let (r, bytes, reqs) = h.one(&ps, &Attribution::full(elevated, ip, *port), wire, false);
                    let traversal = target.split('?').next().unwrap().contains("..");
                    let builtin_refusal = matches!(*ep, "wireserver" | "hostga") && !elevated;
                    check(&mut n,
                        serde_json::json!({"attributed": true, "policy_lookup": "fails (key keeper state task terminated)", "last_rules": format!("{}/{}", mode, da), "elevated": elevated, "destination": format!("{}:{}", ip, port), "request": format!("{} {}", method, target)}),
                        &[(traversal, 404), (true, 500), (builtin_refusal, 403)], &r, bytes, &reqs);
                }
            }
        }
    }

    // ---- the real listener path (where the kernel lets us create the audit map): REAL handle_new_tcp_connection,
    //      REAL TcpConnectionContext::new / redirector::lookup_audit; the original destination of a recorded connection is the
    //      mock host itself (no rules apply to it) or the proxy's own listener address (always refused)
    if let Some(map) = h.install_audit_map() {
        for cfg in [None, Some(("enforce", "deny", 3u8))] {
            h.set_rules(&|| cfg.map(|(m, d, k)| vx_rules(m, d, k, "x")));
            for is_root in [false, true] {
                for (method, target, body) in requests.iter() {
                    let traversal = target.split('?').next().unwrap().contains("..");
                    let wire = vx_request_bytes(method, target, &[("Host".to_string(), "127.0.0.1".to_string())], body);
                    // (a) audit record present, destination = the mock host
                    let mut c = h.connect_real(&h.ps, Some((&map, is_root)));
                    c.send(wire.clone());
                    let r = c.recv(false);
                    let (bytes, reqs) = h.finish_real(c);
                    check(&mut n, serde_json::json!({"path": "real handle_new_tcp_connection", "audit_record": "present, original destination = mock host", "is_root": is_root, "request": format!("{} {}", method, target)}),
                        &[(traversal, 404)], &r, bytes, &reqs);
                    // (b) no audit record for the connection
                    let mut c = h.connect_real(&h.ps, None);
                    c.send(wire.clone());
                    let r = c.recv(false);
                    let (bytes, reqs) = h.finish_real(c);
                    check(&mut n, serde_json::json!({"path": "real handle_new_tcp_connection", "audit_record": "none (direct connection to the listener)", "request": format!("{} {}", method, target)}),
                        &[(traversal, 404), (true, 421)], &r, bytes, &reqs);
                    // (c) audit record present, original destination = the proxy's own listener address
                    let mut c = h.connect_real_to(&h.ps, Some((&map, is_root, Ipv4Addr::LOCALHOST, crate::common::constants::PROXY_AGENT_PORT)));
                    c.send(wire.clone());
                    let r = c.recv(false);
                    let (bytes, reqs) = h.finish_real(c);
                    check(&mut n, serde_json::json!({"path": "real handle_new_tcp_connection", "audit_record": "present, original destination = the proxy itself (127.0.0.1:3080)", "is_root": is_root, "request": format!("{} {}", method, target)}),
                        &[(traversal, 404), (true, 403)], &r, bytes, &reqs);
                }
            }
        }
    }

    println!("VXW-DONE {}", n);
}
