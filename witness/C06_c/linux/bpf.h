/* C06 witness, user-space stand-in for <linux/bpf.h>.
 * The UAPI header of the build machine is used when it is installed (the program under test may use anything it declares);
 * otherwise the few documented UAPI items a cgroup/connect4 + kprobe program needs are declared here (layout of
 * struct bpf_sock_addr as documented in include/uapi/linux/bpf.h). */
#ifndef VX_C06_LINUX_BPF_H
#define VX_C06_LINUX_BPF_H
#if defined(__has_include_next) && !defined(VX_C06_NO_UAPI)
#if __has_include_next(<linux/bpf.h>)
#define VX_C06_HAVE_UAPI_BPF 1
#include_next <linux/bpf.h>
#endif
#endif
#ifndef VX_C06_HAVE_UAPI_BPF
typedef unsigned char __u8;
typedef unsigned short __u16;
typedef unsigned int __u32;
typedef unsigned long long __u64;
typedef signed char __s8;
typedef short __s16;
typedef int __s32;
typedef long long __s64;
#define __bitwise
typedef __u16 __be16;
typedef __u32 __be32;
typedef __u64 __be64;
typedef __u16 __le16;
typedef __u32 __le32;
typedef __u64 __le64;
typedef __u16 __sum16;
typedef __u32 __wsum;
enum bpf_map_type {
    BPF_MAP_TYPE_UNSPEC = 0,
    BPF_MAP_TYPE_HASH = 1,
    BPF_MAP_TYPE_ARRAY = 2,
    BPF_MAP_TYPE_PROG_ARRAY = 3,
    BPF_MAP_TYPE_PERF_EVENT_ARRAY = 4,
    BPF_MAP_TYPE_PERCPU_HASH = 5,
    BPF_MAP_TYPE_PERCPU_ARRAY = 6,
    BPF_MAP_TYPE_STACK_TRACE = 7,
    BPF_MAP_TYPE_CGROUP_ARRAY = 8,
    BPF_MAP_TYPE_LRU_HASH = 9,
    BPF_MAP_TYPE_LRU_PERCPU_HASH = 10,
};
enum { BPF_ANY = 0, BPF_NOEXIST = 1, BPF_EXIST = 2, BPF_F_LOCK = 4 };
struct bpf_sock;
struct bpf_sock_addr {
    __u32 user_family;
    __u32 user_ip4;
    __u32 user_ip6[4];
    __u32 user_port;
    __u32 family;
    __u32 type;
    __u32 protocol;
    __u32 msg_src_ip4;
    __u32 msg_src_ip6[4];
    union { struct bpf_sock *sk; __u64 : 64; } __attribute__((aligned(8)));
};
#endif
#endif
