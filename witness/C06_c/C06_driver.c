/* C06 witness, kernel stand-in: the UNMODIFIED linux-ebpf/ebpf_cgroup.c of the tree under test, compiled for user space
 * against the stub headers next to this file, plus
 *   - in-process maps with the documented semantics (HASH: -E2BIG when full; LRU_HASH: least recently used entry evicted),
 *   - a scripted current task (tgid, tid, uid, gid),
 *   - a line interpreter on stdin that plays the two kernel hook points:
 *       c4  = the cgroup/connect4 program with a struct bpf_sock_addr filled the way the kernel fills it at connect(2),
 *       kp  = the kprobe program on tcp_connect(struct sock *sk) with the sock laid out at the REAL kernel offsets of
 *             struct sock_common (skc_daddr 0, skc_rcv_saddr 4, skc_hash 8, skc_dport 12, skc_num 14, skc_family 16),
 *             written as raw bytes, not through the tree's copy of the struct.
 * It knows nothing about what the program should do; the enumeration and the oracle live in C06.rs.
 * All byte strings are hex, in memory order. Every answer ends with a line ".". */
#include <stdio.h>
#include <stdlib.h>
#include <string.h>

#include "ebpf_cgroup.c" /* found through -I <tree>/linux-ebpf */

/* ------------------------------------------------------------------ maps */
struct vx_ent {
    struct vx_ent *next;
    unsigned char *key, *val;
    unsigned long long used; /* recency stamp */
};
struct vx_map {
    struct vx_mapinfo mi;
    char name[64];
    struct vx_ent *head;
    unsigned n;
};
static struct vx_map vx_maps[32];
static unsigned vx_nmaps;
static unsigned long long vx_clock;

static struct vx_map *vx_get(struct vx_mapinfo mi)
{
    for (unsigned i = 0; i < vx_nmaps; i++)
        if (vx_maps[i].mi.id == mi.id)
            return &vx_maps[i];
    if (vx_nmaps == 32) {
        printf("fatal too many maps\n.\n");
        exit(3);
    }
    struct vx_map *m = &vx_maps[vx_nmaps++];
    m->mi = mi;
    const char *s = mi.name;
    while (*s == '&' || *s == '(' || *s == ' ')
        s++;
    unsigned j = 0;
    while (s[j] && s[j] != ')' && s[j] != ' ' && j < 63) {
        m->name[j] = s[j];
        j++;
    }
    m->name[j] = 0;
    m->head = NULL;
    m->n = 0;
    return m;
}
static struct vx_ent *vx_find(struct vx_map *m, const void *key)
{
    for (struct vx_ent *e = m->head; e; e = e->next)
        if (memcmp(e->key, key, m->mi.key_size) == 0)
            return e;
    return NULL;
}
static void vx_unlink(struct vx_map *m, struct vx_ent *x)
{
    struct vx_ent **pp = &m->head;
    while (*pp && *pp != x)
        pp = &(*pp)->next;
    if (*pp) {
        *pp = x->next;
        m->n--;
        /* the memory stays allocated: the program may still hold the pointer bpf_map_lookup_elem gave it */
    }
}
void *vx_map_lookup(struct vx_mapinfo mi, const void *key)
{
    struct vx_map *m = vx_get(mi);
    struct vx_ent *e = vx_find(m, key);
    if (!e && (mi.type == 2 || mi.type == 6) && mi.key_size == 4) {
        /* ARRAY maps: every index below max_entries exists and starts zeroed */
        unsigned idx;
        memcpy(&idx, key, 4);
        if (idx < mi.max_entries) {
            void *zero = calloc(1, mi.value_size ? mi.value_size : 1);
            unsigned saved = m->mi.max_entries;
            m->mi.max_entries = ~0u;
            vx_map_update(m->mi, key, zero, 0);
            m->mi.max_entries = saved;
            free(zero);
            e = vx_find(m, key);
        }
    }
    if (!e)
        return NULL;
    e->used = ++vx_clock;
    return e->val;
}
long vx_map_update(struct vx_mapinfo mi, const void *key, const void *value, unsigned long long flags)
{
    struct vx_map *m = vx_get(mi);
    struct vx_ent *e = vx_find(m, key);
    if (flags > 2)
        return -22; /* EINVAL */
    if (e && flags == 1)
        return -17; /* BPF_NOEXIST: EEXIST */
    if (!e && flags == 2)
        return -2; /* BPF_EXIST: ENOENT */
    if (e) {
        memcpy(e->val, value, m->mi.value_size);
        e->used = ++vx_clock;
        return 0;
    }
    if (m->n >= m->mi.max_entries) {
        if (m->mi.type == 9 /* LRU_HASH */ || m->mi.type == 10) {
            struct vx_ent *old = NULL;
            for (struct vx_ent *x = m->head; x; x = x->next)
                if (!old || x->used < old->used)
                    old = x;
            if (old)
                vx_unlink(m, old);
        } else {
            return -7; /* E2BIG */
        }
    }
    e = calloc(1, sizeof *e);
    e->key = malloc(m->mi.key_size ? m->mi.key_size : 1);
    e->val = malloc(m->mi.value_size ? m->mi.value_size : 1);
    memcpy(e->key, key, m->mi.key_size);
    memcpy(e->val, value, m->mi.value_size);
    e->used = ++vx_clock;
    e->next = m->head;
    m->head = e;
    m->n++;
    return 0;
}
long vx_map_delete(struct vx_mapinfo mi, const void *key)
{
    struct vx_map *m = vx_get(mi);
    struct vx_ent *e = vx_find(m, key);
    if (!e)
        return -2;
    vx_unlink(m, e);
    return 0;
}

/* ------------------------------------------------------------------ current task and scripted helpers */
static unsigned vx_tgid, vx_tid, vx_uid, vx_gid;
static int vx_read_fails;
unsigned long long bpf_get_current_pid_tgid(void) { return ((unsigned long long)vx_tgid << 32) | vx_tid; }
unsigned long long bpf_get_current_uid_gid(void) { return ((unsigned long long)vx_gid << 32) | vx_uid; }
long bpf_get_current_comm(void *buf, unsigned size)
{
    memset(buf, 0, size);
    if (size > 3)
        memcpy(buf, "vxw", 3);
    return 0;
}
unsigned long long bpf_get_current_cgroup_id(void) { return 1; }
unsigned long long bpf_get_socket_cookie(void *ctx) { return 0x1000 + (unsigned long long)vx_tid; }
unsigned long long bpf_get_netns_cookie(void *ctx) { return 1; }
unsigned long long bpf_ktime_get_ns(void) { return ++vx_clock * 1000; }
unsigned long long bpf_ktime_get_boot_ns(void) { return ++vx_clock * 1000; }
unsigned bpf_get_smp_processor_id(void) { return 0; }
unsigned bpf_get_prandom_u32(void) { return 4; }
long bpf_probe_read(void *dst, unsigned size, const void *p)
{
    if (vx_read_fails || !p) {
        memset(dst, 0, size);
        return -14; /* EFAULT */
    }
    memcpy(dst, p, size);
    return 0;
}
long bpf_probe_read_kernel(void *dst, unsigned size, const void *p) { return bpf_probe_read(dst, size, p); }
long bpf_probe_read_user(void *dst, unsigned size, const void *p) { return bpf_probe_read(dst, size, p); }

/* ------------------------------------------------------------------ interpreter */
static int hexv(int c)
{
    if (c >= '0' && c <= '9')
        return c - '0';
    if (c >= 'a' && c <= 'f')
        return c - 'a' + 10;
    if (c >= 'A' && c <= 'F')
        return c - 'A' + 10;
    return -1;
}
/* parses exactly n bytes; returns 0 on success */
static int unhex(const char *s, unsigned char *out, unsigned n)
{
    if (!s || strlen(s) != 2 * (size_t)n)
        return -1;
    for (unsigned i = 0; i < n; i++) {
        int a = hexv(s[2 * i]), b = hexv(s[2 * i + 1]);
        if (a < 0 || b < 0)
            return -1;
        out[i] = (unsigned char)(a * 16 + b);
    }
    return 0;
}
static void puthex(const unsigned char *p, unsigned n)
{
    for (unsigned i = 0; i < n; i++)
        printf("%02x", p[i]);
}
static struct vx_map *by_name(const char *name)
{
    for (unsigned i = 0; i < vx_nmaps; i++)
        if (strcmp(vx_maps[i].name, name) == 0)
            return &vx_maps[i];
    return NULL;
}
static void dump(struct vx_map *m)
{
    for (struct vx_ent *e = m->head; e; e = e->next) {
        printf("ent %s ", m->name);
        puthex(e->key, m->mi.key_size);
        printf(" ");
        puthex(e->val, m->mi.value_size);
        printf("\n");
    }
    printf("end %s %u\n", m->name, m->n);
}

int main(void)
{
    static char line[4096];
    /* the three maps user space opens BY NAME (redirector/linux.rs): registered up front */
    vx_get(VX_MAPINFO(&policy_map));
    vx_get(VX_MAPINFO(&skip_process_map));
    vx_get(VX_MAPINFO(&audit_map));
    setvbuf(stdout, NULL, _IOFBF, 1 << 16);
    while (fgets(line, sizeof line, stdin)) {
        char *tok[12];
        int nt = 0;
        for (char *p = strtok(line, " \r\n"); p && nt < 12; p = strtok(NULL, " \r\n"))
            tok[nt++] = p;
        if (nt == 0)
            continue;
        if (!strcmp(tok[0], "defs")) {
            for (unsigned i = 0; i < vx_nmaps; i++)
                printf("def %s type=%u key=%u value=%u max=%u\n", vx_maps[i].name, vx_maps[i].mi.type, vx_maps[i].mi.key_size,
                       vx_maps[i].mi.value_size, vx_maps[i].mi.max_entries);
            printf("sizes sock_addr=%u ptr=%u\n", (unsigned)sizeof(struct bpf_sock_addr), (unsigned)sizeof(void *));
        } else if (!strcmp(tok[0], "reset")) {
            for (unsigned i = 0; i < vx_nmaps; i++) {
                vx_maps[i].head = NULL; /* leaked on purpose, see vx_unlink */
                vx_maps[i].n = 0;
            }
            vx_read_fails = 0;
            printf("ok\n");
        } else if (!strcmp(tok[0], "task") && nt == 5) {
            vx_tgid = (unsigned)strtoul(tok[1], NULL, 10);
            vx_tid = (unsigned)strtoul(tok[2], NULL, 10);
            vx_uid = (unsigned)strtoul(tok[3], NULL, 10);
            vx_gid = (unsigned)strtoul(tok[4], NULL, 10);
            printf("ok\n");
        } else if (!strcmp(tok[0], "put") && nt == 4) {
            struct vx_map *m = by_name(tok[1]);
            unsigned char k[256], v[256];
            if (!m || m->mi.key_size > 256 || m->mi.value_size > 256 || unhex(tok[2], k, m->mi.key_size) || unhex(tok[3], v, m->mi.value_size))
                printf("err bad put (map %s: key %u bytes, value %u bytes)\n", tok[1], m ? m->mi.key_size : 0, m ? m->mi.value_size : 0);
            else
                printf("rc %ld\n", vx_map_update(m->mi, k, v, 0));
        } else if (!strcmp(tok[0], "del") && nt == 3) {
            struct vx_map *m = by_name(tok[1]);
            unsigned char k[256];
            if (!m || m->mi.key_size > 256 || unhex(tok[2], k, m->mi.key_size))
                printf("err bad del\n");
            else
                printf("rc %ld\n", vx_map_delete(m->mi, k));
        } else if (!strcmp(tok[0], "dump") && nt == 2) {
            struct vx_map *m = by_name(tok[1]);
            if (!m)
                printf("err no map %s\n", tok[1]);
            else
                dump(m);
        } else if (!strcmp(tok[0], "state")) {
            /* the three public maps */
            dump(by_name("policy_map"));
            dump(by_name("skip_process_map"));
            dump(by_name("audit_map"));
        } else if (!strcmp(tok[0], "private")) {
            /* information only: entries held in maps other than the three public ones */
            for (unsigned i = 3; i < vx_nmaps; i++)
                printf("priv %s %u\n", vx_maps[i].name, vx_maps[i].n);
        } else if (!strcmp(tok[0], "c4") && nt == 6) {
            /* c4 <user_ip4: 4 bytes> <user_port: 4 bytes> <protocol> <family> <type> */
            struct bpf_sock_addr a, before;
            memset(&a, 0, sizeof a);
            unsigned char ip[4], port[4];
            if (unhex(tok[1], ip, 4) || unhex(tok[2], port, 4)) {
                printf("err bad c4\n.\n");
                fflush(stdout);
                continue;
            }
            a.user_family = (unsigned)strtoul(tok[4], NULL, 10);
            a.family = a.user_family;
            memcpy(&a.user_ip4, ip, 4);
            memcpy(&a.user_port, port, 4);
            a.protocol = (unsigned)strtoul(tok[3], NULL, 10);
            a.type = (unsigned)strtoul(tok[5], NULL, 10);
            before = a;
            int r = connect4(&a);
            printf("c4 ret=%d ip=", r);
            puthex((unsigned char *)&a.user_ip4, 4);
            printf(" port=");
            puthex((unsigned char *)&a.user_port, 4);
            before.user_ip4 = a.user_ip4;
            before.user_port = a.user_port;
            printf(" other=%d\n", memcmp(&a, &before, sizeof a) != 0);
        } else if (!strcmp(tok[0], "kp") && nt == 6) {
            /* kp <family> <skc_daddr: 4 bytes> <skc_dport: 2 bytes> <skc_num: number> <probe read fails 0/1> */
            _Alignas(16) unsigned char sk[1024];
            memset(sk, 0, sizeof sk);
            unsigned char da[4], dp[2];
            if (unhex(tok[2], da, 4) || unhex(tok[3], dp, 2)) {
                printf("err bad kp\n.\n");
                fflush(stdout);
                continue;
            }
            unsigned short fam = (unsigned short)strtoul(tok[1], NULL, 10);
            unsigned short num = (unsigned short)strtoul(tok[4], NULL, 10);
            memcpy(sk + 0, da, 4);
            sk[4] = 127; /* skc_rcv_saddr */
            sk[7] = 1;
            memcpy(sk + 12, dp, 2);
            memcpy(sk + 14, &num, 2);
            memcpy(sk + 16, &fam, 2);
            vx_read_fails = atoi(tok[5]);
            struct pt_regs regs;
            memset(&regs, 0, sizeof regs);
            regs.vx_parm[0] = (unsigned long)sk;
            int r = tcp_v4_connect(&regs);
            vx_read_fails = 0;
            printf("kp ret=%d\n", r);
        } else {
            printf("err unknown command %s/%d\n", tok[0], nt);
        }
        printf(".\n");
        fflush(stdout);
    }
    return 0;
}
