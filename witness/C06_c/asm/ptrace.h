/* C06 witness, user-space stand-in for <asm/ptrace.h>: the register file a kprobe program receives.
 * Only the function-argument registers are modelled (see PT_REGS_PARMn in bpf/bpf_tracing.h). */
#ifndef VX_C06_ASM_PTRACE_H
#define VX_C06_ASM_PTRACE_H
struct pt_regs {
    unsigned long vx_parm[6]; /* 1st .. 6th argument of the probed kernel function */
    unsigned long vx_rc;
    unsigned long vx_sp;
    unsigned long vx_ip;
};
#endif
