/* C06 witness, user-space stand-in for libbpf's <bpf/bpf_helpers.h>.
 * Nothing in here knows what the program under test should do: the helpers have the DOCUMENTED semantics of the kernel helpers
 * (bpf-helpers(7)) over in-process maps (C06_driver.c). Maps are declared with the BTF-style macros of libbpf; the map helpers
 * are macros so that the key/value size, type and capacity of whatever map the program passes are taken from its declaration
 * (the witness does not need to know the names of the program's private maps). */
#ifndef VX_C06_BPF_HELPERS_H
#define VX_C06_BPF_HELPERS_H
#include <stddef.h>

#define SEC(name) __attribute__((used))
#define __uint(name, val) int (*name)[val]
#define __type(name, val) __typeof__(val) *name
#define __array(name, val) __typeof__(val) *name[]
#ifndef __always_inline
#define __always_inline inline __attribute__((always_inline))
#endif
#ifndef __noinline
#define __noinline __attribute__((noinline))
#endif
#ifndef __weak
#define __weak __attribute__((weak))
#endif
#ifndef __hidden
#define __hidden
#endif
#ifndef NULL
#define NULL ((void *)0)
#endif
#ifndef likely
#define likely(x) __builtin_expect(!!(x), 1)
#define unlikely(x) __builtin_expect(!!(x), 0)
#endif
#ifndef barrier
#define barrier() asm volatile("" ::: "memory")
#endif

/* trace output is not an observation point of the property */
#define bpf_printk(fmt, args...) ((void)0)
#define bpf_trace_printk(fmt, size, args...) (0)

struct vx_mapinfo {
    const void *id;     /* address of the map object in the program */
    unsigned type;      /* enum bpf_map_type */
    unsigned key_size;
    unsigned value_size;
    unsigned max_entries;
    const char *name;   /* expression the program passed, e.g. "&policy_map" */
};
#define VX_MAPINFO(m)                                                                                              \
    ((struct vx_mapinfo){(const void *)(m), (unsigned)(sizeof(*(m)->type) / sizeof(int)), (unsigned)sizeof(*(m)->key), \
                         (unsigned)sizeof(*(m)->value), (unsigned)(sizeof(*(m)->max_entries) / sizeof(int)), #m})

void *vx_map_lookup(struct vx_mapinfo mi, const void *key);
long vx_map_update(struct vx_mapinfo mi, const void *key, const void *value, unsigned long long flags);
long vx_map_delete(struct vx_mapinfo mi, const void *key);

#define bpf_map_lookup_elem(m, k) vx_map_lookup(VX_MAPINFO(m), (k))
#define bpf_map_update_elem(m, k, v, f) vx_map_update(VX_MAPINFO(m), (k), (v), (f))
#define bpf_map_delete_elem(m, k) vx_map_delete(VX_MAPINFO(m), (k))

/* current task: (tgid << 32 | tid) and (gid << 32 | uid), as documented */
unsigned long long bpf_get_current_pid_tgid(void);
unsigned long long bpf_get_current_uid_gid(void);
long bpf_get_current_comm(void *buf, unsigned size);
unsigned long long bpf_get_current_cgroup_id(void);
unsigned long long bpf_get_socket_cookie(void *ctx);
unsigned long long bpf_get_netns_cookie(void *ctx);
unsigned long long bpf_ktime_get_ns(void);
unsigned long long bpf_ktime_get_boot_ns(void);
unsigned bpf_get_smp_processor_id(void);
unsigned bpf_get_prandom_u32(void);
/* copy from "kernel" memory: 0 on success; on failure a negative error and the destination is zero-filled */
long bpf_probe_read(void *dst, unsigned size, const void *unsafe_ptr);
long bpf_probe_read_kernel(void *dst, unsigned size, const void *unsafe_ptr);
long bpf_probe_read_user(void *dst, unsigned size, const void *unsafe_ptr);
#endif
