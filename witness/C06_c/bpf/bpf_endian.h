/* C06 witness, user-space stand-in for libbpf's <bpf/bpf_endian.h> (byte order of the machine that runs the witness). */
#ifndef VX_C06_BPF_ENDIAN_H
#define VX_C06_BPF_ENDIAN_H
#if __BYTE_ORDER__ == __ORDER_LITTLE_ENDIAN__
#define bpf_htons(x) __builtin_bswap16(x)
#define bpf_ntohs(x) __builtin_bswap16(x)
#define bpf_htonl(x) __builtin_bswap32(x)
#define bpf_ntohl(x) __builtin_bswap32(x)
#define bpf_cpu_to_be64(x) __builtin_bswap64(x)
#define bpf_be64_to_cpu(x) __builtin_bswap64(x)
#else
#define bpf_htons(x) (x)
#define bpf_ntohs(x) (x)
#define bpf_htonl(x) (x)
#define bpf_ntohl(x) (x)
#define bpf_cpu_to_be64(x) (x)
#define bpf_be64_to_cpu(x) (x)
#endif
#define bpf_constant_htons(x) bpf_htons(x)
#define bpf_constant_ntohs(x) bpf_ntohs(x)
#define bpf_constant_htonl(x) bpf_htonl(x)
#define bpf_constant_ntohl(x) bpf_ntohl(x)
#endif
