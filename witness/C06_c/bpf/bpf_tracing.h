/* C06 witness, user-space stand-in for libbpf's <bpf/bpf_tracing.h>.
 * BPF_KPROBE(name, args...) has libbpf's shape: the program entry point is `int name(struct pt_regs *ctx)`, the typed
 * arguments are taken from the argument registers of the probed function. */
#ifndef VX_C06_BPF_TRACING_H
#define VX_C06_BPF_TRACING_H
#define PT_REGS_PARM1(x) ((x)->vx_parm[0])
#define PT_REGS_PARM2(x) ((x)->vx_parm[1])
#define PT_REGS_PARM3(x) ((x)->vx_parm[2])
#define PT_REGS_PARM4(x) ((x)->vx_parm[3])
#define PT_REGS_PARM5(x) ((x)->vx_parm[4])
#define PT_REGS_RC(x) ((x)->vx_rc)
#define PT_REGS_SP(x) ((x)->vx_sp)
#define PT_REGS_IP(x) ((x)->vx_ip)
#define PT_REGS_PARM1_CORE(x) PT_REGS_PARM1(x)
#define PT_REGS_PARM2_CORE(x) PT_REGS_PARM2(x)
#define PT_REGS_PARM3_CORE(x) PT_REGS_PARM3(x)

#define ___vx_concat(a, b) a##b
#define ___vx_apply(fn, n) ___vx_concat(fn, n)
#define ___vx_nth(_, _1, _2, _3, _4, _5, _6, N, ...) N
#define ___vx_narg(...) ___vx_nth(_, ##__VA_ARGS__, 6, 5, 4, 3, 2, 1, 0)
#define ___vx_kprobe_args0() ctx
#define ___vx_kprobe_args1(x) ___vx_kprobe_args0(), (void *)PT_REGS_PARM1(ctx)
#define ___vx_kprobe_args2(x, args...) ___vx_kprobe_args1(args), (void *)PT_REGS_PARM2(ctx)
#define ___vx_kprobe_args3(x, args...) ___vx_kprobe_args2(args), (void *)PT_REGS_PARM3(ctx)
#define ___vx_kprobe_args4(x, args...) ___vx_kprobe_args3(args), (void *)PT_REGS_PARM4(ctx)
#define ___vx_kprobe_args5(x, args...) ___vx_kprobe_args4(args), (void *)PT_REGS_PARM5(ctx)
#define ___vx_kprobe_args(args...) ___vx_apply(___vx_kprobe_args, ___vx_narg(args))(args)

#define BPF_KPROBE(name, args...)                                              \
    name(struct pt_regs *ctx);                                                 \
    static inline __attribute__((always_inline)) int ____##name(struct pt_regs *ctx, ##args); \
    int name(struct pt_regs *ctx)                                              \
    {                                                                          \
        return ____##name(___vx_kprobe_args(args));                            \
    }                                                                          \
    static inline __attribute__((always_inline)) int ____##name(struct pt_regs *ctx, ##args)
#define BPF_KRETPROBE(name, args...) BPF_KPROBE(name, ##args)
#define BPF_PROG(name, args...) BPF_KPROBE(name, ##args)
#endif
