// Witness generator for C13 (no input can crash a request handler or a background task), child module of proxy_server.rs.
//
// Oracle = the statement: whatever a local client sends, whatever the caller's user / executable / command line look like and
// whatever the host returns, nothing panics (process-wide panic hook: location + message), every syntactically valid HTTP
// request receives an HTTP response, the listener keeps serving later requests (a benign probe after every case), and the
// key keeper, status, provisioning and telemetry tasks keep running and publishing (new polls at the fake wire server,
// status.json rewritten, module states RUNNING).
//
// Driven entry points (outermost first): the real ProxyServer::start accept loop, the real handle_new_tcp_connection with
// connections attributed through a kernel audit_map record to child processes with crafted executable names / command lines
// (where a BPF map can be created), the real handler behind the replicated limit wiring with constructed callers, the real
// KeyKeeper::poll_secure_channel_status loop, ProxyAgentStatusTask::start, event_logger::start, EventReader::start,
// provision::*, and the public functions event_logger::write_event, AgentStatusSharedState::{set_module_status_message,
// get_module_status}, hyper_client::{get, as_sig_input, build_request}, key::{get_status, acquire_key, attest_key},
// WireServerClient / ImdsClient.  (The private anchors are called directly by the companion witness C13_direct.)
#![allow(dead_code, unused_imports, unused_variables, unused_mut, unused_assignments, clippy::all)]
include!("/verif/witness/handler_harness.inc.rs");
include!("/verif/witness/C13_common.inc.rs");
include!("/verif/witness/C13_handler.inc.rs");
include!("/verif/witness/C13_rules.inc.rs");
include!("/verif/witness/C13_host.inc.rs");
include!("/verif/witness/C13_pub.inc.rs");

/// development aid: VX_ONLY=pub,late runs only the named phases (the runner never sets it)
fn on(phase: &str) -> bool {
    match std::env::var("VX_ONLY") {
        Ok(v) => v.split(',').any(|p| p == phase),
        Err(_) => true,
    }
}

#[test]
fn console_vxw_c13() {
    vx_install_hook();
    let cfg = vx_ensure_config();
    vx_setup_loggers();
    let mut t = T::new();
    let t0 = std::time::Instant::now();

    // the real background tasks, running during the whole enumeration
    let mut bg = Bg::start("bg", true, Duration::from_millis(50), true);
    let mut p = bg.alive();
    p.extend(bg.reader_alive());
    t.close("background tasks start", serde_json::json!({"history": "start key keeper, status task, event logger, telemetry reader against the benign fake host"}), p);

    if on("pub") { phase_pub(&mut t, &mut bg); }
    println!("VXW-NOTE phase pub done: {} cases, {:?}", t.n, t0.elapsed());
    if on("handler") { phase_handler(&mut t, &mut bg); }
    println!("VXW-NOTE phase handler done: {} cases, {:?}", t.n, t0.elapsed());
    if on("host_replies") { phase_host_replies(&mut t, &mut bg); }
    println!("VXW-NOTE phase host replies done: {} cases, {:?}", t.n, t0.elapsed());
    if on("key_keeper") { phase_key_keeper(&mut t, &mut bg); }
    println!("VXW-NOTE phase key keeper done: {} cases, {:?}", t.n, t0.elapsed());
    if on("provision") { phase_provision(&mut t, &mut bg); }
    println!("VXW-NOTE phase provision done: {} cases, {:?}", t.n, t0.elapsed());

    let mut p = bg.alive();
    p.extend(bg.reader_alive());
    t.close("background tasks at the end", serde_json::json!({"history": "after the whole enumeration"}), p);
    bg.h.shared.cancel_cancellation_token();
    drop(bg);

    if on("late") { phase_late_notify(&mut t); }
    println!("VXW-NOTE phase late notify done: {} cases, {:?}", t.n, t0.elapsed());

    event_logger::stop();
    let _ = std::fs::remove_dir_all(vx_tmp_root());
    let _ = std::fs::remove_file(cfg);
    println!("VXW-DONE {}", t.n);
}
