// Witness generator for C15 (request bodies above the size limit are refused and never relayed), child module of proxy_server.rs.
// Drives the REAL handler end to end (handler_harness.inc.rs) behind the same RequestBodyLimitLayer wiring as
// handle_new_tcp_connection (the real constants REQUEST_BODY_LOW_LIMIT_SIZE / REQUEST_BODY_LARGE_LIMIT_SIZE and the real should_skip_sig).
// Oracle = the statement: body > 100 KiB (100 MiB for PUT /vmAgentLog and POST /machine/?comp=telemetrydata, any letter case of the URL)
// => 4xx and not one byte relayed, whether declared by Content-Length or discovered while reading a chunked body;
// body <= limit => accepted and relayed intact.
// Two paths: (1) the handler behind a replica of the limit wiring with a constructed connection context (WireServer / IMDS
// destinations); (2) where the kernel allows creating a BPF map: the REAL handle_new_tcp_connection with the connection attributed
// through a real audit_map record (destination = the mock host), so the real limit wiring is the one under test.
// The 100 MiB class is covered by: exempt uploads of limit+1 .. 3 x limit bytes pass intact; a declared Content-Length of 100 MiB + 1 is refused.
#![allow(dead_code, unused_imports, clippy::all)]
include!("/verif/witness/handler_harness.inc.rs");

fn data(len: usize) -> Vec<u8> {
    (0..len).map(|i| ((i * 31 + i / 251) % 256) as u8).collect()
}

#[test]
fn console_vxw_c15() {
    let h = Harness::new(true);
    h.set_rules(&|| None);
    let low = super::REQUEST_BODY_LOW_LIMIT_SIZE;
    let large = super::REQUEST_BODY_LARGE_LIMIT_SIZE;
    let mut n = 0u64;
    if low != 100 * 1024 || large != 100 * 1024 * 1024 {
        n += 1;
        vx_fail(serde_json::json!({"property": "C15", "input": "the limit constants", "got": {"low": low, "large": large}, "want": {"low": 100 * 1024, "large": 100 * 1024 * 1024}}));
    }
    let low = 100 * 1024usize;
    let large = 100 * 1024 * 1024usize;

    // the kernel audit map, where available: the same enumeration also goes through the real handle_new_tcp_connection
    let audit = h.install_audit_map();
    let paths: Vec<bool> = if audit.is_some() { vec![false, true] } else { vec![false] };

    let mut run = |n: &mut u64, real: bool, exempt: bool, elevated: bool, method: &str, target: &str, body: ReqBody, framing: &str| {
        *n += 1;
        let (ip, port) = if real { ("127.0.0.1", h.host.port) } else if elevated { ("168.63.129.16", 80u16) } else { ("169.254.169.254", 80u16) };
        let size = body.bytes().len();
        let limit = if exempt { large } else { low };
        let wire = vx_request_bytes(method, target, &[("Host".to_string(), ip.to_string()), ("Content-Type".to_string(), "application/octet-stream".to_string())], &body);
        let (r, bytes, reqs) = if real { h.one_real(&h.ps, Some((audit.as_ref().unwrap(), elevated)), wire, false) } else { h.one(&h.ps, &Attribution::full(elevated, ip, port), wire, false) };
        let st = vx_status(&r);
        let mut problems: Vec<String> = Vec::new();
        if size > limit {
            if !(400..500).contains(&st) { problems.push(format!("client status {} ({:?}), want 4xx", st, r.as_ref().err())); }
            if bytes != 0 { problems.push(format!("{} bytes relayed to the host, want 0", bytes)); }
        } else {
            if st != 200 { problems.push(format!("client status {} ({:?}), want the host's 200", st, r.as_ref().err())); }
            match reqs.first() {
                Some(q) if reqs.len() == 1 => {
                    if q.body != body.bytes() { problems.push(format!("body at the host {} bytes [{}], sent {} bytes [{}]", q.body.len(), vx_hex(&q.body), size, vx_hex(body.bytes()))); }
                    if q.method != method || q.target != target { problems.push(format!("host got {} {}", q.method, q.target)); }
                }
                _ => problems.push(format!("{} requests at the host, want 1", reqs.len())),
            }
        }
        if !problems.is_empty() {
            vx_fail(serde_json::json!({"property": "C15", "input": {"path": if real { "real handle_new_tcp_connection, connection attributed through the kernel audit map" } else { "handler behind the replicated limit wiring, constructed connection context" }, "request": format!("{} {}", method, target), "exempt_upload": exempt, "limit": limit, "body_bytes": size, "declared_by": framing, "elevated": elevated, "destination": format!("{}:{}", ip, port)},
                "got": {"client_status": st, "bytes_at_host": bytes, "problems": problems}, "want": if size > limit { "4xx and 0 bytes relayed" } else { "relayed intact, host's 200 at the client" }}));
        }
    };

    let framings = |size: usize| -> Vec<(String, ReqBody)> {
        let d = data(size);
        vec![
            ("Content-Length".to_string(), ReqBody::Len(d.clone())),
            ("chunked, one chunk".to_string(), ReqBody::Chunked(d.clone(), vec![size + 1])),
            ("chunked, 1000-byte chunks".to_string(), ReqBody::Chunked(d.clone(), vec![1000])),
            ("chunked, 65536 + 1 + ...".to_string(), ReqBody::Chunked(d.clone(), vec![65536, 1, 30000])),
            ("chunked, limit-1 then 1-byte chunks".to_string(), ReqBody::Chunked(d.clone(), vec![100 * 1024 - 1, 1, 1, 1])),
        ]
    };

    for (key, real) in [(true, false), (false, false), (true, true)] {
        if real && audit.is_none() { continue; }
        h.set_key(if key { Some(vx_key()) } else { None });
        // ---- non-exempt method/URL combinations (incl. the exempt URLs with the other method and near-miss URLs)
        let non_exempt: Vec<(&str, &str, bool)> = vec![
            ("POST", "/machine?comp=upload", true), ("PUT", "/machine/x/y", true), ("POST", "/metadata/upload?api-version=1", false), ("PATCH", "/metadata/x", false),
            ("POST", "/vmAgentLog", true), ("PUT", "/machine/?comp=telemetrydata", true), ("PUT", "/vmAgentLogs", true), ("POST", "/machine/?comp=telemetrydata&x=1", true), ("POST", "/machine?comp=telemetrydata", true),
        ];
        for (method, target, elevated) in non_exempt.iter() {
            for size in [low - 1, low, low + 1] {
                for (fname, body) in framings(size) {
                    run(&mut n, real, false, *elevated, method, target, body, &fname);
                }
            }
        }
        // ---- the two exempt uploads, letter-case variants of the URL
        let exempt: Vec<(&str, &str)> = vec![("PUT", "/vmAgentLog"), ("PUT", "/VMAGENTLOG"), ("PUT", "/vmagentlog"), ("POST", "/machine/?comp=telemetrydata"), ("POST", "/MACHINE/?COMP=TELEMETRYDATA"), ("POST", "/Machine/?comp=TelemetryData")];
        for (method, target) in exempt.iter() {
            for size in [low - 1, low, low + 1, 3 * low + 7] {
                for (fname, body) in framings(size).into_iter().take(3) {
                    run(&mut n, real, true, true, method, target, body, &fname);
                }
            }
        }
    }
    drop(run);

    // ---- declared sizes far above / just above the limits: refused on the declaration alone (no body is sent, the client only reads the answer)
    h.set_key(Some(vx_key()));
    let declared: Vec<(&str, &str, usize, usize)> = vec![
        ("POST", "/machine?comp=upload", low + 1, low), ("POST", "/machine?comp=upload", large, low), ("PUT", "/machine/x", 10 * 1024 * 1024, low),
        ("PUT", "/vmAgentLog", large + 1, large), ("PUT", "/VMAGENTLOG", large + 1, large), ("POST", "/machine/?comp=telemetrydata", large + 1, large), ("POST", "/Machine/?Comp=TelemetryData", 2 * large, large),
    ];
    for real in paths.iter() {
    for (method, target, size, limit) in declared.iter() {
        n += 1;
        let wire = format!("{} {} HTTP/1.1\r\nHost: 168.63.129.16\r\nContent-Length: {}\r\n\r\n", method, target, size).into_bytes();
        let (r, bytes, _reqs) = if *real { h.one_real(&h.ps, Some((audit.as_ref().unwrap(), true)), wire, false) } else { h.one(&h.ps, &Attribution::full(true, "168.63.129.16", 80), wire, false) };
        let st = vx_status(&r);
        if !(400..500).contains(&st) || bytes != 0 {
            vx_fail(serde_json::json!({"property": "C15", "input": {"path": if *real { "real handle_new_tcp_connection" } else { "replicated limit wiring" }, "request": format!("{} {}", method, target), "limit": limit, "declared_content_length": size, "body_sent": "none (headers only)"},
                "got": {"client_status": st, "client_error": r.as_ref().err(), "bytes_at_host": bytes}, "want": "4xx and 0 bytes relayed"}));
        }
    }
    }
    // ---- several requests on ONE kept-alive connection: every request is judged by the limit of its OWN method/URL
    n += keep_alive_sequences(&h, audit.as_ref(), low, large);
    println!("VXW-DONE {}", n);
}

// ------------------------------------------------------------------------------------------------ keep-alive sequences
// 2 and 3 requests on one HTTP/1.1 connection, exempt (E) and non-exempt (N) method/URL pairs in every order, every request with a
// body around the limit that applies to IT: N: limit-1, limit, limit+1 (limit = 100 KiB); E: 100 KiB+1 and 200 KiB+5 (far below its
// own 100 MiB limit, above the limit of its neighbours), each declared by Content-Length or sent chunked.
// Oracle per request (the statement, applied to each request of the connection): over its limit => 4xx and nothing of it at the
// host; at or under => the host's 200 and the body intact at the host. The statement does not promise that a connection survives
// a refusal: when the proxy closes the connection after a request that had to be refused, the rest of the sequence is not sent
// (nothing may reach the host then either).
#[derive(Clone)]
struct Step {
    exempt: bool,
    method: &'static str,
    target: &'static str,
    size: usize,
    chunks: Option<Vec<usize>>,
}

impl Step {
    fn show(&self, limit: usize) -> String {
        format!("{} {} [{}, limit {}] body {} bytes ({}) => {}", self.method, self.target, if self.exempt { "exempt upload" } else { "non-exempt" }, limit, self.size,
            match &self.chunks { None => "Content-Length".to_string(), Some(c) => format!("chunked {:?}", c) },
            if self.size > limit { "must be refused (4xx, nothing relayed)" } else { "must be relayed intact" })
    }
}

/// bytes of a recorded request on the wire when it is framed by Content-Length (header lines as `name: value`)
fn vx_wire_len(q: &RecReq) -> Option<usize> {
    if vx_framing(&q.headers, false) == Framing::Chunked {
        return None;
    }
    let mut len = q.method.len() + 1 + q.target.len() + 1 + q.version.len() + 2;
    for (name, v) in q.headers.iter() {
        len += name.len() + 2 + v.len() + 2;
    }
    Some(len + 2 + q.body.len())
}

fn run_sequence(h: &Harness, audit: Option<&AuditMap>, real: bool, steps: &[Step], low: usize, large: usize, bodies: &std::collections::HashMap<usize, Vec<u8>>) -> (u64, u64) {
    let ip = if real { "127.0.0.1" } else { "168.63.129.16" };
    let mut conn: Option<Conn> = None;
    let mut rc: Option<RawClient> = None;
    if real {
        rc = Some(h.connect_real(&h.ps, Some((audit.unwrap(), true))));
    } else {
        conn = Some(h.connect_with(&h.ps, &Attribution::full(true, ip, 80)));
    }
    let mut problems: Vec<String> = Vec::new();
    let mut seen: Vec<String> = Vec::new();
    let mut previous_over = false;
    let mut closed = false;
    for (k, st) in steps.iter().enumerate() {
        let limit = if st.exempt { large } else { low };
        let over = st.size > limit;
        if closed {
            seen.push(format!("#{}: not sent", k + 1));
            continue;
        }
        let data = bodies.get(&st.size).unwrap();
        let body = match &st.chunks { None => ReqBody::Len(data.clone()), Some(c) => ReqBody::Chunked(data.clone(), c.clone()) };
        let wire = vx_request_bytes(st.method, st.target, &[("Host".to_string(), ip.to_string()), ("Content-Type".to_string(), "application/octet-stream".to_string())], &body);
        let cl: &mut RawClient = if real { rc.as_mut().unwrap() } else { &mut conn.as_mut().unwrap().client };
        cl.send(wire);
        let r = cl.recv(false);
        let (bytes, reqs) = h.host.take();
        let status = vx_status(&r);
        seen.push(format!("#{}: client status {}{}, {} bytes / {} request(s) at the host", k + 1, status, match &r { Err(e) => format!(" ({})", e), Ok(_) => String::new() }, bytes, reqs.len()));
        if previous_over && r.is_err() {
            // the proxy gave the connection up after the refusal
            closed = true;
            if bytes != 0 || !reqs.is_empty() {
                problems.push(format!("request #{} (sent on the connection the proxy closed after a refusal): {} bytes / {} request(s) at the host, want nothing", k + 1, bytes, reqs.len()));
            }
            continue;
        }
        if over {
            if !(400..500).contains(&status) { problems.push(format!("request #{}: client status {} ({:?}), want 4xx", k + 1, status, r.as_ref().err())); }
            if bytes != 0 || !reqs.is_empty() { problems.push(format!("request #{}: {} bytes / {} request(s) relayed to the host, want nothing", k + 1, bytes, reqs.len())); }
        } else {
            if status != 200 { problems.push(format!("request #{}: client status {} ({:?}), want the host's 200", k + 1, status, r.as_ref().err())); }
            match reqs.first() {
                Some(q) if reqs.len() == 1 => {
                    if q.body != *data { problems.push(format!("request #{}: body at the host {} bytes [{}], sent {} bytes [{}]", k + 1, q.body.len(), vx_hex(&q.body), st.size, vx_hex(data))); }
                    if q.method != st.method || q.target != st.target { problems.push(format!("request #{}: host got {} {}", k + 1, q.method, q.target)); }
                    if let Some(w) = vx_wire_len(q) {
                        if w != bytes { problems.push(format!("request #{}: {} bytes at the host, the relayed request accounts for {}", k + 1, bytes, w)); }
                    }
                }
                _ => problems.push(format!("request #{}: {} requests at the host, want 1", k + 1, reqs.len())),
            }
        }
        previous_over = over;
    }
    let (bytes, reqs) = if real { h.finish_real(rc.take().unwrap()) } else { h.finish(conn.take().unwrap()) };
    if bytes != 0 || !reqs.is_empty() {
        problems.push(format!("after the last answer: {} more bytes / {} more request(s) at the host, want nothing", bytes, reqs.len()));
    }
    if !problems.is_empty() {
        vx_fail(serde_json::json!({"property": "C15",
            "input": {"path": if real { "real handle_new_tcp_connection, connection attributed through the kernel audit map" } else { "handler behind the replicated limit wiring, constructed connection context" },
                "one_keep_alive_connection": steps.iter().map(|s| s.show(if s.exempt { large } else { low })).collect::<Vec<String>>(), "destination": format!("{}:{}", ip, if real { h.host.port } else { 80 })},
            "got": {"problems": problems, "observed": seen}, "want": "every request of the connection judged by the limit of its own method/URL"}));
    }
    let unsent = seen.iter().filter(|s| s.ends_with("not sent")).count() as u64;
    (steps.len() as u64 - unsent, unsent)
}

fn keep_alive_sequences(h: &Harness, audit: Option<&AuditMap>, low: usize, large: usize) -> u64 {
    h.set_key(Some(vx_key()));
    let n_pairs: [(&'static str, &'static str); 5] = [("POST", "/machine?comp=upload"), ("POST", "/vmAgentLog"), ("PUT", "/machine/?comp=telemetrydata"), ("PUT", "/machine/x/y"), ("POST", "/machine/?comp=telemetrydata&x=1")];
    let e_pairs: [(&'static str, &'static str); 4] = [("PUT", "/vmAgentLog"), ("POST", "/machine/?comp=telemetrydata"), ("PUT", "/VMAGENTLOG"), ("POST", "/Machine/?comp=TelemetryData")];
    let n_sizes = [low - 1, low, low + 1];
    let e_sizes = [low + 1, 2 * low + 5];
    let chunkings: [Vec<usize>; 3] = [vec![1000], vec![65536, 1, 30000], vec![low - 1, 1, 1, 1]];
    let mut bodies: std::collections::HashMap<usize, Vec<u8>> = std::collections::HashMap::new();
    for s in n_sizes.iter().chain(e_sizes.iter()) {
        bodies.insert(*s, data(*s));
    }
    // (exempt, size) choices of one position
    let mut choices: Vec<(bool, usize)> = Vec::new();
    for s in n_sizes { choices.push((false, s)); }
    for s in e_sizes { choices.push((true, s)); }
    let mut sequences: Vec<Vec<Step>> = Vec::new();
    let mut rot = 0usize;
    for len in [2usize, 3] {
        // framing patterns: bit k of the pattern = request k is chunked
        let patterns: Vec<usize> = if len == 2 { vec![0b00, 0b01, 0b10, 0b11] } else { vec![0b000, 0b111, 0b010, 0b101] };
        let total = choices.len().pow(len as u32);
        for code in 0..total {
            for pat in patterns.iter() {
                let mut steps = Vec::new();
                let mut c = code;
                for k in 0..len {
                    let (exempt, size) = choices[c % choices.len()];
                    c /= choices.len();
                    rot += 1;
                    let (method, target) = if exempt { e_pairs[rot % e_pairs.len()] } else { n_pairs[rot % n_pairs.len()] };
                    let chunks = if pat >> k & 1 == 1 { Some(chunkings[(rot / 7) % chunkings.len()].clone()) } else { None };
                    steps.push(Step { exempt, method, target, size, chunks });
                }
                sequences.push(steps);
            }
        }
    }
    let mut n = 0u64;
    let (mut runs, mut sent, mut unsent) = (0u64, 0u64, 0u64);
    for steps in sequences.iter() {
        // the real listener path where the kernel audit map exists (all sequences); the replicated wiring: all sequences when it
        // is the only path, else the sequences of two requests
        let on: Vec<bool> = match audit { Some(_) => if steps.len() == 2 { vec![true, false] } else { vec![true] }, None => vec![false] };
        for real in on {
            n += steps.len() as u64;
            let (a, b) = run_sequence(h, audit, real, steps, low, large, &bodies);
            runs += 1;
            sent += a;
            unsent += b;
        }
    }
    println!("VXW-NOTE keep-alive sequences: {} connections, {} requests sent, {} not sent because the proxy closed the connection after a request it had to refuse", runs, sent, unsent);
    n
}
