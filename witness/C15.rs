// Witness generator for C15 (request bodies above the size limit are refused and never relayed), child module of proxy_server.rs.
// Drives the REAL handler end to end (handler_harness.inc.rs) behind the same RequestBodyLimitLayer wiring as
// handle_new_tcp_connection (the real constants REQUEST_BODY_LOW_LIMIT_SIZE / REQUEST_BODY_LARGE_LIMIT_SIZE and the real should_skip_sig).
// Oracle = the statement: body > 100 KiB (100 MiB for PUT /vmAgentLog and POST /machine/?comp=telemetrydata, any letter case of the URL)
// => 4xx and not one byte relayed, whether declared by Content-Length or discovered while reading a chunked body;
// body <= limit => accepted and relayed intact.
// Two paths: (1) the handler behind a replica of the limit wiring with a constructed connection context (WireServer / IMDS
// destinations); (2) where the kernel allows creating a BPF map: the REAL handle_new_tcp_connection with the connection attributed
// through a real audit_map record (destination = the mock host), so the real limit wiring is the one under test.
// The 100 MiB class is covered by: exempt uploads of limit+1 .. 3 x limit bytes pass intact; a declared Content-Length of 100 MiB + 1 is refused.
#![allow(dead_code, unused_imports, clippy::all)]
include!("/verif/witness/handler_harness.inc.rs");

fn data(len: usize) -> Vec<u8> {
    (0..len).map(|i| ((i * 31 + i / 251) % 256) as u8).collect()
}

#[test]
fn console_vxw_c15() {
    let h = Harness::new(true);
    h.set_rules(&|| None);
    let low = super::REQUEST_BODY_LOW_LIMIT_SIZE;
    let large = super::REQUEST_BODY_LARGE_LIMIT_SIZE;
    let mut n = 0u64;
    if low != 100 * 1024 || large != 100 * 1024 * 1024 {
        n += 1;
        vx_fail(serde_json::json!({"property": "C15", "input": "the limit constants", "got": {"low": low, "large": large}, "want": {"low": 100 * 1024, "large": 100 * 1024 * 1024}}));
    }
    let low = 100 * 1024usize;
    let large = 100 * 1024 * 1024usize;

    // the kernel audit map, where available: the same enumeration also goes through the real handle_new_tcp_connection
    let audit = h.install_audit_map();
    let paths: Vec<bool> = if audit.is_some() { vec![false, true] } else { vec![false] };

    let mut run = |n: &mut u64, real: bool, exempt: bool, elevated: bool, method: &str, target: &str, body: ReqBody, framing: &str| {
        *n += 1;
        let (ip, port) = if real { ("127.0.0.1", h.host.port) } else if elevated { ("168.63.129.16", 80u16) } else { ("169.254.169.254", 80u16) };
        let size = body.bytes().len();
        let limit = if exempt { large } else { low };
        let wire = vx_request_bytes(method, target, &[("Host".to_string(), ip.to_string()), ("Content-Type".to_string(), "application/octet-stream".to_string())], &body);
        let (r, bytes, reqs) = if real { h.one_real(&h.ps, Some((audit.as_ref().unwrap(), elevated)), wire, false) } else { h.one(&h.ps, &Attribution::full(elevated, ip, port), wire, false) };
        let st = vx_status(&r);
        let mut problems: Vec<String> = Vec::new();
        if size > limit {
            if !(400..500).contains(&st) { problems.push(format!("client status {} ({:?}), want 4xx", st, r.as_ref().err())); }
            if bytes != 0 { problems.push(format!("{} bytes relayed to the host, want 0", bytes)); }
        } else {
            if st != 200 { problems.push(format!("client status {} ({:?}), want the host's 200", st, r.as_ref().err())); }
            match reqs.first() {
                Some(q) if reqs.len() == 1 => {
                    if q.body != body.bytes() { problems.push(format!("body at the host {} bytes [{}], sent {} bytes [{}]", q.body.len(), vx_hex(&q.body), size, vx_hex(body.bytes()))); }
                    if q.method != method || q.target != target { problems.push(format!("host got {} {}", q.method, q.target)); }
                }
                _ => problems.push(format!("{} requests at the host, want 1", reqs.len())),
            }
        }
        if !problems.is_empty() {
            vx_fail(serde_json::json!({"property": "C15", "input": {"path": if real { "real handle_new_tcp_connection, connection attributed through the kernel audit map" } else { "handler behind the replicated limit wiring, constructed connection context" }, "request": format!("{} {}", method, target), "exempt_upload": exempt, "limit": limit, "body_bytes": size, "declared_by": framing, "elevated": elevated, "destination": format!("{}:{}", ip, port)},
                "got": {"client_status": st, "bytes_at_host": bytes, "problems": problems}, "want": if size > limit { "4xx and 0 bytes relayed" } else { "relayed intact, host's 200 at the client" }}));
        }
    };

    let framings = |size: usize| -> Vec<(String, ReqBody)> {
        let d = data(size);
        vec![
            ("Content-Length".to_string(), ReqBody::Len(d.clone())),
            ("chunked, one chunk".to_string(), ReqBody::Chunked(d.clone(), vec![size + 1])),
            ("chunked, 1000-byte chunks".to_string(), ReqBody::Chunked(d.clone(), vec![1000])),
            ("chunked, 65536 + 1 + ...".to_string(), ReqBody::Chunked(d.clone(), vec![65536, 1, 30000])),
            ("chunked, limit-1 then 1-byte chunks".to_string(), ReqBody::Chunked(d.clone(), vec![100 * 1024 - 1, 1, 1, 1])),
        ]
    };

    for (key, real) in [(true, false), (false, false), (true, true)] {
        if real && audit.is_none() { continue; }
        h.set_key(if key { Some(vx_key()) } else { None });
        // ---- non-exempt method/URL combinations (incl. the exempt URLs with the other method and near-miss URLs)
        let non_exempt: Vec<(&str, &str, bool)> = vec![
            ("POST", "/machine?comp=upload", true), ("PUT", "/machine/x/y", true), ("POST", "/metadata/upload?api-version=1", false), ("PATCH", "/metadata/x", false),
            ("POST", "/vmAgentLog", true), ("PUT", "/machine/?comp=telemetrydata", true), ("PUT", "/vmAgentLogs", true), ("POST", "/machine/?comp=telemetrydata&x=1", true), ("POST", "/machine?comp=telemetrydata", true),
        ];
        for (method, target, elevated) in non_exempt.iter() {
            for size in [low - 1, low, low + 1] {
                for (fname, body) in framings(size) {
                    run(&mut n, real, false, *elevated, method, target, body, &fname);
                }
            }
        }
        // ---- the two exempt uploads, letter-case variants of the URL
        let exempt: Vec<(&str, &str)> = vec![("PUT", "/vmAgentLog"), ("PUT", "/VMAGENTLOG"), ("PUT", "/vmagentlog"), ("POST", "/machine/?comp=telemetrydata"), ("POST", "/MACHINE/?COMP=TELEMETRYDATA"), ("POST", "/Machine/?comp=TelemetryData")];
        for (method, target) in exempt.iter() {
            for size in [low - 1, low, low + 1, 3 * low + 7] {
                for (fname, body) in framings(size).into_iter().take(3) {
                    run(&mut n, real, true, true, method, target, body, &fname);
                }
            }
        }
    }
    drop(run);

    // ---- declared sizes far above / just above the limits: refused on the declaration alone (no body is sent, the client only reads the answer)
    h.set_key(Some(vx_key()));
    let declared: Vec<(&str, &str, usize, usize)> = vec![
        ("POST", "/machine?comp=upload", low + 1, low), ("POST", "/machine?comp=upload", large, low), ("PUT", "/machine/x", 10 * 1024 * 1024, low),
        ("PUT", "/vmAgentLog", large + 1, large), ("PUT", "/VMAGENTLOG", large + 1, large), ("POST", "/machine/?comp=telemetrydata", large + 1, large), ("POST", "/Machine/?Comp=TelemetryData", 2 * large, large),
    ];
    for real in paths.iter() {
    for (method, target, size, limit) in declared.iter() {
        n += 1;
        let wire = format!("{} {} HTTP/1.1\r\nHost: 168.63.129.16\r\nContent-Length: {}\r\n\r\n", method, target, size).into_bytes();
        let (r, bytes, _reqs) = if *real { h.one_real(&h.ps, Some((audit.as_ref().unwrap(), true)), wire, false) } else { h.one(&h.ps, &Attribution::full(true, "168.63.129.16", 80), wire, false) };
        let st = vx_status(&r);
        if !(400..500).contains(&st) || bytes != 0 {
            vx_fail(serde_json::json!({"property": "C15", "input": {"path": if *real { "real handle_new_tcp_connection" } else { "replicated limit wiring" }, "request": format!("{} {}", method, target), "limit": limit, "declared_content_length": size, "body_sent": "none (headers only)"},
                "got": {"client_status": st, "client_error": r.as_ref().err(), "bytes_at_host": bytes}, "want": "4xx and 0 bytes relayed"}));
        }
    }
    }
    println!("VXW-DONE {}", n);
}
