// Witness generator for C03 (and the mode table of C11), compiled into the real crate next to proxy_authorizer.rs.
// Oracle = the statement: WireServer/HostGAPlugin never relayed for a non-elevated caller whatever the rules; the proxy's
// own listener address always refused; otherwise by the rules: allowed -> Ok, denied -> audit: OkWithAudit, enforce: Forbidden.
use crate::key_keeper::key::{AccessControlRules, AuthorizationItem, Identity, Privilege, Role, RoleAssignment};
use crate::proxy::authorization_rules::ComputedAuthorizationItem;
use crate::proxy::proxy_connection::ConnectionLogger;
use std::str::FromStr;

fn claims(elevated: bool) -> crate::proxy::Claims {
    crate::proxy::Claims {
        userId: if elevated { 0 } else { 1000 },
        userName: "alice".to_string(),
        userGroups: vec!["users".to_string()],
        processId: 4242,
        processName: std::ffi::OsString::from("tool"),
        processFullPath: std::path::PathBuf::from("/usr/bin/tool"),
        processCmdLine: "tool --x".to_string(),
        runAsElevated: elevated,
        clientIp: "127.0.0.1".to_string(),
        clientPort: 5555,
    }
}

// kind: 0 = matching privilege granted to the caller, 1 = matching privilege granted to somebody else, 2 = no privilege matches
fn rules(mode: &str, default_access: &str, kind: u8) -> ComputedAuthorizationItem {
    let path = if kind == 2 { "/nomatch" } else { "/machine" };
    let user = if kind == 1 { "bob" } else { "alice" };
    let item = AuthorizationItem {
        defaultAccess: default_access.to_string(),
        mode: mode.to_string(),
        id: "id".to_string(),
        rules: Some(AccessControlRules {
            privileges: Some(vec![Privilege { name: "p".to_string(), path: path.to_string(), queryParameters: None }]),
            roles: Some(vec![Role { name: "r".to_string(), privileges: vec!["p".to_string()] }]),
            identities: Some(vec![Identity { name: "i".to_string(), userName: Some(user.to_string()), groupName: None, exePath: None, processName: None }]),
            roleAssignments: Some(vec![RoleAssignment { role: "r".to_string(), identities: vec!["i".to_string()] }]),
        }),
    };
    ComputedAuthorizationItem::from_authorization_item(item)
}

#[test]
fn console_vxw_c03() {
    let dests: [(&str, u16, &str); 6] = [
        ("168.63.129.16", 80, "wireserver"), ("168.63.129.16", 32526, "hostga"), ("169.254.169.254", 80, "imds"),
        ("127.0.0.1", 3080, "self"), ("10.0.0.4", 80, "other"), ("168.63.129.16", 8080, "other"),
    ];
    let mut n = 0u64;
    for (ip, port, ep) in dests.iter() {
        for elevated in [false, true] {
            for url in ["/machine?comp=goalstate", "/MACHINE/x"] {
                // None = no rule set for the endpoint
                let mut cases: Vec<(String, Option<ComputedAuthorizationItem>, Option<(bool, String)>)> = vec![("none".to_string(), None, None)];
                for mode in ["disabled", "audit", "enforce"] {
                    for da in ["allow", "deny"] {
                        for kind in 0u8..3 {
                            let allowed = mode == "disabled" || kind == 0 || (kind == 2 && da == "allow");
                            cases.push((format!("{}/{}/{}", mode, da, kind), Some(rules(mode, da, kind)), Some((allowed, mode.to_string()))));
                        }
                    }
                }
                for (desc, r, view) in cases {
                    n += 1;
                    let mut logger = ConnectionLogger::new(0, 0);
                    let got = super::authorize(ip.to_string(), *port, &mut logger, hyper::Uri::from_str(url).unwrap(), claims(elevated), r);
                    let got_s = if got == super::AuthorizeResult::Ok { "Ok" } else if got == super::AuthorizeResult::OkWithAudit { "OkWithAudit" } else { "Forbidden" };
                    let by_rules = match &view { None => "Ok", Some((true, _)) => "Ok", Some((false, m)) if m == "audit" => "OkWithAudit", Some((false, _)) => "Forbidden" };
                    let want = match *ep {
                        "self" => "Forbidden",
                        "other" => "Ok",
                        "wireserver" | "hostga" => if !elevated { "Forbidden" } else { by_rules },
                        _ => by_rules,
                    };
                    if got_s != want {
                        println!("VXW-FAIL {{\"destination\":\"{}:{}\",\"elevated\":{},\"url\":\"{}\",\"rules\":\"{}\",\"got\":\"{}\",\"want\":\"{}\"}}", ip, port, elevated, url, desc, got_s, want);
                    }
                }
            }
        }
    }
    // ---- the caller's elevation as the agent derives it from the kernel's record: only the value the hook writes for root (1)
    //      elevates; 0 and every value the hook never writes (-1, 2, i32::MIN, i32::MAX) must not open WireServer / HostGAPlugin
    let rt = tokio::runtime::Builder::new_current_thread().enable_all().build().unwrap();
    let _guard = rt.enter();
    let pss = crate::shared_state::proxy_server_wrapper::ProxyServerSharedState::start_new();
    for is_admin in [0i32, -1, 2, i32::MIN, i32::MAX, 256, 1] {
        let entry = crate::redirector::AuditEntry { logon_id: 0, process_id: std::process::id(), is_admin, destination_ipv4: 0, destination_port: 0 };
        let c = rt.block_on(crate::proxy::Claims::from_audit_entry(&entry, "127.0.0.1".parse().unwrap(), 5555, pss.clone()));
        let c = match c { Ok(c) => c, Err(e) => { println!("VXW-NOTE from_audit_entry failed for is_admin {}: {}", is_admin, e); continue; } };
        for (ip, port, ep) in [("168.63.129.16", 80u16, "wireserver"), ("168.63.129.16", 32526, "hostga")] {
            for r in [None, Some(rules("disabled", "allow", 0)), Some(rules("audit", "allow", 2)), Some(rules("enforce", "allow", 2))] {
                n += 1;
                let mut logger = ConnectionLogger::new(0, 0);
                let got = super::authorize(ip.to_string(), port, &mut logger, hyper::Uri::from_str("/machine?comp=goalstate").unwrap(), c.clone(), r);
                let relayable = got != super::AuthorizeResult::Forbidden;
                if relayable != (is_admin == 1) {
                    println!("VXW-FAIL {{\"case\":\"elevation derived from the audit record\",\"is_admin_in_record\":{},\"endpoint\":\"{}\",\"runAsElevated\":{},\"relayable\":{},\"want_relayable\":{}}}", is_admin, ep, c.runAsElevated, relayable, is_admin == 1);
                }
            }
        }
    }
    println!("VXW-DONE {}", n);
}
