// Witness generator for C17 (setup tool reversibility), compiled into the real proxy_agent_setup crate (appended to main.rs).
//
// The tool's system locations are hard-coded (/usr/sbin/azure-proxy-agent, /etc/azure/proxy-agent.json,
// /usr/lib/azure-proxy-agent/ebpf_cgroup.o, /usr/lib/systemd/system/azure-proxy-agent.service) and its setup folder is the
// folder of its own executable. Nothing is edited: the test thread moves into a PRIVATE MOUNT NAMESPACE and puts a
// throw-away overlay over /etc and /usr, so everything the tool writes there lands in a temp folder (the overlay's upper
// layer, which also shows every path the tool touched); the tool itself is a copy of this test executable placed in a
// temp folder, re-executed with the real command words so that the REAL `main()` (argument parsing, the command's match
// arm, stop -> copy -> unit -> enable -> start) runs; `systemctl` is a stand-in found first on PATH (again a copy of this
// executable) that records its arguments and the content of the four system files at the moment it is called.
//
// Oracle = the statement:
//   install            : the four system files are exactly the packaged ones; service stopped before any file was
//                        replaced and started afterwards
//   backup..restore    : restore reinstates byte for byte what the last backup saw (service stopped before / started after)
//   restore, no backup : changes nothing
//   uninstall package  : the installed files are gone
//   purge              : removes the backup (a following restore changes nothing), nothing else
//   every command      : no path outside the four locations (below /etc, /usr), the backup folder and the tool's log
//                        (below the setup folder) is created, changed or removed; the package is never altered
// (`uninstall service` : only the last clause is checked, the statement does not say which files stay.)
// Needs root (mount namespace). Without it the witness prints VXW-NOTE and runs nothing.
use std::collections::BTreeMap;
use std::ffi::CString;
use std::os::raw::c_char;
use std::fs;
use std::os::unix::fs::{FileTypeExt, PermissionsExt};
use std::path::{Path, PathBuf};

const SYS: [&str; 4] = [
    "/usr/sbin/azure-proxy-agent",
    "/etc/azure/proxy-agent.json",
    "/usr/lib/azure-proxy-agent/ebpf_cgroup.o",
    "/usr/lib/systemd/system/azure-proxy-agent.service",
];
const SYS_NAME: [&str; 4] = ["agent executable", "configuration file", "eBPF object", "service unit"];

extern "C" {
    fn unshare(flags: i32) -> i32;
    fn mount(src: *const c_char, target: *const c_char, fstype: *const c_char, flags: std::os::raw::c_ulong, data: *const c_char) -> i32;
    fn umount2(target: *const c_char, flags: i32) -> i32;
    fn geteuid() -> u32;
}

fn exe_name() -> String {
    std::env::args().next().map(|a| Path::new(&a).file_name().map(|f| f.to_string_lossy().to_string()).unwrap_or_default()).unwrap_or_default()
}

// ---- role 1: the tool itself. Re-executed copy of this test executable; libtest selects this test through the command
// words (its name contains all of them), and the REAL main() then parses the same words.
#[test]
fn vxw_child_backup_restore_uninstall_purge_service_package_true_false() {
    if std::env::var("VXW_C17_CHILD").is_err() || exe_name() == "systemctl" {
        return;
    }
    super::main();
}

// ---- role 2: stand-in for systemctl (selected through systemctl's verbs)
#[test]
fn vxw_stub_stop_start_unmask_enable_disable() {
    let dir = match std::env::var("VXW_C17_CALLS") {
        Ok(d) => PathBuf::from(d),
        Err(_) => return,
    };
    if exe_name() != "systemctl" {
        return;
    }
    let n = fs::read_dir(&dir).map(|r| r.flatten().filter(|e| e.file_name().to_string_lossy().ends_with(".args")).count()).unwrap_or(0);
    let args: Vec<String> = std::env::args().skip(1).collect();
    for (i, f) in SYS.iter().enumerate() {
        if let Ok(b) = fs::read(f) {
            let _ = fs::write(dir.join(format!("{:04}.f{}", n, i)), b);
        }
    }
    let _ = fs::write(dir.join(format!("{:04}.args", n)), args.join(" "));
    // like systemd: stopping a unit whose unit file does not exist fails ("Unit ... not loaded", exit status 5); every other verb succeeds
    if args.len() == 2 && args[0] == "stop" && !Path::new(SYS[3]).exists() {
        eprintln!("Failed to stop {}.service: Unit {}.service not loaded.", args[1], args[1]);
        std::process::exit(5);
    }
}

// ---- role 3: the driver
type Files = [Option<Vec<u8>>; 4];

fn read_sys() -> Files {
    [fs::read(SYS[0]).ok(), fs::read(SYS[1]).ok(), fs::read(SYS[2]).ok(), fs::read(SYS[3]).ok()]
}

fn write_file(p: &Path, content: &[u8], mode: u32) {
    if let Some(d) = p.parent() {
        let _ = fs::create_dir_all(d);
    }
    fs::write(p, content).unwrap();
    let _ = fs::set_permissions(p, fs::Permissions::from_mode(mode));
}

fn write_sys(s: &Files) {
    for i in 0..4 {
        match &s[i] {
            Some(b) => write_file(Path::new(SYS[i]), b, if i == 0 { 0o755 } else { 0o644 }),
            None => {
                let _ = fs::remove_file(SYS[i]);
            }
        }
    }
}

fn agent_script(version: &str, payload: &str) -> Vec<u8> {
    format!("#!/bin/sh\n# {}\necho {}\n", payload, version).into_bytes()
}

fn blob(seed: u8, len: usize) -> Vec<u8> {
    (0..len).map(|i| (i as u32).wrapping_mul(31).wrapping_add(seed as u32) as u8).collect()
}

// four files of one "version": exe, config, ebpf, unit
fn version_files(tag: &str, set: usize) -> Files {
    let (ebpf_len, cfg_tail) = if set == 0 { (777usize, "\n") } else { (70001usize, "\r\n\t") };
    let seed = tag.bytes().fold(7u8, |a, b| a.wrapping_mul(13).wrapping_add(b));
    [
        Some(agent_script(&format!("1.0.{}", seed), &format!("agent {} payload \\x00 $HOME `x` {}", tag, "p".repeat(set * 300)))),
        Some(format!("{{\"logFolder\":\"/var/log/{}\",\"set\":{}}}{}", tag, set, cfg_tail).into_bytes()),
        Some(if tag == "Z" && set == 0 { Vec::new() } else { blob(seed, ebpf_len) }),
        Some(format!("[Unit]\nDescription=agent {}\n[Service]\nExecStart=/usr/sbin/azure-proxy-agent\n# {}\n", tag, "u".repeat(set * 50)).into_bytes()),
    ]
}

struct Env {
    work: PathBuf,
    tool_dir: PathBuf,
    tool: PathBuf,
    bin: PathBuf,
    calls: PathBuf,
    mounts: u32,
    etc_up: PathBuf,
    usr_up: PathBuf,
}

fn cstr(p: &Path) -> CString {
    CString::new(p.to_string_lossy().as_bytes()).unwrap()
}

impl Env {
    fn unmount(&mut self) {
        let (e, u) = (cstr(Path::new("/etc")), cstr(Path::new("/usr")));
        unsafe {
            umount2(e.as_ptr(), 2);
            umount2(u.as_ptr(), 2);
        }
        let _ = fs::remove_dir_all(self.work.join("ov"));
    }
    // fresh, empty overlays over /etc and /usr
    fn remount(&mut self) -> bool {
        if self.mounts > 0 {
            self.unmount();
        }
        self.mounts += 1;
        let base = self.work.join("ov").join(format!("{}", self.mounts));
        let mut ok = true;
        for (name, target) in [("etc", "/etc"), ("usr", "/usr")] {
            let up = base.join(format!("{}_up", name));
            let wk = base.join(format!("{}_wk", name));
            fs::create_dir_all(&up).unwrap();
            fs::create_dir_all(&wk).unwrap();
            let opts = CString::new(format!("lowerdir={},upperdir={},workdir={}", target, up.display(), wk.display())).unwrap();
            let (ov, tg) = (CString::new("overlay").unwrap(), cstr(Path::new(target)));
            let r = unsafe { mount(ov.as_ptr(), tg.as_ptr(), ov.as_ptr(), 0, opts.as_ptr()) };
            ok = ok && r == 0;
            if name == "etc" {
                self.etc_up = up;
            } else {
                self.usr_up = up;
            }
        }
        ok
    }
}

// every path below a folder -> (kind, content); whiteouts of an overlay upper layer show as removed
fn tree(root: &Path, skip: &dyn Fn(&str) -> bool) -> BTreeMap<String, (char, Vec<u8>, u32)> {
    fn walk(root: &Path, dir: &Path, out: &mut BTreeMap<String, (char, Vec<u8>, u32)>, skip: &dyn Fn(&str) -> bool) {
        if let Ok(rd) = fs::read_dir(dir) {
            for e in rd.flatten() {
                let p = e.path();
                let rel = p.strip_prefix(root).unwrap().to_string_lossy().to_string();
                if skip(&rel) {
                    continue;
                }
                if let Ok(md) = fs::symlink_metadata(&p) {
                    let mode = md.permissions().mode() & 0o777;
                    if md.is_dir() {
                        out.insert(rel, ('d', Vec::new(), mode));
                        walk(root, &p, out, skip);
                    } else if md.file_type().is_char_device() {
                        out.insert(rel, ('w', Vec::new(), 0));
                    } else {
                        out.insert(rel, ('f', fs::read(&p).unwrap_or_default(), mode));
                    }
                }
            }
        }
    }
    let mut out = BTreeMap::new();
    walk(root, root, &mut out, skip);
    out
}

fn changed_paths(a: &BTreeMap<String, (char, Vec<u8>, u32)>, b: &BTreeMap<String, (char, Vec<u8>, u32)>) -> Vec<String> {
    let mut v = Vec::new();
    for (k, x) in a {
        match b.get(k) {
            None => v.push(k.clone()),
            Some(y) => {
                if x.0 != y.0 || x.1 != y.1 {
                    v.push(k.clone())
                }
            }
        }
    }
    for k in b.keys() {
        if !a.contains_key(k) {
            v.push(k.clone());
        }
    }
    v
}

#[derive(Clone)]
struct State {
    sys: Files,
    backup_tree: BTreeMap<String, (char, Vec<u8>, u32)>, // whatever the tool keeps below <setup folder>/ProxyAgent/Backup
    saved: Option<Files>,                                  // model: what the last backup saw (None = no backup)
    history: Vec<String>,
}

#[derive(Clone, Copy, PartialEq)]
enum Cmd {
    Backup,
    Install,
    Restore(bool),
    UninstallService,
    UninstallPackage,
    Purge,
}

impl Cmd {
    fn words(&self) -> Vec<&'static str> {
        match self {
            Cmd::Backup => vec!["backup"],
            Cmd::Install => vec!["install"],
            // `restore` deletes the backup afterwards; the tool's parser accepts no value for DELETE_BACKUP (`restore false`
            // and `restore true` are rejected: "0 values required"), so the variant that keeps the backup cannot be invoked
            Cmd::Restore(_) => vec!["restore"],
            Cmd::UninstallService => vec!["uninstall", "service"],
            Cmd::UninstallPackage => vec!["uninstall", "package"],
            Cmd::Purge => vec!["purge"],
        }
    }
}

fn package_files(env: &Env, pkg: &Files) {
    let pa = env.tool_dir.join("ProxyAgent");
    write_file(&pa.join("azure-proxy-agent"), pkg[0].as_ref().unwrap(), 0o755);
    write_file(&pa.join("proxy-agent.json"), pkg[1].as_ref().unwrap(), 0o644);
    write_file(&pa.join("ebpf_cgroup.o"), pkg[2].as_ref().unwrap(), 0o644);
    write_file(&env.tool_dir.join("azure-proxy-agent.service"), pkg[3].as_ref().unwrap(), 0o644);
}

fn materialize(env: &mut Env, st: &State, pkg: &Files) -> bool {
    if !env.remount() {
        return false;
    }
    write_sys(&st.sys);
    // bystanders: files next to the four locations that the tool never installed (a package tree beside the eBPF object, another
    // configuration file, another unit, another executable): "no command alters any file outside those locations"
    write_file(Path::new("/usr/lib/azure-proxy-agent/package/keep.txt"), b"not installed by the setup tool\n", 0o644);
    write_file(Path::new("/etc/azure/other.conf"), b"other = 1\n", 0o644);
    write_file(Path::new("/usr/lib/systemd/system/other-agent.service"), b"[Unit]\nDescription=other\n", 0o644);
    write_file(Path::new("/usr/sbin/azure-proxy-agent-helper"), b"#!/bin/sh\n", 0o755);
    // setup folder: package + backup as left by the history so far; logs of earlier commands removed
    if let Ok(rd) = fs::read_dir(&env.tool_dir) {
        for e in rd.flatten() {
            if e.path() != env.tool {
                let _ = fs::remove_dir_all(e.path());
                let _ = fs::remove_file(e.path());
            }
        }
    }
    package_files(env, pkg);
    let b = env.tool_dir.join("ProxyAgent").join("Backup");
    if !st.backup_tree.is_empty() {
        fs::create_dir_all(&b).unwrap();
    }
    for (rel, (kind, content, mode)) in &st.backup_tree {
        if *kind == 'd' {
            fs::create_dir_all(b.join(rel)).unwrap();
        } else {
            write_file(&b.join(rel), content, *mode);
        }
    }
    true
}

struct Call {
    args: String,
    files: Files,
}

fn run_tool(env: &Env, cmd: Cmd) -> Vec<Call> {
    let _ = fs::remove_dir_all(&env.calls);
    fs::create_dir_all(&env.calls).unwrap();
    let path = format!("{}:{}", env.bin.display(), std::env::var("PATH").unwrap_or_default());
    let _ = std::process::Command::new(&env.tool)
        .args(cmd.words())
        .env("VXW_C17_CHILD", "1")
        .env("VXW_C17_CALLS", &env.calls)
        .env("PATH", path)
        .current_dir(&env.tool_dir)
        .output();
    let mut calls = Vec::new();
    let mut n = 0;
    loop {
        let a = env.calls.join(format!("{:04}.args", n));
        if !a.exists() {
            break;
        }
        let f = |i: usize| fs::read(env.calls.join(format!("{:04}.f{}", n, i))).ok();
        calls.push(Call { args: fs::read_to_string(&a).unwrap_or_default(), files: [f(0), f(1), f(2), f(3)] });
        n += 1;
    }
    calls
}

fn describe(f: &Option<Vec<u8>>) -> String {
    match f {
        None => "absent".to_string(),
        Some(b) => {
            let head: String = String::from_utf8_lossy(&b[..b.len().min(40)]).chars().map(|c| if c.is_ascii_graphic() || c == ' ' { c } else { '.' }).filter(|c| *c != '"' && *c != '\\').collect();
            format!("{} bytes '{}'", b.len(), head)
        }
    }
}

fn same(a: &Files, b: &Files) -> Option<usize> {
    (0..4).find(|i| a[*i] != b[*i])
}

// executes one command from the given state, checks it, returns the state reached (as observed)
fn step(env: &mut Env, st: &State, cmd: Cmd, pkg: &Files, root_desc: &str, fails: &mut Vec<String>) -> Option<State> {
    if !materialize(env, st, pkg) {
        return None;
    }
    let skip_tool = |rel: &str| rel == "setup_under_test";
    let etc_before = tree(&env.etc_up, &|_| false);
    let usr_before = tree(&env.usr_up, &|_| false);
    let tool_before = tree(&env.tool_dir, &skip_tool);
    let calls = run_tool(env, cmd);
    let after = read_sys();
    let etc_after = tree(&env.etc_up, &|_| false);
    let usr_after = tree(&env.usr_up, &|_| false);
    let tool_after = tree(&env.tool_dir, &skip_tool);
    let mut hist = st.history.clone();
    hist.push(cmd.words().join(" "));
    let head = format!("\"start\":\"{}\",\"commands\":\"{}\"", root_desc, hist.join(" ; "));
    let mut complain = |what: &str, got: String, want: String| {
        fails.push(format!("{{{},\"what\":\"{}\",\"got\":\"{}\",\"want\":\"{}\"}}", head, what, got, want));
    };

    // (1) what the four files must be now
    let installed = st.sys[0].is_some();
    let has_backup = st.saved.is_some();
    let expect: Option<Files> = match cmd {
        Cmd::Backup | Cmd::Purge => Some(st.sys.clone()),
        Cmd::Install => Some(pkg.clone()),
        Cmd::Restore(_) => Some(if has_backup { st.saved.clone().unwrap() } else { st.sys.clone() }),
        Cmd::UninstallPackage => Some([None, None, None, None]),
        Cmd::UninstallService => None,
    };
    let mut ok = true;
    if let Some(exp) = &expect {
        if let Some(i) = same(&after, exp) {
            ok = false;
            let what = match cmd {
                Cmd::Install => "install must place exactly the packaged files",
                Cmd::Restore(_) if has_backup => "restore must reinstate byte for byte what the backup saw",
                Cmd::Restore(_) => "restore without a backup must change nothing",
                Cmd::UninstallPackage => "uninstall in package mode must remove the installed files",
                Cmd::Purge => "purge must remove only the backup",
                _ => "backup must not alter the installed files",
            };
            complain(what, format!("{}: {}", SYS_NAME[i], describe(&after[i])), format!("{}: {}", SYS_NAME[i], describe(&exp[i])));
        }
    }
    // (2) service stopped before any file was replaced, started again afterwards
    if ok && matches!(cmd, Cmd::Install | Cmd::Restore(_)) && same(&after, &st.sys).is_some() {
        let first_changed = calls.iter().position(|c| same(&c.files, &st.sys).is_some()).unwrap_or(calls.len());
        let stopped_before = calls[..first_changed].iter().any(|c| c.args == "stop azure-proxy-agent");
        if !stopped_before {
            ok = false;
            let seen: Vec<String> = calls.iter().enumerate().map(|(i, c)| format!("{}{}", c.args, if i >= first_changed { " [files already replaced]" } else { "" })).collect();
            complain("service must be stopped before any file is replaced", format!("systemctl calls: {}", seen.join(", ")), "a 'stop azure-proxy-agent' while the four files are still untouched".to_string());
        } else {
            let started_after = calls.iter().any(|c| c.args == "start azure-proxy-agent" && same(&c.files, &after).is_none());
            if !started_after {
                ok = false;
                let seen: Vec<String> = calls.iter().map(|c| c.args.clone()).collect();
                complain("service must be started again after the files are in place", format!("systemctl calls: {}", seen.join(", ")), "a 'start azure-proxy-agent' with all four files in their final state".to_string());
            }
        }
    }
    // (2b) restore without a backup changes nothing: in particular it must not leave the service stopped
    if ok && matches!(cmd, Cmd::Restore(_)) && !has_backup {
        if let Some(i) = calls.iter().rposition(|c| c.args == "stop azure-proxy-agent") {
            if !calls[i..].iter().any(|c| c.args == "start azure-proxy-agent") {
                ok = false;
                let seen: Vec<String> = calls.iter().map(|c| c.args.clone()).collect();
                complain("restore without a backup must change nothing", format!("service stopped and not started again; systemctl calls: {}", seen.join(", ")), "service left as it was".to_string());
            }
        }
    }
    // (3) nothing outside the locations, the backup folder and the log
    if ok {
        let allowed_etc = ["azure", "azure/proxy-agent.json"];
        let allowed_usr = ["sbin", "sbin/azure-proxy-agent", "lib", "lib/azure-proxy-agent", "lib/azure-proxy-agent/ebpf_cgroup.o", "lib/systemd", "lib/systemd/system", "lib/systemd/system/azure-proxy-agent.service"];
        let mut outside: Vec<String> = Vec::new();
        for p in changed_paths(&etc_before, &etc_after) {
            if !allowed_etc.contains(&p.as_str()) {
                outside.push(format!("/etc/{}", p));
            }
        }
        for p in changed_paths(&usr_before, &usr_after) {
            if !allowed_usr.contains(&p.as_str()) {
                outside.push(format!("/usr/{}", p));
            }
        }
        for p in changed_paths(&tool_before, &tool_after) {
            let in_backup = p == "ProxyAgent/Backup" || p.starts_with("ProxyAgent/Backup/");
            let is_log = !p.contains('/') && p.starts_with("setup");
            if !in_backup && !is_log {
                outside.push(format!("<setup folder>/{}", p));
            }
        }
        if !outside.is_empty() {
            ok = false;
            complain("no command may alter a file outside the four locations, the backup folder and the log", outside.join(", "), "untouched".to_string());
        }
    }
    // (4) restore without a backup / a purge leave no backup behind: checked through the next restore in the history
    if ok && matches!(cmd, Cmd::Restore(_)) && !has_backup {
        let b = changed_paths(&tool_before, &tool_after).into_iter().filter(|p| p.starts_with("ProxyAgent")).collect::<Vec<_>>();
        if !b.is_empty() {
            ok = false;
            complain("restore without a backup must change nothing", b.join(", "), "untouched".to_string());
        }
    }
    if !ok {
        return None; // the model and the tree under test diverged: do not build on this state
    }
    // the state reached
    let backup_root = env.tool_dir.join("ProxyAgent").join("Backup");
    let backup_tree = tree(&backup_root, &|_| false);
    let saved = match cmd {
        Cmd::Backup => {
            if installed {
                Some(st.sys.clone())
            } else {
                return None; // backup of nothing: the statement does not say what a later restore gives
            }
        }
        Cmd::Restore(true) if has_backup => None,
        Cmd::Purge => None,
        _ => st.saved.clone(),
    };
    Some(State { sys: after, backup_tree, saved, history: hist })
}

fn explore(env: &mut Env, st: &State, depth: usize, pkg: &Files, root_desc: &str, fails: &mut Vec<String>, n: &mut u64, t0: &std::time::Instant) {
    if depth == 0 || fails.len() >= 12 || t0.elapsed().as_secs() > 240 {
        return;
    }
    for cmd in [Cmd::Backup, Cmd::Install, Cmd::Restore(true), Cmd::UninstallService, Cmd::UninstallPackage, Cmd::Purge] {
        if cmd == Cmd::Backup && st.sys[0].is_none() {
            continue;
        }
        *n += 1;
        if let Some(next) = step(env, st, cmd, pkg, root_desc, fails) {
            // after `uninstall service` the statement does not fix which files remain: continue from what is observed
            if next.sys.iter().any(|f| f.is_some()) != next.sys.iter().all(|f| f.is_some()) {
                // partially installed (what `uninstall service` leaves): not an initial state of the statement, but sequences go through
                // it. The two commands whose clause does not depend on the state they start from are tried from here: `uninstall
                // package` (the installed files are gone) and `install` (exactly the packaged files).
                if depth > 1 {
                    for c2 in [Cmd::UninstallPackage, Cmd::Install] {
                        *n += 1;
                        if let Some(n2) = step(env, &next, c2, pkg, root_desc, fails) {
                            if n2.sys.iter().any(|f| f.is_some()) == n2.sys.iter().all(|f| f.is_some()) {
                                explore(env, &n2, depth.saturating_sub(2), pkg, root_desc, fails, n, t0);
                            }
                        }
                    }
                }
                continue;
            }
            explore(env, &next, depth - 1, pkg, root_desc, fails, n, t0);
        }
    }
}

#[test]
fn vxw_c17_sequences() {
    if std::env::var("VXW_C17_CHILD").is_ok() {
        return;
    }
    if unsafe { geteuid() } != 0 {
        println!("VXW-NOTE C17 witness needs root for a private mount namespace; nothing run");
        return;
    }
    let work = std::env::temp_dir().join(format!("vxw_c17_{}", std::process::id()));
    let _ = fs::remove_dir_all(&work);
    let tool_dir = work.join("setup");
    let bin = work.join("bin");
    fs::create_dir_all(&tool_dir).unwrap();
    fs::create_dir_all(&bin).unwrap();
    let me = std::env::current_exe().unwrap();
    let tool = tool_dir.join("setup_under_test");
    fs::copy(&me, &tool).unwrap();
    if fs::hard_link(&tool, bin.join("systemctl")).is_err() {
        fs::copy(&me, bin.join("systemctl")).unwrap();
    }
    // private mount namespace for this thread (and the children it spawns)
    let (none, slash) = (CString::new("none").unwrap(), CString::new("/").unwrap());
    let private = unsafe { unshare(0x0002_0000) == 0 && mount(none.as_ptr(), slash.as_ptr(), std::ptr::null(), 16384 | (1 << 18), std::ptr::null()) == 0 };
    if !private {
        println!("VXW-NOTE C17 witness could not enter a private mount namespace; nothing run");
        let _ = fs::remove_dir_all(&work);
        return;
    }
    let mut env = Env { work: work.clone(), tool_dir, tool, bin, calls: work.join("calls"), mounts: 0, etc_up: PathBuf::new(), usr_up: PathBuf::new() };
    let mut n = 0u64;
    let t0 = std::time::Instant::now();
    let mut all_fails: Vec<String> = Vec::new();
    'outer: for set in 0..2usize {
        let pkg = version_files("P", set);
        let a = version_files("A", set);
        let z = version_files("Z", set);
        for installed in [true, false] {
            for stale_backup in [false, true] {
                let root_desc = format!("{}; {}; contents set {}", if installed { "version A installed" } else { "nothing installed" }, if stale_backup { "backup of an older version Z present" } else { "no backup" }, set);
                let mut fails: Vec<String> = Vec::new();
                // the backup of an earlier run is produced by the tool itself (version Z installed, `backup`)
                let mut st = State { sys: z.clone(), backup_tree: BTreeMap::new(), saved: None, history: vec![] };
                if stale_backup {
                    n += 1;
                    match step(&mut env, &st, Cmd::Backup, &pkg, "version Z installed; no backup", &mut fails) {
                        Some(s) => st = s,
                        None => {
                            if fails.is_empty() {
                                println!("VXW-NOTE C17 witness: overlay mount failed; stopping");
                                break 'outer;
                            }
                            all_fails.extend(fails);
                            continue;
                        }
                    }
                }
                st.sys = if installed { a.clone() } else { [None, None, None, None] };
                st.history = vec![];
                let depth = if set == 0 { 3 } else { 2 };
                explore(&mut env, &st, depth, &pkg, &root_desc, &mut fails, &mut n, &t0);
                all_fails.extend(fails);
            }
        }
    }
    env.unmount();
    let _ = fs::remove_dir_all(&work);
    for f in all_fails {
        println!("VXW-FAIL {}", f);
    }
    println!("VXW-DONE {}", n);
}
