// Witness generator for C18 (telemetry: at most once, well-formed, bounded batches), compiled into the real crate next to
// telemetry/event_reader.rs.
//
// Part 1 (serialiser): helpers::xml_escape and TelemetryData::to_xml over hostile event texts in every text field of the event
// and of the VM metadata. Part 2 (batching): EventReader::process_events reading real event files and POSTing to a loopback
// HTTP listener owned by this witness (no mock from the tree is used), including events around and above the 64 KiB limit,
// a corrupt file, several files, and scripted answers of the host to the telemetry POST: accepted with 200 / 201 / 202 / 204,
// refused with 302 / 307 / 404 / 429 / 500 / 503 or by dropping the connection, refusals followed by an acceptance.
//
// Oracle = the statement:
//   * every batch is a well-formed XML document smaller than 64 KiB            -> independent scanner below, body.len() < 65536
//   * each event's text appears as data and cannot alter the structure        -> the document's element/attribute skeleton equals
//     that of a batch of the same number of harmless events, the CDATA section of an event is closed only by the serialiser's
//     own terminator, its payload is itself well-formed (no attribute value terminated early) and every text of the event is
//     found, after un-escaping, as a complete attribute value
//   * each event is uploaded in at most one batch                             -> an event id occurs in at most one accepted POST
//     (accepted = the host answered with a 2xx status), is never posted again after the POST the host accepted, never occurs twice
//     inside a batch, and every POST that carries it has the same body (a retry of the same batch after a refusal).
//     The retry pause of the reader is 15 s: the scenarios with scripted answers are observed for 25 s (accepted at once) or
//     55 s (refused first), all of them concurrently with the rest of the enumeration
//   * an event too large for any batch is dropped rather than blocking the rest -> events whose single-event document is >= 64 KiB
//     are in no batch; with no upload failure every other event is in exactly one
//   * processing terminates and removes the files it consumed                 -> time limit; no *.json file left
use crate::common::helpers;
use crate::host_clients::wire_server_client::WireServerClient;
use crate::shared_state::agent_status_wrapper::AgentStatusSharedState;
use crate::shared_state::key_keeper_wrapper::KeyKeeperSharedState;
use crate::shared_state::telemetry_wrapper::TelemetrySharedState;
use crate::telemetry::event_reader::{EventReader, VmMetaData};
use crate::telemetry::telemetry_event::{TelemetryData, TelemetryEvent};
use proxy_agent_shared::telemetry::Event;
use std::io::Write;
use std::sync::{Arc, Mutex};
use std::time::Duration;

const LIMIT: usize = 64 * 1024;

// ---------------------------------------------------------------------------------------------------------------------
// output: the code under test logs to stdout (an oversize event is logged with its full text, and a non-terminating variant
// would do so forever), so stdout is pointed at /dev/null for the duration of the test and the VXW lines go to the saved fd.
struct Out {
    #[cfg(unix)]
    saved: std::fs::File,
    cases: u64,
    fails: u64,
}

impl Out {
    fn new() -> Out {
        #[cfg(unix)]
        {
            use std::os::unix::io::{AsRawFd, FromRawFd};
            let _ = std::io::stdout().flush();
            let saved_fd = unsafe { libc::dup(1) };
            let saved = unsafe { std::fs::File::from_raw_fd(saved_fd) };
            if let Ok(null) = std::fs::OpenOptions::new().write(true).open("/dev/null") {
                unsafe { libc::dup2(null.as_raw_fd(), 1) };
            }
            Out { saved, cases: 0, fails: 0 }
        }
        #[cfg(not(unix))]
        {
            Out { cases: 0, fails: 0 }
        }
    }
    fn line(&mut self, s: &str) {
        #[cfg(unix)]
        {
            let _ = self.saved.write_all(format!("\n{}\n", s).as_bytes());
            let _ = self.saved.flush();
        }
        #[cfg(not(unix))]
        {
            println!("{}", s);
        }
    }
    fn fail(&mut self, what: &str, input: &str, got: &str, want: &str) {
        self.fails += 1;
        if self.fails <= 25 {
            let l = format!("VXW-FAIL {{\"what\":{},\"input\":{},\"got\":{},\"want\":{}}}", js(what), js(input), js(&clip(got)), js(want));
            self.line(&l);
        }
    }
    fn done(&mut self) {
        let l = format!("VXW-DONE {}", self.cases);
        self.line(&l);
    }
    fn restore(&mut self) {
        #[cfg(unix)]
        {
            use std::os::unix::io::AsRawFd;
            let _ = std::io::stdout().flush();
            unsafe { libc::dup2(self.saved.as_raw_fd(), 1) };
        }
    }
}

fn clip(s: &str) -> String {
    if s.chars().count() <= 300 {
        s.to_string()
    } else {
        let head: String = s.chars().take(280).collect();
        format!("{}...({} bytes)", head, s.len())
    }
}

fn js(s: &str) -> String {
    let mut o = String::from("\"");
    for c in s.chars() {
        match c {
            '"' => o.push_str("\\\""),
            '\\' => o.push_str("\\\\"),
            c if (c as u32) < 0x20 => o.push_str(&format!("\\u{:04x}", c as u32)),
            c => o.push(c),
        }
    }
    o.push('"');
    o
}

// ---------------------------------------------------------------------------------------------------------------------
// a small XML well-formedness scanner (elements, attributes, character data, CDATA sections, the five predefined entities and
// numeric character references; comments, processing instructions and DOCTYPE are not expected in a batch and are errors)
#[derive(Clone, Debug)]
enum Node {
    Elem(Elem),
    Text(String),
    CData(String),
}
#[derive(Clone, Debug)]
struct Elem {
    name: String,
    attrs: Vec<(String, String)>, // raw (still escaped) values
    children: Vec<Node>,
}

struct Scan<'a> {
    s: &'a str,
    i: usize,
}

impl<'a> Scan<'a> {
    fn rest(&self) -> &'a str {
        &self.s[self.i..]
    }
    fn eof(&self) -> bool {
        self.i >= self.s.len()
    }
    fn peek(&self) -> Option<char> {
        self.rest().chars().next()
    }
    fn skip_ws(&mut self) -> usize {
        let mut n = 0;
        while let Some(c) = self.peek() {
            if c == ' ' || c == '\t' || c == '\r' || c == '\n' {
                self.i += 1;
                n += 1;
            } else {
                break;
            }
        }
        n
    }
    fn err<T>(&self, m: &str) -> Result<T, String> {
        let ctx: String = self.rest().chars().take(40).collect();
        Err(format!("{} at byte {} near '{}'", m, self.i, ctx))
    }
    fn name(&mut self) -> Result<String, String> {
        let start = self.i;
        match self.peek() {
            Some(c) if c.is_ascii_alphabetic() || c == '_' || c == ':' => self.i += 1,
            _ => return self.err("name expected"),
        }
        while let Some(c) = self.peek() {
            if c.is_ascii_alphanumeric() || c == '_' || c == ':' || c == '-' || c == '.' {
                self.i += 1;
            } else {
                break;
            }
        }
        Ok(self.s[start..self.i].to_string())
    }
    // at '&': a complete reference must follow
    fn reference(&mut self) -> Result<(), String> {
        let r = self.rest();
        let end = match r.find(';') {
            Some(e) if e <= 10 => e,
            _ => return self.err("'&' does not start a reference"),
        };
        let body = &r[1..end];
        let ok = matches!(body, "amp" | "lt" | "gt" | "quot" | "apos")
            || (body.starts_with("#x") && body.len() > 2 && body[2..].chars().all(|c| c.is_ascii_hexdigit()))
            || (body.starts_with('#') && !body.starts_with("#x") && body.len() > 1 && body[1..].chars().all(|c| c.is_ascii_digit()));
        if !ok {
            return self.err("'&' does not start a reference");
        }
        self.i += end + 1;
        Ok(())
    }
    fn attr_value(&mut self) -> Result<String, String> {
        let q = match self.peek() {
            Some(c) if c == '"' || c == '\'' => c,
            _ => return self.err("quoted attribute value expected"),
        };
        self.i += 1;
        let start = self.i;
        loop {
            match self.peek() {
                None => return self.err("unterminated attribute value"),
                Some(c) if c == q => {
                    let v = self.s[start..self.i].to_string();
                    self.i += 1;
                    return Ok(v);
                }
                Some('<') => return self.err("'<' in attribute value"),
                Some('&') => self.reference()?,
                Some(c) => self.i += c.len_utf8(),
            }
        }
    }
    fn element(&mut self) -> Result<Elem, String> {
        if self.peek() != Some('<') {
            return self.err("'<' expected");
        }
        self.i += 1;
        let name = self.name()?;
        let mut attrs: Vec<(String, String)> = Vec::new();
        loop {
            let ws = self.skip_ws();
            if self.rest().starts_with("/>") {
                self.i += 2;
                return Ok(Elem { name, attrs, children: Vec::new() });
            }
            if self.rest().starts_with('>') {
                self.i += 1;
                break;
            }
            if ws == 0 {
                return self.err("whitespace expected before attribute");
            }
            let an = self.name()?;
            self.skip_ws();
            if self.peek() != Some('=') {
                return self.err("'=' expected");
            }
            self.i += 1;
            self.skip_ws();
            let v = self.attr_value()?;
            if attrs.iter().any(|(n, _)| *n == an) {
                return self.err("duplicate attribute");
            }
            attrs.push((an, v));
        }
        let children = self.content()?;
        if !self.rest().starts_with("</") {
            return self.err("end tag expected");
        }
        self.i += 2;
        let en = self.name()?;
        if en != name {
            return self.err("mismatched end tag");
        }
        self.skip_ws();
        if self.peek() != Some('>') {
            return self.err("'>' expected in end tag");
        }
        self.i += 1;
        Ok(Elem { name, attrs, children })
    }
    // content up to (not including) an end tag or the end of input
    fn content(&mut self) -> Result<Vec<Node>, String> {
        let mut out = Vec::new();
        loop {
            if self.eof() || self.rest().starts_with("</") {
                return Ok(out);
            }
            if self.rest().starts_with("<![CDATA[") {
                self.i += 9;
                match self.rest().find("]]>") {
                    None => return self.err("unterminated CDATA section"),
                    Some(e) => {
                        out.push(Node::CData(self.rest()[..e].to_string()));
                        self.i += e + 3;
                    }
                }
                continue;
            }
            if self.rest().starts_with("<!") || self.rest().starts_with("<?") {
                return self.err("comment / processing instruction / declaration not expected");
            }
            if self.rest().starts_with('<') {
                out.push(Node::Elem(self.element()?));
                continue;
            }
            let start = self.i;
            while let Some(c) = self.peek() {
                if c == '<' {
                    break;
                }
                if c == '&' {
                    self.reference()?;
                    continue;
                }
                if self.rest().starts_with("]]>") {
                    return self.err("']]>' in character data");
                }
                self.i += c.len_utf8();
            }
            out.push(Node::Text(self.s[start..self.i].to_string()));
        }
    }
}

fn parse_document(s: &str) -> Result<Elem, String> {
    let mut p = Scan { s, i: 0 };
    if p.rest().starts_with("<?xml") {
        match p.rest().find("?>") {
            Some(e) => {
                let decl = &p.rest()[..e];
                if decl.contains('<') && decl[1..].contains('<') {
                    return p.err("malformed XML declaration");
                }
                p.i += e + 2;
            }
            None => return p.err("unterminated XML declaration"),
        }
    }
    p.skip_ws();
    let root = p.element()?;
    p.skip_ws();
    if !p.eof() {
        return p.err("content after the root element");
    }
    Ok(root)
}

fn parse_fragment(s: &str) -> Result<Vec<Node>, String> {
    let mut p = Scan { s, i: 0 };
    let c = p.content()?;
    if !p.eof() {
        return p.err("stray end tag in payload");
    }
    Ok(c)
}

fn unescape(raw: &str) -> String {
    let mut out = String::new();
    let mut rest = raw;
    while let Some(pos) = rest.find('&') {
        out.push_str(&rest[..pos]);
        let r = &rest[pos..];
        let end = match r.find(';') {
            Some(e) => e,
            None => {
                out.push_str(r);
                return out;
            }
        };
        let body = &r[1..end];
        match body {
            "amp" => out.push('&'),
            "lt" => out.push('<'),
            "gt" => out.push('>'),
            "quot" => out.push('"'),
            "apos" => out.push('\''),
            b if b.starts_with("#x") => {
                if let Some(c) = u32::from_str_radix(&b[2..], 16).ok().and_then(char::from_u32) {
                    out.push(c)
                }
            }
            b if b.starts_with('#') => {
                if let Some(c) = b[1..].parse::<u32>().ok().and_then(char::from_u32) {
                    out.push(c)
                }
            }
            _ => out.push_str(&r[..end + 1]),
        }
        rest = &r[end + 1..];
    }
    out.push_str(rest);
    out
}

// element/attribute-name skeleton; whitespace-only text is ignored; CDATA payloads are scanned as fragments
fn skeleton_nodes(nodes: &[Node], out: &mut String) -> Result<(), String> {
    for n in nodes {
        match n {
            Node::Text(t) => {
                if !t.trim().is_empty() {
                    out.push_str("#text ");
                }
            }
            Node::CData(c) => {
                out.push_str("#cdata{");
                let inner = parse_fragment(c).map_err(|e| format!("CDATA payload is not well-formed: {}", e))?;
                skeleton_nodes(&inner, out)?;
                out.push_str("} ");
            }
            Node::Elem(e) => {
                out.push_str(&e.name);
                out.push('(');
                for (a, _) in &e.attrs {
                    out.push_str(a);
                    out.push(',');
                }
                out.push_str(")[");
                skeleton_nodes(&e.children, out)?;
                out.push_str("] ");
            }
        }
    }
    Ok(())
}

fn collect_cdata(nodes: &[Node], out: &mut Vec<String>) {
    for n in nodes {
        match n {
            Node::CData(c) => out.push(c.clone()),
            Node::Elem(e) => collect_cdata(&e.children, out),
            _ => {}
        }
    }
}

fn collect_values(nodes: &[Node], out: &mut Vec<String>) {
    for n in nodes {
        if let Node::Elem(e) = n {
            for (_, v) in &e.attrs {
                out.push(unescape(v));
            }
            collect_values(&e.children, out);
        }
    }
}

// a parsed batch: skeleton + per event (one CDATA section each) the list of un-escaped attribute values
struct Batch {
    skeleton: String,
    events: Vec<Vec<String>>,
}

fn scan_batch(xml: &str) -> Result<Batch, String> {
    let root = parse_document(xml)?;
    let top = vec![Node::Elem(root)];
    let mut skeleton = String::new();
    skeleton_nodes(&top, &mut skeleton)?;
    let mut cds = Vec::new();
    collect_cdata(&top, &mut cds);
    let mut events = Vec::new();
    for c in cds {
        let inner = parse_fragment(&c)?;
        let mut vals = Vec::new();
        collect_values(&inner, &mut vals);
        events.push(vals);
    }
    Ok(Batch { skeleton, events })
}

// ---------------------------------------------------------------------------------------------------------------------
fn hostile_texts() -> Vec<String> {
    let mut v: Vec<String> = [
        "]]>", "]]>]]>", "a]]>b", "x]]", "]]", "]>", "]]&gt;", "]] >", "<", ">", "&", "&&", "&amp;", "&lt;", "&gt;", "&#60;", "&#x3c;", "&bogus;", "& ;",
        "\"", "'", "\"\"", "''", "\" T=\"x", "' T='x", "\" />", "' />", "/>", "\"/><Param Name=\"Injected\" Value=\"1",
        "]]></Event><Event id=\"8\"><![CDATA[<Param Name=\"X\" Value=\"y\" T=\"mt:wstr\" />",
        "]]></Event></Provider></TelemetryData>", "<![CDATA[", "<![CDATA[x]]>", "</Provider>", "</Event>", "<Event>", "<?xml version=\"1.0\"?>", "<!-- c -->", "<!DOCTYPE x>",
        "a&b<c>d\"e'f", "data[ids[0]]>limit", "if (a<b && c>d) { s = \"x\"; }", "\\", "\\\"", "{}", "{0}", "{{}}", "%s %d", "x=\"1\" y='2'",
        "\u{e9}\u{e8}\u{fc}\u{df}", "\u{65e5}\u{672c}\u{8a9e}\u{30c6}\u{30ad}\u{30b9}\u{30c8}", "\u{1f600}\u{1f680}", "\u{a0}nbsp\u{a0}", "\u{442}\u{435}\u{441}\u{442}]]>\u{442}\u{435}\u{441}\u{442}", "",
        " ", "plain text with spaces", "C:\\WindowsAzure\\GuestAgent_2.7\\WindowsAzureGuestAgent.exe", "{\"method\":\"GET\",\"url\":\"/machine?comp=goalstate&type=x\",\"elapsed\":8}",
    ]
    .iter()
    .map(|s| s.to_string())
    .collect();
    v.push("]".repeat(40) + ">");
    v.push(">".repeat(10) + &"<".repeat(10) + &"&".repeat(10));
    v
}

fn meta(t: &str) -> VmMetaData {
    VmMetaData {
        container_id: t.to_string(),
        tenant_name: t.to_string(),
        role_name: t.to_string(),
        role_instance_name: t.to_string(),
        subscription_id: t.to_string(),
        resource_group_name: t.to_string(),
        vm_id: t.to_string(),
        image_origin: 3,
    }
}

fn event(level: &str, message: &str, task: &str, op: &str, version: &str, ts: &str, pid: &str, tid: &str) -> Event {
    Event {
        EventLevel: level.to_string(),
        Message: message.to_string(),
        Version: version.to_string(),
        TaskName: task.to_string(),
        EventPid: pid.to_string(),
        EventTid: tid.to_string(),
        OperationId: op.to_string(),
        TimeStamp: ts.to_string(),
    }
}

fn clone_event(e: &Event) -> Event {
    event(&e.EventLevel, &e.Message, &e.TaskName, &e.OperationId, &e.Version, &e.TimeStamp, &e.EventPid, &e.EventTid)
}

fn benign_event() -> Event {
    event("Informational", "harmless", "task", "operation", "1.0.0", "2024-09-04T02:00:00.222Z", "123", "456")
}

fn event_texts(e: &Event) -> Vec<String> {
    vec![e.EventLevel.clone(), e.Message.clone(), e.Version.clone(), e.TaskName.clone(), e.OperationId.clone(), e.TimeStamp.clone()]
}

fn meta_texts(m: &VmMetaData) -> Vec<String> {
    vec![
        m.container_id.clone(), m.tenant_name.clone(), m.role_name.clone(), m.role_instance_name.clone(),
        m.subscription_id.clone(), m.resource_group_name.clone(), m.vm_id.clone(),
    ]
}

fn to_xml(events: &[(Event, VmMetaData)]) -> String {
    let mut td = TelemetryData::new();
    for (e, m) in events {
        td.add_event(TelemetryEvent::from_event_log(e, m.clone()));
    }
    td.to_xml()
}

fn benign_skeleton(n: usize) -> Result<String, String> {
    let evs: Vec<(Event, VmMetaData)> = (0..n).map(|_| (benign_event(), meta("00000000-0000-0000-0000-000000000000"))).collect();
    scan_batch(&to_xml(&evs)).map(|b| b.skeleton)
}

fn describe(events: &[(Event, VmMetaData)]) -> String {
    let mut s = String::new();
    for (e, m) in events {
        s.push_str(&format!(
            "Event{{EventLevel:{:?},Message:{:?},Version:{:?},TaskName:{:?},EventPid:{:?},EventTid:{:?},OperationId:{:?},TimeStamp:{:?}}} VmMetaData{{container_id:{:?},vm_id:{:?},..same}} ",
            e.EventLevel, clip(&e.Message), e.Version, e.TaskName, e.EventPid, e.EventTid, e.OperationId, e.TimeStamp, m.container_id, m.vm_id
        ));
    }
    s
}

// serialise the events through the real code and check the document against the statement
fn check_document(out: &mut Out, events: &[(Event, VmMetaData)]) {
    out.cases += 1;
    let xml = to_xml(events);
    let want_skel = match benign_skeleton(events.len()) {
        Ok(s) => s,
        Err(e) => {
            out.fail("TelemetryData::to_xml of harmless events", &format!("{} harmless events", events.len()), &format!("not well-formed: {}", e), "a well-formed XML document");
            return;
        }
    };
    let b = match scan_batch(&xml) {
        Ok(b) => b,
        Err(e) => {
            out.fail("TelemetryData::to_xml", &describe(events), &format!("not well-formed: {} -- {}", e, xml), "a well-formed XML document in which the event text is data");
            return;
        }
    };
    if b.skeleton != want_skel {
        out.fail("TelemetryData::to_xml", &describe(events), &format!("document structure altered by the event text: {}", xml), "the same element/attribute structure as for harmless events");
        return;
    }
    if b.events.len() != events.len() {
        out.fail("TelemetryData::to_xml", &describe(events), &format!("{} event payloads", b.events.len()), &format!("{} event payloads", events.len()));
        return;
    }
    for (k, (e, m)) in events.iter().enumerate() {
        let mut texts = event_texts(e);
        texts.extend(meta_texts(m));
        for t in texts {
            if !b.events[k].iter().any(|v| *v == t) {
                out.fail("TelemetryData::to_xml", &describe(events), &format!("event {}: text {:?} is not carried as a complete attribute value; values: {:?}", k, t, b.events[k]), "each text of the event appears, un-escaped, as one attribute value");
                return;
            }
        }
    }
}

fn part1_serialiser(out: &mut Out) {
    let texts = hostile_texts();
    let guid = "00000000-0000-0000-0000-000000000000";

    // every hostile text in every text field, one at a time
    for t in &texts {
        for field in 0..10 {
            let mut e = benign_event();
            let mut m = meta(guid);
            match field {
                0 => e.Message = t.clone(),
                1 => e.TaskName = t.clone(),
                2 => e.OperationId = t.clone(),
                3 => e.EventLevel = t.clone(),
                4 => e.Version = t.clone(),
                5 => e.TimeStamp = t.clone(),
                6 => m.container_id = t.clone(),
                7 => m.vm_id = t.clone(),
                8 => m.role_instance_name = t.clone(),
                _ => {
                    m = meta(t);
                }
            }
            check_document(out, &[(e, m)]);
        }
        // all fields at once, and pid/tid as text
        let e = event(t, t, t, t, t, t, t, t);
        check_document(out, &[(e, meta(t))]);
    }
    // several events in one document, neighbours hostile in different ways
    for k in 0..texts.len() {
        let evs: Vec<(Event, VmMetaData)> = (0..4)
            .map(|j| {
                let t = &texts[(k + j * 7) % texts.len()];
                let mut e = benign_event();
                e.Message = format!("{}{}", t, j);
                e.OperationId = t.clone();
                (e, meta(guid))
            })
            .collect();
        check_document(out, &evs);
    }
    check_document(out, &[]);

    // xml_escape on the hostile texts and on every string of length <= 3 over the markup alphabet
    let alphabet = ['&', '<', '>', '"', '\'', ']', 'a', ';', '#'];
    let mut inputs: Vec<String> = texts.clone();
    for a in alphabet.iter() {
        inputs.push(a.to_string());
        for b in alphabet.iter() {
            inputs.push(format!("{}{}", a, b));
            for c in alphabet.iter() {
                inputs.push(format!("{}{}{}", a, b, c));
            }
        }
    }
    for s in &inputs {
        out.cases += 1;
        let got = helpers::xml_escape(s.clone());
        // as attribute value and inside a CDATA section the escaped text must be inert and must decode to the original
        let probe = format!("<r><![CDATA[<p v=\"{}\" />]]></r>", got);
        let verdict = match scan_batch(&probe) {
            Err(e) => Some(format!("escaped text is not inert inside an attribute within CDATA: {}", e)),
            Ok(b) => {
                if b.events.len() != 1 || b.events[0].len() != 1 || b.skeleton != "r()[#cdata{p(v,)[] } ] " {
                    Some("escaped text changes the structure of <r><![CDATA[<p v=\"...\" />]]></r>".to_string())
                } else if b.events[0][0] != *s {
                    Some(format!("escaped text decodes to {:?}", b.events[0][0]))
                } else {
                    None
                }
            }
        };
        if let Some(v) = verdict {
            out.fail("helpers::xml_escape", s, &format!("{:?}: {}", got, v), "an escaping that keeps the text as data of a quoted attribute value inside a CDATA section and decodes to the original");
        }
    }
}

// ---------------------------------------------------------------------------------------------------------------------
// loopback listener: records every POST body with the status it was answered with
#[derive(Clone)]
struct Post {
    accepted: bool,
    answer: Ans,
    body: Vec<u8>,
}

// what the fake host does with a telemetry POST: answer with a status, or read it and drop the connection without an answer
#[derive(Clone, Copy, Debug, PartialEq)]
enum Ans {
    Status(u16),
    Drop,
}

impl Ans {
    // the host took the batch: any success status
    fn accepted(&self) -> bool {
        matches!(self, Ans::Status(s) if (200..300).contains(s))
    }
    fn show(&self) -> String {
        match self {
            Ans::Status(s) => s.to_string(),
            Ans::Drop => "connection dropped after the request was read".to_string(),
        }
    }
}

fn reason(status: u16) -> &'static str {
    match status {
        200 => "OK",
        201 => "Created",
        202 => "Accepted",
        204 => "No Content",
        302 => "Found",
        307 => "Temporary Redirect",
        404 => "Not Found",
        429 => "Too Many Requests",
        500 => "Internal Server Error",
        503 => "Service Unavailable",
        _ => "Status",
    }
}

// the k-th POST is answered with script[k], POSTs after the end of the script with `then`
fn serve(listener: std::net::TcpListener, posts: Arc<Mutex<Vec<Post>>>, script: Vec<Ans>, then: Ans, stop: Arc<std::sync::atomic::AtomicBool>) {
    use std::io::Read;
    loop {
        let (mut stream, _) = match listener.accept() {
            Ok(x) => x,
            Err(_) => return,
        };
        if stop.load(std::sync::atomic::Ordering::SeqCst) {
            return;
        }
        let _ = stream.set_read_timeout(Some(Duration::from_secs(10)));
        let mut buf: Vec<u8> = Vec::new();
        let mut tmp = vec![0u8; 16384];
        let mut header_end = None;
        let mut broken = false;
        while header_end.is_none() {
            match stream.read(&mut tmp) {
                Ok(0) | Err(_) => {
                    broken = true;
                    break;
                }
                Ok(n) => buf.extend_from_slice(&tmp[..n]),
            }
            header_end = buf.windows(4).position(|w| w == b"\r\n\r\n");
        }
        if broken {
            continue;
        }
        let he = header_end.unwrap() + 4;
        let head = String::from_utf8_lossy(&buf[..he]).to_lowercase();
        let mut clen = 0usize;
        for l in head.lines() {
            if let Some(v) = l.strip_prefix("content-length:") {
                clen = v.trim().parse().unwrap_or(0);
            }
        }
        while buf.len() < he + clen {
            match stream.read(&mut tmp) {
                Ok(0) | Err(_) => break,
                Ok(n) => buf.extend_from_slice(&tmp[..n]),
            }
        }
        let body = buf[he..std::cmp::min(buf.len(), he + clen)].to_vec();
        let answer = {
            let mut p = posts.lock().unwrap();
            let answer = *script.get(p.len()).unwrap_or(&then);
            if head.starts_with("post ") {
                p.push(Post { accepted: answer.accepted(), answer, body });
            }
            answer
        };
        if let Ans::Status(st) = answer {
            let port = stream.local_addr().map(|a| a.port()).unwrap_or(0);
            let resp = match st {
                204 => format!("HTTP/1.1 204 {}\r\nconnection: close\r\n\r\n", reason(st)),
                300..=399 => format!("HTTP/1.1 {} {}\r\nlocation: http://127.0.0.1:{}/machine/?comp=telemetrydata&moved=1\r\ncontent-length: 0\r\nconnection: close\r\n\r\n", st, reason(st), port),
                _ => format!("HTTP/1.1 {} {}\r\ncontent-length: 0\r\nconnection: close\r\n\r\n", st, reason(st)),
            };
            let _ = stream.write_all(resp.as_bytes());
            let _ = stream.flush();
        }
        let _ = stream.shutdown(std::net::Shutdown::Both);
    }
}

struct Scenario {
    name: String,
    files: Vec<Vec<Event>>, // one vector per event file
    corrupt_file: bool,
    script: Vec<Ans>, // answers to the first POSTs
    then: Ans,        // answer to every later POST
    time_limit: Duration,
    background: bool, // scripted answers (retry pauses of 15 s): runs concurrently with the rest of the enumeration
}

impl Scenario {
    fn refusals(&self) -> usize {
        self.script.iter().filter(|a| !a.accepted()).count() + if self.then.accepted() { 0 } else { 1 }
    }
    fn copy(&self) -> Scenario {
        Scenario { name: self.name.clone(), files: self.files.iter().map(|f| f.iter().map(clone_event).collect()).collect(), corrupt_file: self.corrupt_file, script: self.script.clone(), then: self.then, time_limit: self.time_limit, background: self.background }
    }
}

fn marker(id: usize) -> String {
    format!("EVT{:06}|", id)
}

fn id_of(values: &[String]) -> Option<(usize, String)> {
    for v in values {
        if v.len() >= 10 && v.starts_with("EVT") && v.as_bytes()[9] == b'|' {
            if let Some(Ok(id)) = v.get(3..9).map(|d| d.parse::<usize>()) {
                return Some((id, v.clone()));
            }
        }
    }
    None
}

fn single_size(e: &Event, m: &VmMetaData) -> usize {
    to_xml(&[(clone_event(e), m.clone())]).len()
}

// an event whose single-event document has exactly `target` bytes
fn sized_event(id: usize, target: usize, m: &VmMetaData) -> Event {
    let mut e = benign_event();
    e.Message = marker(id);
    let base = single_size(&e, m);
    if target > base {
        e.Message = marker(id) + &"a".repeat(target - base);
    }
    e
}

enum Verdict {
    Finished,
    TimedOut,
}

async fn run_scenario(sc: &Scenario, m: &VmMetaData, seq: usize) -> (Verdict, Vec<Post>, Vec<String>, std::path::PathBuf) {
    let mut dir = std::env::temp_dir();
    dir.push(format!("vxw_c18_{}_{}", std::process::id(), seq));
    let _ = std::fs::remove_dir_all(&dir);
    let _ = std::fs::create_dir_all(&dir);
    for (k, evs) in sc.files.iter().enumerate() {
        let mut p = dir.clone();
        p.push(format!("{:020}.json", 1_700_000_000_000_000_000u64 + k as u64));
        let _ = std::fs::write(&p, serde_json::to_string(evs).unwrap());
    }
    if sc.corrupt_file {
        let mut p = dir.clone();
        p.push("00000000000000000001.json");
        let _ = std::fs::write(&p, "[{\"EventLevel\":\"Informational\",\"Message\":\"truncated");
    }

    let listener = std::net::TcpListener::bind("127.0.0.1:0").unwrap();
    let port = listener.local_addr().unwrap().port();
    let posts: Arc<Mutex<Vec<Post>>> = Arc::new(Mutex::new(Vec::new()));
    let stop = Arc::new(std::sync::atomic::AtomicBool::new(false));
    {
        let (p, st, script, then) = (posts.clone(), stop.clone(), sc.script.clone(), sc.then);
        std::thread::spawn(move || serve(listener, p, script, then, st));
    }

    let key_keeper = KeyKeeperSharedState::start_new();
    let reader = EventReader::new(
        dir.clone(),
        false,
        tokio_util::sync::CancellationToken::new(),
        key_keeper.clone(),
        TelemetrySharedState::start_new(),
        AgentStatusSharedState::start_new(),
    );
    let client = WireServerClient::new("127.0.0.1", port, key_keeper);
    let m2 = m.clone();
    let work = tokio::spawn(async move {
        reader.process_events(&client, &m2).await;
    });
    let abort = work.abort_handle();
    let verdict = match tokio::time::timeout(sc.time_limit, work).await {
        Ok(_) => Verdict::Finished,
        Err(_) => {
            // a reader that is pausing before a retry can be cancelled (one that never yields cannot)
            abort.abort();
            Verdict::TimedOut
        }
    };
    stop.store(true, std::sync::atomic::Ordering::SeqCst);
    let _ = std::net::TcpStream::connect(("127.0.0.1", port));
    let got = posts.lock().unwrap().clone();
    let mut left: Vec<String> = Vec::new();
    if let Ok(rd) = std::fs::read_dir(&dir) {
        for e in rd.flatten() {
            let n = e.file_name().to_string_lossy().to_string();
            if n.ends_with(".json") {
                left.push(n);
            }
        }
    }
    (verdict, got, left, dir)
}

// returns false when the caller must stop (a non-terminating run keeps a worker thread busy)
fn judge(out: &mut Out, sc: &Scenario, m: &VmMetaData, verdict: Verdict, posts: Vec<Post>, left: Vec<String>) -> bool {
    out.cases += 1;
    let all: Vec<&Event> = sc.files.iter().flatten().collect();
    let input = format!(
        "scenario '{}': {} file(s){}, {} events, single-event document sizes {:?}{}",
        sc.name, sc.files.len(), if sc.corrupt_file { " + 1 corrupt .json file" } else { "" }, all.len(),
        { let mut v: Vec<usize> = all.iter().map(|e| single_size(e, m)).collect(); v.sort(); v.dedup(); if v.len() > 8 { let l = v.len(); let mut w = v[..4].to_vec(); w.extend_from_slice(&v[l - 4..]); w } else { v } },
        if sc.script.is_empty() && sc.then == Ans::Status(200) { String::new() } else { format!(", the host answers the telemetry POSTs with {:?}, every later one with {}", sc.script.iter().map(|a| a.show()).collect::<Vec<String>>(), sc.then.show()) }
    );
    let timed_out = matches!(verdict, Verdict::TimedOut);
    if timed_out {
        out.fail("EventReader::process_events", &input, &format!("still running after {} s ({} POSTs so far, answered {:?}), event files not removed: {:?}", sc.time_limit.as_secs(), posts.len(), posts.iter().map(|p| p.answer.show()).collect::<Vec<String>>(), left), "processing terminates and removes the files it consumed");
        if !sc.background {
            return false;
        }
        // scripted scenario: what reached the host within the observation time is judged as well
    }
    if !timed_out && !left.is_empty() {
        out.fail("EventReader::process_events", &input, &format!("files left in the event directory: {:?}", left), "every consumed *.json file removed");
    }
    // per event id: (number of accepted POSTs carrying it, bodies carrying it)
    let mut accepted_count: std::collections::BTreeMap<usize, usize> = std::collections::BTreeMap::new();
    let mut carrier: std::collections::BTreeMap<usize, Vec<usize>> = std::collections::BTreeMap::new();
    for (pi, p) in posts.iter().enumerate() {
        out.cases += 1;
        if p.body.len() >= LIMIT {
            out.fail("EventReader::process_events batch", &input, &format!("POST #{} has {} bytes", pi, p.body.len()), "every batch smaller than 65536 bytes");
        }
        let xml = match String::from_utf8(p.body.clone()) {
            Ok(s) => s,
            Err(_) => {
                out.fail("EventReader::process_events batch", &input, &format!("POST #{} is not UTF-8", pi), "a well-formed XML document");
                continue;
            }
        };
        let b = match scan_batch(&xml) {
            Ok(b) => b,
            Err(e) => {
                out.fail("EventReader::process_events batch", &input, &format!("POST #{} not well-formed: {} -- {}", pi, e, xml), "a well-formed XML document");
                continue;
            }
        };
        match benign_skeleton(b.events.len()) {
            Ok(s) if s == b.skeleton => {}
            _ => {
                out.fail("EventReader::process_events batch", &input, &format!("POST #{}: structure differs from a batch of {} harmless events: {}", pi, b.events.len(), xml), "event text cannot alter the document structure");
                continue;
            }
        }
        let mut seen_here: Vec<usize> = Vec::new();
        for vals in &b.events {
            match id_of(vals) {
                None => {
                    out.fail("EventReader::process_events batch", &input, &format!("POST #{} carries an event without its message text; values {:?}", pi, vals), "each event's text appears as data");
                }
                Some((id, msg)) => {
                    match all.iter().find(|e| e.Message.starts_with(&marker(id))) {
                        Some(e) if e.Message == msg => {
                            let mut texts = event_texts(e);
                            texts.extend(meta_texts(m));
                            for t in texts {
                                if !vals.iter().any(|v| *v == t) {
                                    out.fail("EventReader::process_events batch", &input, &format!("POST #{} event {}: text {:?} not carried as a complete attribute value", pi, id, t), "each event's text appears as data");
                                }
                            }
                        }
                        _ => {
                            out.fail("EventReader::process_events batch", &input, &format!("POST #{} event {}: message text arrived as {:?}", pi, id, clip(&msg)), "the event's message text unchanged");
                        }
                    }
                    if seen_here.contains(&id) {
                        out.fail("EventReader::process_events batch", &input, &format!("event {} occurs twice in POST #{}", id, pi), "each event in at most one batch, once");
                    }
                    seen_here.push(id);
                    carrier.entry(id).or_default().push(pi);
                    if p.accepted {
                        *accepted_count.entry(id).or_insert(0) += 1;
                    }
                }
            }
        }
    }
    let mut repeated: std::collections::BTreeMap<(usize, Vec<usize>), Vec<usize>> = std::collections::BTreeMap::new();
    for e in &all {
        let id: usize = e.Message[3..9].parse().unwrap();
        let oversize = single_size(e, m) >= LIMIT;
        let n = *accepted_count.get(&id).unwrap_or(&0);
        let carriers = carrier.get(&id).cloned().unwrap_or_default();
        if carriers.windows(2).any(|w| posts[w[0]].body != posts[w[1]].body) {
            out.fail("EventReader::process_events", &input, &format!("event {} was sent in different batches (POSTs {:?})", id, carriers), "each event uploaded in at most one batch (re-sending the same batch after a failure excepted)");
        }
        // one report per group of events that travelled in the same POSTs
        if n > 1 {
            repeated.entry((n, carriers.clone())).or_default().push(id);
        } else if let Some(first_ok) = carriers.iter().position(|c| posts[*c].accepted) {
            if first_ok + 1 < carriers.len() {
                repeated.entry((n, carriers.clone())).or_default().push(id);
            }
        }
        if oversize && !carriers.is_empty() {
            out.fail("EventReader::process_events", &input, &format!("oversize event {} (single-event document {} bytes) was sent", id, single_size(e, m)), "an event too large for any batch is dropped");
        }
        if !oversize && sc.refusals() == 0 && !timed_out && n == 0 {
            out.fail("EventReader::process_events", &input, &format!("event {} (single-event document {} bytes) was never uploaded although no upload failed", id, single_size(e, m)), "oversize events are dropped, the rest is uploaded");
        }
    }
    for ((n, carriers), ids) in repeated.iter() {
        let answers: Vec<String> = carriers.iter().map(|c| posts[*c].answer.show()).collect();
        let which = if ids.len() == 1 { format!("event {}", ids[0]) } else { format!("{} events (ids {} .. {})", ids.len(), ids.iter().min().unwrap(), ids.iter().max().unwrap()) };
        if *n > 1 {
            out.fail("EventReader::process_events", &input, &format!("{}: accepted by the host {} times (carried by POSTs {:?}, answered {:?})", which, n, carriers, answers), "each event uploaded in at most one batch");
        } else {
            out.fail("EventReader::process_events", &input, &format!("{}: posted again after the host had accepted the upload (carried by POSTs {:?}, answered {:?})", which, carriers, answers), "each event uploaded in at most one batch");
        }
    }
    !timed_out
}

fn scenarios(m: &VmMetaData) -> Vec<Scenario> {
    let texts = hostile_texts();
    let counter = std::cell::Cell::new(0usize);
    let fresh = || -> usize {
        counter.set(counter.get() + 1);
        counter.get()
    };
    let small = |texts: &Vec<String>, k: usize| -> Event {
        let mut e = benign_event();
        e.Message = marker(fresh()) + &texts[k % texts.len()];
        e.TaskName = texts[(k * 3 + 1) % texts.len()].clone();
        e.OperationId = texts[(k * 5 + 2) % texts.len()].clone();
        e
    };
    let mut v: Vec<Scenario> = Vec::new();
    let limit = Duration::from_secs(15);

    // the scenarios with scripted answers go first in the list: they are started first and run in the background, concurrently
    // (the reader pauses 15 s before it retries a refused upload).
    // (a) the host ACCEPTS the upload with a success status: the events must never be posted again and the file is removed;
    //     observed for 25 s (a retry would come after 15 s)
    let accepted_limit = Duration::from_secs(25);
    v.push(Scenario { name: "upload accepted with 200".into(), files: vec![(0..40).map(|k| small(&texts, k)).collect()], corrupt_file: false, script: vec![], then: Ans::Status(200), time_limit: accepted_limit, background: true });
    v.push(Scenario { name: "upload accepted with 201".into(), files: vec![(0..40).map(|k| small(&texts, k + 1)).collect()], corrupt_file: false, script: vec![], then: Ans::Status(201), time_limit: accepted_limit, background: true });
    v.push(Scenario { name: "uploads of several batches accepted with 202".into(), files: vec![(0..6).map(|k| sized_event(fresh(), 21_845 + k * 37, m)).collect()], corrupt_file: false, script: vec![], then: Ans::Status(202), time_limit: accepted_limit, background: true });
    v.push(Scenario { name: "uploads of two files accepted with 204".into(), files: vec![(0..30).map(|k| small(&texts, k + 2)).collect(), (0..3).map(|k| small(&texts, k + 5)).collect()], corrupt_file: false, script: vec![], then: Ans::Status(204), time_limit: accepted_limit, background: true });
    v.push(Scenario { name: "first upload accepted with 202, any later POST would be refused".into(), files: vec![(0..20).map(|k| small(&texts, k + 3)).collect()], corrupt_file: false, script: vec![Ans::Status(202)], then: Ans::Status(500), time_limit: accepted_limit, background: true });
    // (b) the host REFUSES first (the events may be retried), then accepts: accepted once in total
    let refused_limit = Duration::from_secs(55);
    v.push(Scenario { name: "first upload answered 500, then accepted".into(), files: vec![(0..120).map(|k| small(&texts, k)).collect()], corrupt_file: false, script: vec![Ans::Status(500)], then: Ans::Status(200), time_limit: refused_limit, background: true });
    v.push(Scenario { name: "first upload answered 302, then accepted with 201".into(), files: vec![(0..25).map(|k| small(&texts, k + 4)).collect()], corrupt_file: false, script: vec![Ans::Status(302)], then: Ans::Status(201), time_limit: refused_limit, background: true });
    v.push(Scenario { name: "first upload answered 404, then accepted with 202".into(), files: vec![(0..25).map(|k| small(&texts, k + 6)).collect()], corrupt_file: false, script: vec![Ans::Status(404)], then: Ans::Status(202), time_limit: refused_limit, background: true });
    v.push(Scenario { name: "first upload dropped without an answer, then accepted with 204".into(), files: vec![(0..25).map(|k| small(&texts, k + 8)).collect()], corrupt_file: false, script: vec![Ans::Drop], then: Ans::Status(204), time_limit: refused_limit, background: true });
    v.push(Scenario { name: "uploads answered 503, 307, then accepted with 200".into(), files: vec![(0..25).map(|k| small(&texts, k + 9)).collect()], corrupt_file: false, script: vec![Ans::Status(503), Ans::Status(307)], then: Ans::Status(200), time_limit: refused_limit, background: true });
    v.push(Scenario { name: "uploads answered 429, dropped, then accepted with 202; two batches".into(), files: vec![(0..4).map(|k| sized_event(fresh(), 21_845 + k * 41, m)).collect()], corrupt_file: false, script: vec![Ans::Status(429), Ans::Drop], then: Ans::Status(202), time_limit: refused_limit, background: true });

    v.push(Scenario { name: "300 small events with hostile texts in one file".into(), files: vec![(0..300).map(|k| small(&texts, k)).collect()], corrupt_file: false, script: vec![], then: Ans::Status(200), time_limit: limit, background: false });
    v.push(Scenario {
        name: "three files, an empty file and a corrupt file".into(),
        files: vec![(0..5).map(|k| small(&texts, k)).collect(), Vec::new(), (0..90).map(|k| small(&texts, k + 11)).collect(), (0..1).map(|k| small(&texts, k + 3)).collect()],
        corrupt_file: true, script: vec![], then: Ans::Status(200), time_limit: limit, background: false,
    });
    v.push(Scenario { name: "only a corrupt file".into(), files: vec![], corrupt_file: true, script: vec![], then: Ans::Status(200), time_limit: limit, background: false });

    // single events right at the limit
    for target in [LIMIT - 2, LIMIT - 1, LIMIT, LIMIT + 1, 70_000, 200_000] {
        let e = sized_event(fresh(), target, m);
        v.push(Scenario { name: format!("one event whose single-event document has {} bytes", target), files: vec![vec![e]], corrupt_file: false, script: vec![], then: Ans::Status(200), time_limit: limit, background: false });
    }
    // oversize events at every position among small ones (events are taken from the end of the file)
    for pos in 0..4 {
        let mut evs: Vec<Event> = (0..3).map(|k| small(&texts, k + pos)).collect();
        evs.insert(pos, sized_event(fresh(), LIMIT + 10, m));
        v.push(Scenario { name: format!("oversize event at position {} of 4", pos), files: vec![evs], corrupt_file: false, script: vec![], then: Ans::Status(200), time_limit: limit, background: false });
    }
    {
        let mut evs: Vec<Event> = Vec::new();
        for k in 0..3 {
            evs.push(sized_event(fresh(), LIMIT + k * 1000, m));
        }
        v.push(Scenario { name: "only oversize events".into(), files: vec![evs], corrupt_file: false, script: vec![], then: Ans::Status(200), time_limit: limit, background: false });
    }
    // accumulation boundary: two or three events whose common document is just below / at / above the limit
    {
        let one = single_size(&benign_event(), m);
        let empty = to_xml(&[]).len();
        let per_event_overhead = one - empty; // bytes one harmless event adds (message "harmless")
        let _ = per_event_overhead;
        for total in [LIMIT - 1, LIMIT, LIMIT + 1] {
            for n in [2usize, 3] {
                // n events; the first n-1 have single size s, the last is chosen so that the common document has `total` bytes:
                // doc(n) = empty + sum(single_i - empty)
                let s = 20_000usize;
                let mut evs: Vec<Event> = Vec::new();
                for _ in 0..n - 1 {
                    evs.push(sized_event(fresh(), s, m));
                }
                let last = total + (n - 1) * empty - (n - 1) * s;
                evs.push(sized_event(fresh(), last, m));
                v.push(Scenario { name: format!("{} events whose common document has {} bytes", n, total), files: vec![evs.iter().map(clone_event).collect()], corrupt_file: false, script: vec![], then: Ans::Status(200), time_limit: limit, background: false });
                evs.reverse();
                v.push(Scenario { name: format!("{} events whose common document has {} bytes (reversed)", n, total), files: vec![evs], corrupt_file: false, script: vec![], then: Ans::Status(200), time_limit: limit, background: false });
            }
        }
    }
    // many mid-size events: batches fill up at different points
    for size in [900usize, 5_000, 21_845, 32_767, 32_768, 40_000] {
        let evs: Vec<Event> = (0..12)
            .map(|k| {
                sized_event(fresh(), size + k * 37, m)
            })
            .collect();
        v.push(Scenario { name: format!("12 events of about {} bytes", size), files: vec![evs], corrupt_file: false, script: vec![], then: Ans::Status(200), time_limit: limit, background: false });
    }
    v
}

#[test]
fn console_vxw_c18() {
    let mut out = Out::new();
    part1_serialiser(&mut out);

    let rt = tokio::runtime::Builder::new_multi_thread().worker_threads(4).enable_all().build().unwrap();
    let m = meta("00000000-0000-0000-0000-000000000000");
    let scs = scenarios(&m);
    let mut stuck = false;
    rt.block_on(async {
        // the scenarios with scripted answers run concurrently with each other and with the others
        let mut bg = Vec::new();
        for (k, sc) in scs.iter().enumerate().filter(|(_, sc)| sc.background) {
            let (m0, sc0) = (m.clone(), sc.copy());
            bg.push((k, tokio::spawn(async move { run_scenario(&sc0, &m0, k).await })));
        }
        for (k, sc) in scs.iter().enumerate().filter(|(_, sc)| !sc.background) {
            let (verdict, posts, left, dir) = run_scenario(sc, &m, k).await;
            let go_on = judge(&mut out, sc, &m, verdict, posts, left);
            let _ = std::fs::remove_dir_all(&dir);
            if !go_on {
                stuck = true;
                break;
            }
        }
        if !stuck {
            for (k, handle) in bg {
                if let Ok((verdict, posts, left, dir)) = handle.await {
                    if !judge(&mut out, &scs[k], &m, verdict, posts, left) {
                        stuck = true;
                    }
                    let _ = std::fs::remove_dir_all(&dir);
                }
            }
        }
    });
    out.done();
    if stuck {
        // a non-terminating run cannot be cancelled (it never yields): leave without waiting for it
        let mut d = std::env::temp_dir();
        d.push("x");
        d.pop();
        if let Ok(rd) = std::fs::read_dir(&d) {
            for e in rd.flatten() {
                if e.file_name().to_string_lossy().starts_with(&format!("vxw_c18_{}_", std::process::id())) {
                    let _ = std::fs::remove_dir_all(e.path());
                }
            }
        }
        std::process::exit(0);
    }
    rt.shutdown_background();
    out.restore();
}
