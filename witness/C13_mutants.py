"""C13 mutants used to validate the witnesses C13 / C13_direct (not registered anywhere).
usage: python3 C13_mutants.py list | python3 C13_mutants.py <name> <copy of the tree>
r_* revert the six C13 fix commits of /repo, seeded_* apply /verif/seeded/C13*/patch.diff, m* are property-breaking edits, h* harmless ones."""
import sys, subprocess, os
name = sys.argv[1]; d = sys.argv[2] if len(sys.argv) > 2 else "."
def sub(path, old, new, count=1):
    p = os.path.join(d, path); s = open(p).read()
    assert old in s, (name, path, old[:60])
    s = s.replace(old, new, count); open(p, 'w').write(s)
def revert(commit):
    diff = subprocess.run(['git', '-C', '/repo', 'show', commit, '--format='], capture_output=True, check=True).stdout
    subprocess.run(['patch', '-R', '-p1', '-s'], input=diff, cwd=d, check=True)
PS='proxy_agent/src/proxy/proxy_server.rs'; HC='proxy_agent/src/common/hyper_client.rs'; KK='proxy_agent/src/key_keeper.rs'; KEY='proxy_agent/src/key_keeper/key.rs'
EL='proxy_agent_shared/src/telemetry/event_logger.rs'; AS='proxy_agent/src/shared_state/agent_status_wrapper.rs'
M = {
 'r_write_event': lambda: revert('902a62a'),
 'r_conn_summary': lambda: revert('9263963'),
 'r_module_status': lambda: revert('1116a90'),
 'r_header_to_str': lambda: revert('c24cea7'),
 'r_utf16_odd': lambda: revert('123a070'),
 'r_late_notify': lambda: revert('44838cd'),
 'seeded_C13a': lambda: subprocess.run(['patch', '-p1', '-s', '-i', '/verif/seeded/C13a/patch.diff'], cwd=d, check=True),
 'seeded_C13b': lambda: subprocess.run(['patch', '-p1', '-s', '-i', '/verif/seeded/C13b/patch.diff'], cwd=d, check=True),
 'm01_time_tick_unwrap': lambda: sub(PS, 'time_tick.to_str().unwrap_or("0")', 'time_tick.to_str().unwrap()'),
 'm02_backoff_one_byte': lambda: sub(EL, 'while !message.is_char_boundary(end) {', 'if !message.is_char_boundary(end) {'),
 'm03_content_type_unwrap': lambda: sub(HC, 'if let Ok(content_type_str) = content_type.to_str() {', 'if let Ok(content_type_str) = Ok::<&str, ()>(content_type.to_str().unwrap()) {'),
 'm04_utf8_strict': lambda: sub(HC, 'body_string.push_str(&String::from_utf8_lossy(chunk));', 'body_string.push_str(std::str::from_utf8(chunk).unwrap());'),
 'm05_claims_json_unwrap': lambda: sub(PS, '        let claim_details: String = match serde_json::to_string(&claims) {', '        let _probe = serde_json::to_string(&claims).unwrap();\n        let claim_details: String = match serde_json::to_string(&claims) {'),
 'm06_utf16_strict': lambda: sub(HC, 'String::from_utf16_lossy(&u16_vec)', 'String::from_utf16(&u16_vec).unwrap()'),
 'm07_kk_status_prefix_512': lambda: sub(KK, '    async fn update_status_message(&self, message: String, log_to_file: bool) {\n', '    async fn update_status_message(&self, message: String, log_to_file: bool) {\n        let _short = message[..std::cmp::min(message.len(), 512)].to_string();\n'),
 'm08_summary_key_cmdline_256': lambda: sub('proxy_agent/src/proxy/proxy_summary.rs', '            self.processCmdLine,\n', '            &self.processCmdLine[..std::cmp::min(self.processCmdLine.len(), 256)],\n'),
 'm10_privilege_path_slice': lambda: sub(KEY, '''        if request_url
            .path()
            .to_lowercase()
            .starts_with(&self.path.to_lowercase())
        {''', '''        if request_url.path().to_lowercase()[..self.path.to_lowercase().len()] == self.path.to_lowercase() {'''),
 'm11_status_keyguid_8': lambda: sub('proxy_agent/src/proxy_agent_status.rs', 'states.insert("keyGuid".to_string(), key_guid);', 'states.insert("keyGuid".to_string(), key_guid[..8].to_string());'),
 'm12_display_keyguid_8': lambda: sub(KEY, '                Some(s) => s.to_string(),\n                None => "None".to_string(),\n            },\n            self.get_secure_channel_state(),', '                Some(s) => s[..8].to_string(),\n                None => "None".to_string(),\n            },\n            self.get_secure_channel_state(),'),
 'm16_query_pair_eq_unwrap': lambda: sub(HC, '''        let mut split = pair.splitn(2, '=');
        let key = split.next().unwrap_or("");''', '''        let mut split = pair.splitn(2, '=');
        let key = if pair.is_empty() { "" } else { &pair[..pair.find('=').unwrap()] };
        let _ = split.next();'''),
 'm18_host_header_unwrap': lambda: sub(PS, '        if http_connection_context.contains_traversal_characters() {', '        let _host = request.headers().get(hyper::header::HOST).unwrap().to_str().unwrap().to_string();\n        if http_connection_context.contains_traversal_characters() {'),
 'm25_attest_url_unwrap': lambda: sub(KEY, '''    let url: Uri = url
        .parse()
        .map_err(|e| Error::Key(KeyErrorType::ParseKeyUrl(base_url.to_string(), url, e)))?;

    let mut headers = HashMap::new();
    headers.insert(constants::METADATA_HEADER.to_string(), "True ".to_string());
    let request = hyper_client::build_request(
        Method::POST,''', '''    let url: Uri = url.parse().unwrap();

    let mut headers = HashMap::new();
    headers.insert(constants::METADATA_HEADER.to_string(), "True ".to_string());
    let request = hyper_client::build_request(
        Method::POST,'''),
 'm26_keyguid_unwrap': lambda: sub(KK, '            let state = status.get_secure_channel_state();\n', '            let state = status.get_secure_channel_state();\n            if state != DISABLE_STATE { logger::write(format!("key id {}", status.keyGuid.clone().unwrap())); }\n'),
 'm27_goalstate_first_instance': lambda: sub('proxy_agent/src/host_clients/goal_state.rs', '        self.Container.ContainerId.to_string()', '        format!("{}{}", self.Container.ContainerId, &self.Container.RoleInstanceList.RoleInstance[1].InstanceId[..0])'),
 'm28_xml_escape_trunc': lambda: sub('proxy_agent/src/provision.rs', '        failed_state_message = helpers::xml_escape(failed_state_message);', '        failed_state_message = helpers::xml_escape(failed_state_message);\n        failed_state_message.truncate(2048);'),
 'm29_upstream_header_to_str': lambda: sub(PS, '        let mut response = Response::from_parts(head, frame_stream.boxed());', '        let _server = head.headers.get("server").map(|v| v.to_str().unwrap().to_string());\n        let mut response = Response::from_parts(head, frame_stream.boxed());'),
 'm30_cmdline_log_prefix': lambda: sub(PS, '        http_connection_context.log(LoggerLevel::Trace, claim_details.to_string());', '        http_connection_context.log(LoggerLevel::Trace, claim_details[..std::cmp::min(claim_details.len(), 2000)].to_string());'),
 # harmless
 'h01_char_indices': lambda: sub(EL, '''        let mut end = MAX_MESSAGE_LENGTH;
        while !message.is_char_boundary(end) {
            end -= 1;
        }
        message[..end].to_string()''', '''        let end = message.char_indices().map(|(i, _)| i).take_while(|i| *i <= MAX_MESSAGE_LENGTH).last().unwrap_or(0);
        message[..end].to_string()'''),
 'h02_helper_fn': lambda: (sub(PS, '''            let mut end = MAX_ERROR_DETAILS_LEN;
            while !error_details.is_char_boundary(end) {
                end -= 1;
            }
            error_details.truncate(end);''', '''            cut_on_boundary(&mut error_details, MAX_ERROR_DETAILS_LEN);'''), sub(PS, '#[derive(Clone)]\npub struct ProxyServer {', 'fn cut_on_boundary(s: &mut String, max: usize) {\n    let mut end = max;\n    while !s.is_char_boundary(end) {\n        end -= 1;\n    }\n    s.truncate(end);\n}\n\n#[derive(Clone)]\npub struct ProxyServer {')),
 'h03_status_limit_2048': lambda: sub(AS, 'const MAX_STATUS_MESSAGE_LENGTH: usize = 1024;', 'const MAX_STATUS_MESSAGE_LENGTH: usize = 2048;'),
 'h04_rename_summary_fn': lambda: (lambda p, t: open(p,'w').write(t.replace('log_connection_summary', 'write_connection_summary')))(os.path.join(d, PS), open(os.path.join(d, PS)).read()),
 'h05_lossy_header_to_str_variant': lambda: sub(HC, 'let value = String::from_utf8_lossy(value.as_bytes()).to_string();', 'let value = match value.to_str() { Ok(v) => v.to_string(), Err(_) => String::from_utf8_lossy(value.as_bytes()).to_string() };'),
}
if name == 'list':
    print(' '.join(M.keys()))
else:
    M[name]()
