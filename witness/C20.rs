// Witness generator for C20 (extension health hysteresis), compiled into the real ProxyAgentExt crate next to common.rs.
// Oracle = the statement only (no reference to the counters or thresholds of the code):
//   (H1) the report is Error only if the last >= 20 observations (including the current one) were all failures
//        -- in particular never directly after a success, and one success always moves the report away from Error;
//   (H2) after two consecutive successes the report is Success;
//   (N1) a state notification for a key is emitted (true) the first time and whenever the value differs from the previous one;
//   (N2) after an emission, the identical notification is not emitted again during the next max-1 repetitions
//        ("at most once per 120 repetitions"; the call site uses max = 120).
// The statement gives no lower bound on how often an unchanged notification must be re-emitted and does not say that Error
// must eventually be reported, so neither is tested.
use crate::common::StatusState;
use crate::service_main::service_state::ServiceState;

fn is_error(s: &str) -> bool {
    s.eq_ignore_ascii_case("error")
}
fn is_success(s: &str) -> bool {
    s.eq_ignore_ascii_case("success")
}

// run-length rendering of an observation sequence: "S2 F19 S1"
fn rle(seq: &[bool], upto: usize) -> String {
    let mut out = String::new();
    let mut i = 0;
    while i <= upto && i < seq.len() {
        let mut j = i;
        while j + 1 <= upto && j + 1 < seq.len() && seq[j + 1] == seq[i] {
            j += 1;
        }
        if !out.is_empty() {
            out.push(' ');
        }
        out.push_str(&format!("{}{}", if seq[i] { "S" } else { "F" }, j - i + 1));
        i = j + 1;
    }
    out
}

struct Ctx {
    cases: u64,
    fails: u64,
}

impl Ctx {
    fn fail(&mut self, line: String) {
        self.fails += 1;
        if self.fails <= 25 {
            println!("VXW-FAIL {}", line);
        }
    }
}

// drive the real automaton from new() over seq, check H1/H2 after every observation
fn run_status(ctx: &mut Ctx, seq: &[bool]) {
    ctx.cases += 1;
    let mut st = StatusState::new();
    let mut trailing_fail: u64 = 0;
    let mut trailing_succ: u64 = 0;
    for (i, ok) in seq.iter().enumerate() {
        if *ok {
            trailing_succ += 1;
            trailing_fail = 0;
        } else {
            trailing_fail += 1;
            trailing_succ = 0;
        }
        let got = st.update_state(*ok);
        if is_error(&got) && trailing_fail < 20 {
            ctx.fail(format!(
                "{{\"what\":\"StatusState::update_state from new()\",\"observations\":\"{}\",\"step\":{},\"got\":\"{}\",\"want\":\"not Error: only {} consecutive failed observations (need >= 20){}\"}}",
                rle(seq, i), i + 1, got, trailing_fail, if *ok { ", and the last observation was a success" } else { "" }
            ));
            return;
        }
        if trailing_succ >= 2 && !is_success(&got) {
            ctx.fail(format!(
                "{{\"what\":\"StatusState::update_state from new()\",\"observations\":\"{}\",\"step\":{},\"got\":\"{}\",\"want\":\"Success after two consecutive successes\"}}",
                rle(seq, i), i + 1, got
            ));
            return;
        }
    }
}

fn bits(n: u32, len: usize) -> Vec<bool> {
    (0..len).map(|k| (n >> k) & 1 == 1).collect()
}

// all boolean sequences of length 0..=maxlen
fn all_upto(maxlen: usize) -> Vec<Vec<bool>> {
    let mut v = Vec::new();
    for len in 0..=maxlen {
        for n in 0..(1u32 << len) {
            v.push(bits(n, len));
        }
    }
    v
}

#[test]
fn vxw_c20_status_state() {
    let mut ctx = Ctx { cases: 0, fails: 0 };

    // (1) every observation sequence of length 18 from new() (all shorter ones are its prefixes, checked step by step)
    let l = 18usize;
    for n in 0..(1u32 << l) {
        run_status(&mut ctx, &bits(n, l));
    }

    // (2) threshold boundary in every small context: prefix (<=6, exhaustive) ++ k failures (k = 17..=24) ++ suffix (<=5, exhaustive)
    let prefixes = all_upto(6);
    let suffixes = all_upto(5);
    for p in &prefixes {
        for k in 17usize..=24 {
            for s in &suffixes {
                let mut seq = p.clone();
                seq.extend(std::iter::repeat(false).take(k));
                seq.extend(s.iter());
                run_status(&mut ctx, &seq);
            }
        }
    }

    // (3) two long failure runs separated by a short exhaustive middle part
    let mids = all_upto(4);
    for p in all_upto(2) {
        for k1 in [18usize, 19, 20, 21, 25] {
            for m in &mids {
                for k2 in [18usize, 19, 20, 21] {
                    for s in all_upto(2) {
                        let mut seq = p.clone();
                        seq.extend(std::iter::repeat(false).take(k1));
                        seq.extend(m.iter());
                        seq.extend(std::iter::repeat(false).take(k2));
                        seq.extend(s.iter());
                        run_status(&mut ctx, &seq);
                    }
                }
            }
        }
    }

    // (4) runs past the counters' saturation point (10000), then every short continuation
    let tails = all_upto(4);
    for n in [9_999usize, 10_000, 10_001, 10_025, 20_003, 65_540] {
        for first in [false, true] {
            // n identical observations, then k of the opposite kind (k around the threshold), then a short tail
            for k in [0usize, 1, 2, 19, 20, 21] {
                for t in &tails {
                    let mut seq: Vec<bool> = std::iter::repeat(first).take(n).collect();
                    seq.extend(std::iter::repeat(!first).take(k));
                    seq.extend(t.iter());
                    run_status(&mut ctx, &seq);
                }
            }
        }
        // saturate both counters one after the other, then continue
        for t in &tails {
            let mut seq: Vec<bool> = std::iter::repeat(true).take(n).collect();
            seq.extend(std::iter::repeat(false).take(n));
            seq.extend(t.iter());
            seq.extend(std::iter::repeat(false).take(19));
            seq.push(true);
            seq.push(true);
            run_status(&mut ctx, &seq);
        }
    }
    println!("VXW-DONE {}", ctx.cases);
}

// ---- state notifications -------------------------------------------------------------------------------------------
struct KeyView {
    last_value: String,
    calls: u64,          // notifications seen for this key
    last_emit_call: u64, // index (1-based) of the last emitted one
}

// drive one ServiceState over a sequence of (key, value) notifications with the given max
fn run_notifications(ctx: &mut Ctx, seq: &[(&str, &str)], max: u32, desc: &str) {
    ctx.cases += 1;
    let mut real = ServiceState::default();
    let mut view: std::collections::BTreeMap<String, KeyView> = std::collections::BTreeMap::new();
    for (i, (k, v)) in seq.iter().enumerate() {
        let got = real.update_service_state_entry(k, v, max);
        let want: Option<bool> = match view.get_mut(*k) {
            None => {
                view.insert(k.to_string(), KeyView { last_value: v.to_string(), calls: 1, last_emit_call: 1 });
                Some(true)
            }
            Some(kv) => {
                kv.calls += 1;
                if kv.last_value != *v {
                    kv.last_value = v.to_string();
                    Some(true)
                } else if kv.calls - kv.last_emit_call < max as u64 {
                    Some(false)
                } else {
                    None // the statement allows either
                }
            }
        };
        let prev_emit = view.get(*k).map(|kv| kv.last_emit_call).unwrap_or(0);
        if got {
            if let Some(kv) = view.get_mut(*k) {
                kv.last_emit_call = kv.calls;
            }
        }
        if let Some(w) = want {
            if w != got {
                let kv = view.get(*k).unwrap();
                ctx.fail(format!(
                    "{{\"what\":\"ServiceState::update_service_state_entry\",\"sequence\":\"{}\",\"max_count\":{},\"call\":{},\"key\":\"{}\",\"value\":\"{}\",\"got\":{},\"want\":{},\"why\":\"{}\"}}",
                    desc, max, i + 1, k, v, got, w,
                    if w { "first notification for the key or value changed: must be emitted".to_string() }
                    else { format!("identical notification repeated; call {} for this key, last emitted at its call {}: fewer than max_count repetitions since", kv.calls, prev_emit) }
                ));
                return;
            }
        }
    }
}

#[test]
fn vxw_c20_service_state() {
    let mut ctx = Ctx { cases: 0, fails: 0 };
    let vals = ["Success", "Error", "Transitioning"];

    // (2) max = 120 (the call site): a x k, b x m, a x 130, b x 125
    for k in [1usize, 2, 3, 60, 119, 120, 121, 122, 240, 241, 300] {
        for m in [1usize, 2, 60, 118, 119, 120, 121, 122, 123, 250] {
            let mut seq: Vec<(&str, &str)> = Vec::new();
            seq.extend(std::iter::repeat(("ReadProxyAgentStatusFile", "Success")).take(k));
            seq.extend(std::iter::repeat(("ReadProxyAgentStatusFile", "Error")).take(m));
            seq.extend(std::iter::repeat(("ReadProxyAgentStatusFile", "Success")).take(130));
            seq.extend(std::iter::repeat(("ReadProxyAgentStatusFile", "Error")).take(125));
            run_notifications(&mut ctx, &seq, 120, &format!("Success x{}, Error x{}, Success x130, Error x125", k, m));
        }
    }

    // (1) one key, every sequence over 2 values up to length 13 and over 3 values up to length 8, small max
    for max in [1u32, 2, 3, 4] {
        for len in 1..=13usize {
            for n in 0..(1u32 << len) {
                let seq: Vec<(&str, &str)> = (0..len).map(|i| ("k", vals[((n >> i) & 1) as usize])).collect();
                let desc: String = seq.iter().map(|(_, v)| &v[0..1]).collect();
                run_notifications(&mut ctx, &seq, max, &desc);
            }
        }
        for len in 1..=8usize {
            let mut n = 0u32;
            let total = 3u32.pow(len as u32);
            while n < total {
                let mut x = n;
                let mut seq: Vec<(&str, &str)> = Vec::new();
                for _ in 0..len {
                    seq.push(("k", vals[(x % 3) as usize]));
                    x /= 3;
                }
                let desc: String = seq.iter().map(|(_, v)| &v[0..1]).collect();
                run_notifications(&mut ctx, &seq, max, &desc);
                n += 1;
            }
        }
    }

    // (3) two keys interleaved round-robin, each with its own pattern, max = 120 and max = 3
    for max in [3u32, 120] {
        let unit = if max == 3 { 1usize } else { 40 };
        for (ka, kb) in [(1usize, 2usize), (2, 3), (3, 1), (4, 4), (7, 2)] {
            // key A: blocks of ka*unit identical values alternating; key B: blocks of kb*unit
            let mut seq: Vec<(&str, &str)> = Vec::new();
            for i in 0..(12 * unit * 4) {
                let va = vals[(i / (ka * unit)) % 2];
                let vb = vals[(i / (kb * unit)) % 3];
                seq.push(("A", va));
                seq.push(("B", vb));
            }
            run_notifications(&mut ctx, &seq, max, &format!("keys A,B interleaved; A changes every {} calls, B every {} calls", ka * unit, kb * unit));
        }
    }
    println!("VXW-DONE {}", ctx.cases);
}
