// Witness generator for C20 (extension health hysteresis), compiled into the real ProxyAgentExt crate as a child module of
// service_main.rs (so that the private status-publishing functions of that file can be driven).
// Oracle = the statement only (no reference to the counters or thresholds of the code):
//   (H1) the report is Error only if the last >= 20 observations (including the current one) were all failures
//        -- in particular never directly after a success, and one success always moves the report away from Error;
//   (H2) after two consecutive successes the report is Success;
//   (N1) a state notification for a key is emitted (true) the first time and whenever the value differs from the previous one;
//   (N2) after an emission, the identical notification is not emitted again during the next max-1 repetitions
//        ("at most once per 120 repetitions"; the call site uses max = 120).
// The statement gives no lower bound on how often an unchanged notification must be re-emitted and does not say that Error
// must eventually be reported, so neither is tested.
// (H1)/(H2) are checked twice: on the string returned by the automaton, and on what the extension PUBLISHES: the real
// report_proxy_agent_service_status / report_proxy_agent_aggregate_status (+ extension_substatus) are driven in sequences and the
// <seq>.status file written after every observation is read back (vxw_c20_published_status below).
use crate::common::StatusState;
use crate::service_main::service_state::ServiceState;

fn is_error(s: &str) -> bool {
    s.eq_ignore_ascii_case("error")
}
fn is_success(s: &str) -> bool {
    s.eq_ignore_ascii_case("success")
}

// run-length rendering of an observation sequence: "S2 F19 S1"
fn rle(seq: &[bool], upto: usize) -> String {
    let mut out = String::new();
    let mut i = 0;
    while i <= upto && i < seq.len() {
        let mut j = i;
        while j + 1 <= upto && j + 1 < seq.len() && seq[j + 1] == seq[i] {
            j += 1;
        }
        if !out.is_empty() {
            out.push(' ');
        }
        out.push_str(&format!("{}{}", if seq[i] { "S" } else { "F" }, j - i + 1));
        i = j + 1;
    }
    out
}

struct Ctx {
    cases: u64,
    fails: u64,
}

impl Ctx {
    fn fail(&mut self, line: String) {
        self.fails += 1;
        if self.fails <= 25 {
            println!("VXW-FAIL {}", line);
        }
    }
}

// drive the real automaton from new() over seq, check H1/H2 after every observation
fn run_status(ctx: &mut Ctx, seq: &[bool]) {
    ctx.cases += 1;
    let mut st = StatusState::new();
    let mut trailing_fail: u64 = 0;
    let mut trailing_succ: u64 = 0;
    for (i, ok) in seq.iter().enumerate() {
        if *ok {
            trailing_succ += 1;
            trailing_fail = 0;
        } else {
            trailing_fail += 1;
            trailing_succ = 0;
        }
        let got = st.update_state(*ok);
        if is_error(&got) && trailing_fail < 20 {
            ctx.fail(format!(
                "{{\"what\":\"StatusState::update_state from new()\",\"observations\":\"{}\",\"step\":{},\"got\":\"{}\",\"want\":\"not Error: only {} consecutive failed observations (need >= 20){}\"}}",
                rle(seq, i), i + 1, got, trailing_fail, if *ok { ", and the last observation was a success" } else { "" }
            ));
            return;
        }
        if trailing_succ >= 2 && !is_success(&got) {
            ctx.fail(format!(
                "{{\"what\":\"StatusState::update_state from new()\",\"observations\":\"{}\",\"step\":{},\"got\":\"{}\",\"want\":\"Success after two consecutive successes\"}}",
                rle(seq, i), i + 1, got
            ));
            return;
        }
    }
}

fn bits(n: u32, len: usize) -> Vec<bool> {
    (0..len).map(|k| (n >> k) & 1 == 1).collect()
}

// all boolean sequences of length 0..=maxlen
fn all_upto(maxlen: usize) -> Vec<Vec<bool>> {
    let mut v = Vec::new();
    for len in 0..=maxlen {
        for n in 0..(1u32 << len) {
            v.push(bits(n, len));
        }
    }
    v
}

#[test]
fn vxw_c20_status_state() {
    let mut ctx = Ctx { cases: 0, fails: 0 };

    // (1) every observation sequence of length 18 from new() (all shorter ones are its prefixes, checked step by step)
    let l = 18usize;
    for n in 0..(1u32 << l) {
        run_status(&mut ctx, &bits(n, l));
    }

    // (2) threshold boundary in every small context: prefix (<=6, exhaustive) ++ k failures (k = 17..=24) ++ suffix (<=5, exhaustive)
    let prefixes = all_upto(6);
    let suffixes = all_upto(5);
    for p in &prefixes {
        for k in 17usize..=24 {
            for s in &suffixes {
                let mut seq = p.clone();
                seq.extend(std::iter::repeat(false).take(k));
                seq.extend(s.iter());
                run_status(&mut ctx, &seq);
            }
        }
    }

    // (3) two long failure runs separated by a short exhaustive middle part
    let mids = all_upto(4);
    for p in all_upto(2) {
        for k1 in [18usize, 19, 20, 21, 25] {
            for m in &mids {
                for k2 in [18usize, 19, 20, 21] {
                    for s in all_upto(2) {
                        let mut seq = p.clone();
                        seq.extend(std::iter::repeat(false).take(k1));
                        seq.extend(m.iter());
                        seq.extend(std::iter::repeat(false).take(k2));
                        seq.extend(s.iter());
                        run_status(&mut ctx, &seq);
                    }
                }
            }
        }
    }

    // (4) runs past the counters' saturation point (10000), then every short continuation
    let tails = all_upto(4);
    for n in [9_999usize, 10_000, 10_001, 10_025, 20_003, 65_540] {
        for first in [false, true] {
            // n identical observations, then k of the opposite kind (k around the threshold), then a short tail
            for k in [0usize, 1, 2, 19, 20, 21] {
                for t in &tails {
                    let mut seq: Vec<bool> = std::iter::repeat(first).take(n).collect();
                    seq.extend(std::iter::repeat(!first).take(k));
                    seq.extend(t.iter());
                    run_status(&mut ctx, &seq);
                }
            }
        }
        // saturate both counters one after the other, then continue
        for t in &tails {
            let mut seq: Vec<bool> = std::iter::repeat(true).take(n).collect();
            seq.extend(std::iter::repeat(false).take(n));
            seq.extend(t.iter());
            seq.extend(std::iter::repeat(false).take(19));
            seq.push(true);
            seq.push(true);
            run_status(&mut ctx, &seq);
        }
    }
    println!("VXW-DONE {}", ctx.cases);
}

// ---- state notifications -------------------------------------------------------------------------------------------
struct KeyView {
    last_value: String,
    calls: u64,          // notifications seen for this key
    last_emit_call: u64, // index (1-based) of the last emitted one
}

// drive one ServiceState over a sequence of (key, value) notifications with the given max
fn run_notifications(ctx: &mut Ctx, seq: &[(&str, &str)], max: u32, desc: &str) {
    ctx.cases += 1;
    let mut real = ServiceState::default();
    let mut view: std::collections::BTreeMap<String, KeyView> = std::collections::BTreeMap::new();
    for (i, (k, v)) in seq.iter().enumerate() {
        let got = real.update_service_state_entry(k, v, max);
        let want: Option<bool> = match view.get_mut(*k) {
            None => {
                view.insert(k.to_string(), KeyView { last_value: v.to_string(), calls: 1, last_emit_call: 1 });
                Some(true)
            }
            Some(kv) => {
                kv.calls += 1;
                if kv.last_value != *v {
                    kv.last_value = v.to_string();
                    Some(true)
                } else if kv.calls - kv.last_emit_call < max as u64 {
                    Some(false)
                } else {
                    None // the statement allows either
                }
            }
        };
        let prev_emit = view.get(*k).map(|kv| kv.last_emit_call).unwrap_or(0);
        if got {
            if let Some(kv) = view.get_mut(*k) {
                kv.last_emit_call = kv.calls;
            }
        }
        if let Some(w) = want {
            if w != got {
                let kv = view.get(*k).unwrap();
                ctx.fail(format!(
                    "{{\"what\":\"ServiceState::update_service_state_entry\",\"sequence\":\"{}\",\"max_count\":{},\"call\":{},\"key\":\"{}\",\"value\":\"{}\",\"got\":{},\"want\":{},\"why\":\"{}\"}}",
                    desc, max, i + 1, k, v, got, w,
                    if w { "first notification for the key or value changed: must be emitted".to_string() }
                    else { format!("identical notification repeated; call {} for this key, last emitted at its call {}: fewer than max_count repetitions since", kv.calls, prev_emit) }
                ));
                return;
            }
        }
    }
}

#[test]
fn vxw_c20_service_state() {
    let mut ctx = Ctx { cases: 0, fails: 0 };
    let vals = ["Success", "Error", "Transitioning"];

    // (2) max = 120 (the call site): a x k, b x m, a x 130, b x 125
    for k in [1usize, 2, 3, 60, 119, 120, 121, 122, 240, 241, 300] {
        for m in [1usize, 2, 60, 118, 119, 120, 121, 122, 123, 250] {
            let mut seq: Vec<(&str, &str)> = Vec::new();
            seq.extend(std::iter::repeat(("ReadProxyAgentStatusFile", "Success")).take(k));
            seq.extend(std::iter::repeat(("ReadProxyAgentStatusFile", "Error")).take(m));
            seq.extend(std::iter::repeat(("ReadProxyAgentStatusFile", "Success")).take(130));
            seq.extend(std::iter::repeat(("ReadProxyAgentStatusFile", "Error")).take(125));
            run_notifications(&mut ctx, &seq, 120, &format!("Success x{}, Error x{}, Success x130, Error x125", k, m));
        }
    }

    // (1) one key, every sequence over 2 values up to length 13 and over 3 values up to length 8, small max
    for max in [1u32, 2, 3, 4] {
        for len in 1..=13usize {
            for n in 0..(1u32 << len) {
                let seq: Vec<(&str, &str)> = (0..len).map(|i| ("k", vals[((n >> i) & 1) as usize])).collect();
                let desc: String = seq.iter().map(|(_, v)| &v[0..1]).collect();
                run_notifications(&mut ctx, &seq, max, &desc);
            }
        }
        for len in 1..=8usize {
            let mut n = 0u32;
            let total = 3u32.pow(len as u32);
            while n < total {
                let mut x = n;
                let mut seq: Vec<(&str, &str)> = Vec::new();
                for _ in 0..len {
                    seq.push(("k", vals[(x % 3) as usize]));
                    x /= 3;
                }
                let desc: String = seq.iter().map(|(_, v)| &v[0..1]).collect();
                run_notifications(&mut ctx, &seq, max, &desc);
                n += 1;
            }
        }
    }

    // (3) two keys interleaved round-robin, each with its own pattern, max = 120 and max = 3
    for max in [3u32, 120] {
        let unit = if max == 3 { 1usize } else { 40 };
        for (ka, kb) in [(1usize, 2usize), (2, 3), (3, 1), (4, 4), (7, 2)] {
            // key A: blocks of ka*unit identical values alternating; key B: blocks of kb*unit
            let mut seq: Vec<(&str, &str)> = Vec::new();
            for i in 0..(12 * unit * 4) {
                let va = vals[(i / (ka * unit)) % 2];
                let vb = vals[(i / (kb * unit)) % 3];
                seq.push(("A", va));
                seq.push(("B", vb));
            }
            run_notifications(&mut ctx, &seq, max, &format!("keys A,B interleaved; A changes every {} calls, B every {} calls", ka * unit, kb * unit));
        }
    }
    println!("VXW-DONE {}", ctx.cases);
}

// ---- the PUBLISHED status ------------------------------------------------------------------------------------------
// One step = one observation made by the monitor loop of service_main.rs, through the real functions, followed by reading
// back the <seq>.status file the step wrote. Observations as the statement defines them: the health observation is the
// probe of the agent's own aggregate status file (readable and reporting the version the extension carries = healthy;
// missing / unreadable / other version = failed). A report about running the setup tool (whatever its exit status, or not
// launched at all) does not observe a healthy agent: it counts as a failed observation.
mod published {
    use super::{is_error, is_success, Ctx};
    use crate::common;
    use crate::constants;
    use crate::service_main::service_state::ServiceState;
    use crate::structs::*;
    use proxy_agent_shared::misc_helpers;
    use proxy_agent_shared::proxy_agent_aggregate_status::*;
    use std::ffi::CString;
    use std::fs;
    use std::os::raw::c_char;
    use std::path::{Path, PathBuf};

    extern "C" {
        fn unshare(flags: i32) -> i32;
        fn mount(src: *const c_char, target: *const c_char, fstype: *const c_char, flags: std::os::raw::c_ulong, data: *const c_char) -> i32;
        fn umount2(target: *const c_char, flags: i32) -> i32;
        fn geteuid() -> u32;
    }

    const VERSION_IN_EXTENSION: &str = "1.0.30";

    #[derive(Clone, Copy, PartialEq, Debug)]
    pub enum Obs {
        InstallExit0,       // `proxy_agent_setup install` ran and exited with 0
        InstallExit3,       // ... exited with 3
        InstallNotLaunched, // ... could not be launched (io error)
        AggMissing,         // the agent's aggregate status file does not exist
        AggUnreadable,      // ... exists but is not a status document
        AggOtherVersion,    // ... reports another agent version than the one the extension carries
        AggMatch,           // ... reports the version the extension carries: the one healthy observation
    }
    pub const ALL: [Obs; 7] = [Obs::InstallExit0, Obs::InstallExit3, Obs::InstallNotLaunched, Obs::AggMissing, Obs::AggUnreadable, Obs::AggOtherVersion, Obs::AggMatch];
    pub const FAILED: [Obs; 6] = [Obs::InstallExit0, Obs::InstallExit3, Obs::InstallNotLaunched, Obs::AggMissing, Obs::AggUnreadable, Obs::AggOtherVersion];

    impl Obs {
        fn healthy(self) -> bool {
            self == Obs::AggMatch
        }
        fn install(self) -> bool {
            matches!(self, Obs::InstallExit0 | Obs::InstallExit3 | Obs::InstallNotLaunched)
        }
        fn tag(self) -> &'static str {
            match self {
                Obs::InstallExit0 => "install-report(exit 0)",
                Obs::InstallExit3 => "install-report(exit 3)",
                Obs::InstallNotLaunched => "install-report(setup tool not launched: io error)",
                Obs::AggMissing => "agent-status-file(missing)",
                Obs::AggUnreadable => "agent-status-file(unreadable)",
                Obs::AggOtherVersion => "agent-status-file(other version)",
                Obs::AggMatch => "agent-status-file(version matches)",
            }
        }
    }

    fn render(seq: &[Obs], upto: usize) -> String {
        let mut out = String::new();
        let mut i = 0;
        while i <= upto && i < seq.len() {
            let mut j = i;
            while j + 1 <= upto && j + 1 < seq.len() && seq[j + 1] == seq[i] {
                j += 1;
            }
            if !out.is_empty() {
                out.push_str(", ");
            }
            out.push_str(&format!("{} x{}", seq[i].tag(), j - i + 1));
            i = j + 1;
        }
        out
    }

    pub struct World {
        work: PathBuf,
        status_dir: PathBuf,
        // Some: the folder the extension reads the agent's aggregate status from is a private bind mount of a temp folder
        agg_file: Option<PathBuf>,
        mounted_on: Option<CString>,
        agg_now: Option<Obs>,
        spawned: [u32; 3],
        run_restore_purge: bool,
        pub unread: u64,
    }

    fn cstr(p: &Path) -> CString {
        CString::new(p.to_string_lossy().as_bytes()).unwrap()
    }

    fn aggregate_doc(version: &str) -> String {
        let detail = |m: &str| ProxyAgentDetailStatus { status: ModuleState::RUNNING, message: m.to_string(), states: None };
        let doc = GuestProxyAgentAggregateStatus {
            timestamp: misc_helpers::get_date_time_string(),
            proxyAgentStatus: ProxyAgentStatus {
                version: version.to_string(),
                status: OverallState::SUCCESS,
                monitorStatus: detail("monitor"),
                keyLatchStatus: detail("key latch"),
                ebpfProgramStatus: detail("ebpf"),
                proxyListenerStatus: detail("listener"),
                telemetryLoggerStatus: detail("telemetry"),
                proxyConnectionsCount: 3,
            },
            proxyConnectionSummary: vec![],
            failedAuthenticateSummary: vec![],
        };
        serde_json::to_string(&doc).unwrap()
    }

    impl World {
        pub fn new() -> World {
            let work = std::env::temp_dir().join(format!("vxw_c20_{}", std::process::id()));
            let _ = fs::remove_dir_all(&work);
            let status_dir = work.join("status");
            let agg_dir = work.join("agent_log_folder");
            fs::create_dir_all(&status_dir).unwrap();
            fs::create_dir_all(&agg_dir).unwrap();
            let mut w = World { work, status_dir, agg_file: None, mounted_on: None, agg_now: None, spawned: [0; 3], run_restore_purge: !common::setup_tool_exe_path().exists(), unread: 0 };
            // a private mount namespace for this thread, the agent's log folder replaced by an empty temp folder
            let folder = PathBuf::from(PROXY_AGENT_AGGREGATE_STATUS_FOLDER);
            let mut at: &Path = &folder;
            while !at.is_dir() {
                match at.parent() {
                    Some(p) => at = p,
                    None => break,
                }
            }
            if unsafe { geteuid() } != 0 || !at.is_dir() || at == Path::new("/") {
                println!("VXW-NOTE C20 published status: no private mount namespace (needs root); the agent status file cases run through extension_substatus directly, missing/unreadable file not exercised");
                return w;
            }
            let (none, slash) = (CString::new("none").unwrap(), CString::new("/").unwrap());
            let private = unsafe { unshare(0x0002_0000) == 0 && mount(none.as_ptr(), slash.as_ptr(), std::ptr::null(), 16384 | (1 << 18), std::ptr::null()) == 0 };
            if !private {
                println!("VXW-NOTE C20 published status: could not enter a private mount namespace; the agent status file cases run through extension_substatus directly, missing/unreadable file not exercised");
                return w;
            }
            let (src, tgt) = (cstr(&agg_dir), cstr(at));
            if unsafe { mount(src.as_ptr(), tgt.as_ptr(), std::ptr::null(), 4096, std::ptr::null()) } != 0 {
                println!("VXW-NOTE C20 published status: bind mount over {} failed; agent status file cases run through extension_substatus directly", at.display());
                return w;
            }
            w.mounted_on = Some(tgt);
            // only go on when the folder the extension reads really is the temp folder now
            let _ = fs::create_dir_all(&folder);
            let rel = folder.strip_prefix(at).unwrap_or(Path::new(""));
            let _ = fs::write(agg_dir.join(rel).join("vxw_marker"), b"x");
            if folder.join("vxw_marker").exists() && fs::read_dir(&folder).map(|d| d.count()).unwrap_or(0) == 1 {
                w.agg_file = Some(folder.join(PROXY_AGENT_AGGREGATE_STATUS_FILE_NAME));
            } else {
                println!("VXW-NOTE C20 published status: the bind mount is not in effect; agent status file cases run through extension_substatus directly");
            }
            w
        }

        pub fn via_file(&self) -> bool {
            self.agg_file.is_some()
        }

        pub fn close(&mut self) {
            if let Some(t) = self.mounted_on.take() {
                unsafe {
                    umount2(t.as_ptr(), 2);
                }
            }
            let _ = fs::remove_dir_all(&self.work);
        }

        fn set_agg(&mut self, o: Obs) {
            if self.agg_now == Some(o) {
                return;
            }
            if let Some(f) = self.agg_file.as_ref() {
                match o {
                    Obs::AggMissing => {
                        let _ = fs::remove_file(f);
                    }
                    Obs::AggUnreadable => fs::write(f, b"{\"timestamp\": \"2024-01-01T00:00:00Z\", \"proxyAgentStatus\": {\"version\": ").unwrap(),
                    Obs::AggOtherVersion => fs::write(f, aggregate_doc("1.0.29")).unwrap(),
                    _ => fs::write(f, aggregate_doc(VERSION_IN_EXTENSION)).unwrap(),
                }
            }
            self.agg_now = Some(o);
        }

        // what Command::output() gave the monitor loop: from real child processes at first, then values of the same shape
        fn output(&mut self, o: Obs) -> std::io::Result<std::process::Output> {
            use std::os::unix::process::ExitStatusExt;
            let idx = match o {
                Obs::InstallExit0 => 0,
                Obs::InstallExit3 => 1,
                _ => 2,
            };
            self.spawned[idx] += 1;
            let real = self.spawned[idx] <= 40;
            match o {
                Obs::InstallExit0 if real => std::process::Command::new("/bin/sh").args(["-c", "echo installed; exit 0"]).output(),
                Obs::InstallExit3 if real => std::process::Command::new("/bin/sh").args(["-c", "echo failed >&2; exit 3"]).output(),
                Obs::InstallExit0 => Ok(std::process::Output { status: std::process::ExitStatus::from_raw(0), stdout: b"installed\n".to_vec(), stderr: Vec::new() }),
                Obs::InstallExit3 => Ok(std::process::Output { status: std::process::ExitStatus::from_raw(3 << 8), stdout: Vec::new(), stderr: b"failed\n".to_vec() }),
                _ if real => std::process::Command::new(self.work.join("ProxyAgent").join("proxy_agent_setup")).arg("install").output(),
                _ => Err(std::io::Error::from_raw_os_error(if self.spawned[idx] % 2 == 0 { 2 } else { 13 })),
            }
        }
    }

    fn initial_status() -> StatusObj {
        StatusObj {
            name: constants::PLUGIN_NAME.to_string(),
            operation: constants::ENABLE_OPERATION.to_string(),
            configurationAppliedTime: misc_helpers::get_date_time_string(),
            code: constants::STATUS_CODE_OK,
            status: constants::SUCCESS_STATUS.to_string(),
            formattedMessage: FormattedMessage { lang: constants::LANG_EN_US.to_string(), message: "Update Proxy Agent command output successfully".to_string() },
            substatus: Default::default(),
        }
    }

    /// false: the sequence needs an observation kind that cannot be produced here
    pub fn run(ctx: &mut Ctx, w: &mut World, seq: &[Obs]) -> bool {
        if !w.via_file() && seq.iter().any(|o| matches!(o, Obs::AggMissing | Obs::AggUnreadable)) {
            return false;
        }
        ctx.cases += 1;
        let version = VERSION_IN_EXTENSION.to_string();
        let mut status = initial_status();
        let mut st = common::StatusState::new();
        let mut service_state = ServiceState::default();
        let mut restored_in_error = !w.run_restore_purge;
        let mut seq_no = 0u32;
        let (mut tf, mut ts) = (0u64, 0u64);
        for (i, o) in seq.iter().enumerate() {
            if o.healthy() {
                ts += 1;
                tf = 0;
            } else {
                tf += 1;
                ts = 0;
            }
            if o.install() {
                seq_no += 1; // the setup tool is run when a new configuration sequence number arrives
            }
            let file = w.status_dir.join(format!("{}.status", seq_no));
            let _ = fs::remove_file(&file);
            if o.install() {
                let output = w.output(*o);
                super::super::report_proxy_agent_service_status(output, w.status_dir.clone(), &seq_no.to_string(), &mut status, &mut st);
            } else {
                w.set_agg(*o);
                if w.via_file() {
                    super::super::report_proxy_agent_aggregate_status(&version, &mut status, &mut st, &mut restored_in_error, &mut service_state);
                } else {
                    let doc: GuestProxyAgentAggregateStatus = serde_json::from_str(&aggregate_doc(if *o == Obs::AggMatch { VERSION_IN_EXTENSION } else { "1.0.29" })).unwrap();
                    super::super::extension_substatus(doc, &version, &mut status, &mut st, &mut service_state);
                }
                // the monitor loop publishes the status object at the end of every iteration
                common::report_status(w.status_dir.clone(), &seq_no.to_string(), &status);
            }
            let published = match fs::read_to_string(&file).map_err(|e| e.to_string()).and_then(|t| serde_json::from_str::<Vec<TopLevelStatus>>(&t).map_err(|e| e.to_string())) {
                Ok(v) if v.len() == 1 => v[0].status.status.clone(),
                _ => {
                    w.unread += 1;
                    continue;
                }
            };
            if is_error(&published) && tf < 20 {
                ctx.fail(format!(
                    "{{\"what\":\"status published in {}.status (real report_proxy_agent_service_status / report_proxy_agent_aggregate_status, fresh StatusState)\",\"observations\":\"{}\",\"step\":{},\"got\":\"{}\",\"want\":\"not Error: only {} consecutive failed observations (need >= 20){}\"}}",
                    seq_no, render(seq, i), i + 1, published, tf, if o.healthy() { ", and the last observation was a success" } else if tf == 1 && i > 0 { ", directly after a success" } else { "" }
                ));
                return true;
            }
            if ts >= 2 && !is_success(&published) {
                ctx.fail(format!(
                    "{{\"what\":\"status published in {}.status (real report_proxy_agent_service_status / report_proxy_agent_aggregate_status, fresh StatusState)\",\"observations\":\"{}\",\"step\":{},\"got\":\"{}\",\"want\":\"Success after two consecutive successful observations\"}}",
                    seq_no, render(seq, i), i + 1, published
                ));
                return true;
            }
        }
        true
    }
}

#[test]
fn vxw_c20_published_status() {
    use published::{Obs, World, ALL, FAILED};
    let mut ctx = Ctx { cases: 0, fails: 0 };
    let mut w = World::new();
    let ok = Obs::AggMatch;

    // (1) every sequence of 3 observations over the 7 kinds, every sequence of 5 over 4 of them (every prefix checked)
    for n in 0..7usize.pow(3) {
        let mut x = n;
        let mut seq = Vec::new();
        for _ in 0..3 {
            seq.push(ALL[x % 7]);
            x /= 7;
        }
        published::run(&mut ctx, &mut w, &seq);
    }
    let four = [Obs::InstallNotLaunched, Obs::InstallExit0, Obs::AggMissing, ok];
    for n in 0..4usize.pow(5) {
        let mut x = n;
        let mut seq = Vec::new();
        for _ in 0..5 {
            seq.push(four[x % 4]);
            x /= 4;
        }
        published::run(&mut ctx, &mut w, &seq);
    }

    // (2) around the threshold: prefix ++ k failed observations (k = 19, 20, 21; one kind, mixed kinds, an install report first /
    //     last / every fifth) ++ suffix
    let prefixes: Vec<Vec<Obs>> = vec![vec![], vec![ok, ok], vec![Obs::AggMissing, ok]];
    let suffixes: Vec<Vec<Obs>> = vec![
        vec![], vec![ok, ok], vec![Obs::InstallNotLaunched], vec![ok, Obs::InstallNotLaunched], vec![ok, ok, Obs::InstallNotLaunched, ok],
        vec![ok, Obs::AggUnreadable, ok, ok, Obs::InstallExit3],
    ];
    for k in [19usize, 20, 21] {
        let mut runs: Vec<Vec<Obs>> = Vec::new();
        for f in [Obs::InstallNotLaunched, Obs::AggMissing, Obs::AggOtherVersion] {
            runs.push(vec![f; k]);
        }
        runs.push((0..k).map(|i| FAILED[i % 6]).collect());
        let mut r = vec![Obs::AggOtherVersion; k];
        r[k - 1] = Obs::InstallNotLaunched;
        runs.push(r);
        let mut r = vec![Obs::AggMissing; k];
        r[0] = Obs::InstallNotLaunched;
        runs.push(r);
        runs.push((0..k).map(|i| if i % 5 == 0 { [Obs::InstallExit0, Obs::InstallExit3, Obs::InstallNotLaunched][(i / 5) % 3] } else { Obs::AggOtherVersion }).collect());
        for p in prefixes.iter() {
            for r in runs.iter() {
                for s in suffixes.iter() {
                    let mut seq = p.clone();
                    seq.extend(r.iter());
                    seq.extend(s.iter());
                    published::run(&mut ctx, &mut w, &seq);
                }
            }
        }
    }
    if w.unread > 0 {
        println!("VXW-NOTE C20 published status: {} steps left no readable <seq>.status file (not checked)", w.unread);
    }
    w.close();
    println!("VXW-DONE {}", ctx.cases);
}
