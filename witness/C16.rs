// Witness generator for C16 (provisioning status is truthful under any arrival order), compiled into the real agent
// crate next to provision.rs. It drives the real public provision functions (redirector_ready, key_latched,
// listener_started, key_latch_ready_state_reset, provision_timeup), the real ProxyServer listener and its `/provision`
// handler over loopback HTTP, and observes the JSON answer, the public getter and the status.tag file.
//
// Oracle = the statement, kept as a tiny model next to the real state:
//   ready      : the set of subsystems that reported ready and were not reset since,
//   completion : the instant [t0,t1] window in which the last report that made the set full arrived (void after a reset),
//   deadline   : the window in which the deadline handler last ran.
//   class "premature"   : finished:true is a contradiction unless the secure channel is latched, or a completion / deadline
//                         instant at or after the instant the query names exists;
//   class "completeness": (the other half of 'truthful') finished:false is a contradiction when the channel is latched or
//                         the most recent completion / deadline (no reset since) is at or after the instant the query names;
//   class "error_text"  : the error text names exactly the subsystems not in `ready`, and is empty iff all are ready;
//   class "atomicity"   : a previously written status.tag is replaced (new file), never rewritten in place.
use crate::provision;
use crate::proxy::proxy_server::ProxyServer;
use crate::shared_state::SharedState;
use proxy_agent_shared::misc_helpers;
use std::path::PathBuf;
use std::time::Duration;

const R: u8 = 0; // redirector reports ready
const K: u8 = 1; // key latch reports ready
const L: u8 = 2; // listener reports ready
const X: u8 = 3; // key latch reset
const D: u8 = 4; // provisioning deadline passes

fn op_name(op: u8) -> &'static str {
    match op {
        R => "redirector_ready",
        K => "key_latched",
        L => "listener_started",
        X => "key_latch_ready_state_reset",
        _ => "provision_timeup",
    }
}

fn now() -> i128 {
    misc_helpers::get_date_time_unix_nano()
}

fn work_root() -> PathBuf {
    let mut p = std::env::temp_dir();
    p.push(format!("vxw_c16_{}", std::process::id()));
    p
}

// The agent reads its settings from /etc/azure/proxy-agent.json or from proxy-agent.json next to the executable (it
// panics when neither exists). Give the test executable one that points every folder below the temp directory.
fn ensure_config() {
    let root = work_root();
    let _ = std::fs::create_dir_all(&root);
    let cfg = format!(
        "{{\"logFolder\":\"{0}/logs\",\"eventFolder\":\"{0}/events\",\"latchKeyFolder\":\"{0}/keys\",\"monitorIntervalInSeconds\":60,\"pollKeyStatusIntervalInSeconds\":15,\"hostGAPluginSupport\":1,\"ebpfProgramName\":\"ebpf_cgroup.o\",\"cgroupRoot\":\"/sys/fs/cgroup\",\"fileLogLevel\":\"Info\"}}",
        root.display()
    );
    let mut f = misc_helpers::get_current_exe_dir();
    f.push("proxy-agent.json");
    let _ = std::fs::write(f, cfg);
}

fn keys_dir_if_private() -> Option<PathBuf> {
    let d = crate::common::config::get_keys_dir();
    if d.starts_with(work_root()) {
        Some(d)
    } else {
        None // a machine-wide configuration is in effect: do not touch its folders
    }
}

#[derive(Clone, Copy)]
struct Evt {
    t0: i128,
    t1: i128,
    tick: i128, // what the public getter showed right after
}

impl Evt {
    fn in_window(&self) -> bool {
        self.tick != 0 && self.t0 <= self.tick && self.tick <= self.t1
    }
    fn hi(&self) -> i128 {
        if self.in_window() { self.tick } else { self.t1 }
    }
    fn lo(&self) -> i128 {
        if self.in_window() { self.tick } else { self.t0 }
    }
}

struct Model {
    ready: [bool; 3],
    completion: Option<Evt>,
    completion_must: bool,
    deadline: Option<Evt>,
    deadline_must: bool,
}

impl Model {
    fn new() -> Model {
        Model { ready: [false; 3], completion: None, completion_must: false, deadline: None, deadline_must: false }
    }
    fn full(&self) -> bool {
        self.ready.iter().all(|b| *b)
    }
    // returns a complaint when a fresh completion instant was not recorded
    fn apply(&mut self, op: u8, e: Evt) -> Option<String> {
        match op {
            R | K | L => {
                let was_full = self.full();
                self.ready[op as usize] = true;
                if self.full() {
                    if !was_full || self.completion.is_none() {
                        self.completion = Some(e);
                        self.completion_must = true;
                        if !e.in_window() {
                            return Some(format!("all three subsystems have now reported ready, but the finish tick shown by the getter is {} (the report ran in [{},{}])", e.tick, e.t0, e.t1));
                        }
                    } else if e.in_window() {
                        self.completion = Some(e); // a repeated report may refresh the instant
                    }
                }
                None
            }
            X => {
                self.ready[K as usize] = false;
                self.completion = None;
                self.completion_must = false;
                self.deadline_must = false; // statement silent on reset-after-deadline: nothing demanded, the deadline stays allowed
                None
            }
            _ => {
                if self.full() {
                    // already finished through readiness; the deadline passing is one more admissible instant
                    self.deadline = Some(Evt { t0: e.t0, t1: e.t1, tick: 0 });
                    None
                } else if !self.deadline_must {
                    self.deadline = Some(e);
                    self.deadline_must = true;
                    if !e.in_window() {
                        return Some(format!("the deadline passed with subsystems still not ready, but the finish tick shown by the getter is {} (the handler ran in [{},{}])", e.tick, e.t0, e.t1));
                    }
                    None
                } else {
                    if e.in_window() {
                        self.deadline = Some(e);
                    }
                    None
                }
            }
        }
    }
    fn any_instant(&self) -> bool {
        self.completion.is_some() || self.deadline.is_some()
    }
    fn allowed(&self, q: Option<i128>, latched: bool) -> bool {
        if latched {
            return true;
        }
        match q {
            None => self.any_instant(),
            Some(q) => self.completion.map(|e| q <= e.hi()).unwrap_or(false) || self.deadline.map(|e| q <= e.hi()).unwrap_or(false),
        }
    }
    fn must(&self, q: Option<i128>, latched: bool) -> bool {
        if latched {
            return true;
        }
        let c = self.completion_must && self.completion.map(|e| q.map(|q| q <= e.lo()).unwrap_or(true)).unwrap_or(false);
        let d = self.deadline_must && self.deadline.map(|e| e.tick != 0 && q.map(|q| q <= e.lo()).unwrap_or(true)).unwrap_or(false);
        c || d
    }
    fn not_ready_labels(&self) -> Vec<&'static str> {
        let mut v = Vec::new();
        if !self.ready[0] { v.push("ebpfProgramStatus"); }
        if !self.ready[1] { v.push("keyLatchStatus"); }
        if !self.ready[2] { v.push("proxyListenerStatus"); }
        v
    }
}

fn esc(s: &str) -> String {
    s.replace('\\', "\\\\").replace('"', "'").replace('\r', "\\r").replace('\n', "\\n")
}

// ports below the ephemeral range (the clients of the concurrently running scenarios take ephemeral ports)
static NEXT_PORT: std::sync::atomic::AtomicU32 = std::sync::atomic::AtomicU32::new(0);
fn free_port() -> u16 {
    loop {
        let k = NEXT_PORT.fetch_add(1, std::sync::atomic::Ordering::SeqCst);
        let port = 20011 + ((std::process::id() % 7) * 1500 + k % 1500) as u16;
        if std::net::TcpListener::bind(("127.0.0.1", port)).is_ok() {
            return port;
        }
    }
}

// one real HTTP request to the real listener; tick header: None = header absent
async fn query(port: u16, tick: Option<&str>) -> Result<(bool, String), String> {
    // transport hiccups (reset connection, empty answer under load) are retried; they are not what the property is about
    let mut last = String::new();
    for attempt in 0..4 {
        match query_once(port, tick).await {
            Ok(r) => return Ok(r),
            Err(e) => last = e,
        }
        tokio::time::sleep(Duration::from_millis(20 * (attempt + 1))).await;
    }
    Err(last)
}

async fn query_once(port: u16, tick: Option<&str>) -> Result<(bool, String), String> {
    let fut = async {
        let s = tokio::net::TcpStream::connect(("127.0.0.1", port)).await.map_err(|e| e.to_string())?;
        let mut req = format!(
            "GET {} HTTP/1.1\r\nHost: 127.0.0.1:{}\r\n{}: true\r\nConnection: close\r\n",
            provision::provision_query::PROVISION_URL_PATH, port, crate::common::constants::METADATA_HEADER
        );
        if let Some(t) = tick {
            req.push_str(&format!("{}: {}\r\n", crate::common::constants::TIME_TICK_HEADER, t));
        }
        req.push_str("\r\n");
        let bytes = req.as_bytes();
        let mut off = 0;
        while off < bytes.len() {
            s.writable().await.map_err(|e| e.to_string())?;
            match s.try_write(&bytes[off..]) {
                Ok(k) => off += k,
                Err(e) if e.kind() == std::io::ErrorKind::WouldBlock => continue,
                Err(e) => return Err(e.to_string()),
            }
        }
        let mut buf = Vec::new();
        let mut tmp = [0u8; 4096];
        loop {
            if s.readable().await.is_err() {
                break;
            }
            match s.try_read(&mut tmp) {
                Ok(0) => break,
                Ok(k) => buf.extend_from_slice(&tmp[..k]),
                Err(e) if e.kind() == std::io::ErrorKind::WouldBlock => continue,
                Err(_) => break,
            }
        }
        let txt = String::from_utf8_lossy(&buf).to_string();
        let a = txt.find('{').ok_or(format!("no json in response: {}", esc(&txt)))?;
        let b = txt.rfind('}').ok_or("no json end".to_string())?;
        let st: provision::provision_query::ProvisionState = serde_json::from_str(&txt[a..=b]).map_err(|e| format!("{}: {}", e, esc(&txt)))?;
        Ok::<(bool, String), String>((st.finished, st.errorMessage))
    };
    match tokio::time::timeout(Duration::from_secs(10), fut).await {
        Ok(r) => r,
        Err(_) => Err("timeout".to_string()),
    }
}

fn labels_of(text: &str) -> Vec<String> {
    text.split("\r\n").filter(|l| !l.is_empty()).map(|l| l.split(" - ").next().unwrap_or("").to_string()).collect()
}

struct Handles {
    ss: SharedState,
    port: u16,
    server: tokio::task::JoinHandle<()>,
}

// fresh actors + real listener; returns after the listener accepts connections
async fn boot() -> (Handles, Evt, bool, bool) {
    let ss = SharedState::start_all();
    let prov = ss.get_provision_shared_state();
    // the event/status background tasks are irrelevant here: mark them as started so that none is spawned per scenario
    let _ = prov.set_event_log_threads_initialized().await;
    let port = free_port();
    let t0 = now();
    let server = tokio::spawn({
        let ps = ProxyServer::new(port, &ss);
        async move { ps.start().await }
    });
    let mut listening = false;
    for _ in 0..3000 {
        if tokio::net::TcpStream::connect(("127.0.0.1", port)).await.is_ok() {
            listening = true;
            break;
        }
        tokio::time::sleep(Duration::from_millis(1)).await;
    }
    // the listener reports its readiness by itself, right after binding
    let mut seen = false;
    for _ in 0..300 {
        if let Ok(s) = prov.get_state().await {
            if s.contains(provision::ProvisionFlags::LISTENER_READY) {
                seen = true;
                break;
            }
        }
        tokio::time::sleep(Duration::from_millis(1)).await;
    }
    let t1 = now();
    let tick = prov.get_provision_finished().await.unwrap_or(0);
    (Handles { ss, port, server }, Evt { t0, t1, tick }, listening, seen)
}

async fn shutdown(h: Handles) {
    h.ss.cancel_cancellation_token();
    let _ = tokio::time::timeout(Duration::from_secs(2), h.server).await;
}

async fn run_op(op: u8, ss: &SharedState) -> Evt {
    let prov = ss.get_provision_shared_state();
    let t0 = now();
    match op {
        R => provision::redirector_ready(ss.get_cancellation_token(), ss.get_key_keeper_shared_state(), ss.get_telemetry_shared_state(), prov.clone(), ss.get_agent_status_shared_state()).await,
        K => provision::key_latched(ss.get_cancellation_token(), ss.get_key_keeper_shared_state(), ss.get_telemetry_shared_state(), prov.clone(), ss.get_agent_status_shared_state()).await,
        L => provision::listener_started(ss.get_cancellation_token(), ss.get_key_keeper_shared_state(), ss.get_telemetry_shared_state(), prov.clone(), ss.get_agent_status_shared_state()).await,
        X => provision::key_latch_ready_state_reset(prov.clone()).await,
        _ => provision::provision_timeup(None, prov.clone(), ss.get_agent_status_shared_state()).await,
    }
    let t1 = now();
    let internal = provision::get_provision_state_internal(prov, ss.get_agent_status_shared_state(), ss.get_key_keeper_shared_state()).await;
    Evt { t0, t1, tick: internal.finished_time_tick }
}

// one scenario = one order of arrival; every prefix is a scenario of its own, so the state is queried at the end only
async fn scenario(seq: Vec<u8>) -> Vec<String> {
    let mut fails: Vec<String> = Vec::new();
    let seq_s = seq.iter().map(|o| op_name(*o)).collect::<Vec<_>>().join(" > ");
    let t_begin = now();
    let (h, boot_evt, listening, seen) = boot().await;
    if !listening {
        println!("VXW-NOTE listener on port {} did not come up, order '{}' skipped", h.port, seq_s);
        shutdown(h).await;
        return fails;
    }
    let mut m = Model::new();
    let prov = h.ss.get_provision_shared_state();
    let mut setup = "listener reported by the real ProxyServer at start";
    if !seen {
        fails.push(format!("{{\"class\":\"completeness\",\"order\":\"{}\",\"got\":\"the real listener accepts connections but LISTENER_READY is not in the provision state\",\"want\":\"listener readiness recorded\"}}", seq_s));
    }
    let rest: &[u8] = if seq.first() == Some(&L) {
        m.apply(L, boot_evt);
        &seq[1..]
    } else {
        // this order has the listener report later (or never): take its start-up report back through the actor
        let _ = prov.reset_one_state(provision::ProvisionFlags::LISTENER_READY).await;
        let _ = prov.set_provision_finished(false).await;
        setup = "listener start-up report taken back through ProvisionSharedState::reset_one_state before the sequence";
        &seq[..]
    };
    for op in rest {
        let e = run_op(*op, &h.ss).await;
        if let Some(c) = m.apply(*op, e) {
            fails.push(format!("{{\"class\":\"completeness\",\"order\":\"{}\",\"setup\":\"{}\",\"after\":\"{}\",\"got\":\"{}\",\"want\":\"finish tick taken when provisioning finished\"}}", seq_s, setup, op_name(*op), esc(&c)));
        }
    }
    let end_tick = prov.get_provision_finished().await.unwrap_or(0);
    let t_end = now();
    let kk = h.ss.get_key_keeper_shared_state();
    let mut plan: Vec<(&str, bool, Vec<Option<String>>)> = Vec::new();
    let mut first: Vec<Option<String>> = vec![None, Some("0".to_string()), Some("-5".to_string()), Some("abc".to_string()), Some(t_begin.to_string()), Some(t_end.to_string()), Some((t_end + 1_000_000_000_000i128).to_string())];
    if end_tick != 0 {
        first.push(Some((end_tick - 1).to_string()));
        first.push(Some(end_tick.to_string()));
        first.push(Some((end_tick + 1).to_string()));
    }
    plan.push(("", false, first));
    plan.push((crate::key_keeper::DISABLE_STATE, false, vec![None, Some(t_begin.to_string()), Some(t_end.to_string())]));
    plan.push((crate::key_keeper::MUST_SIG_WIRESERVER, true, vec![None, Some((t_end + 1_000_000_000_000i128).to_string())]));
    plan.push((crate::key_keeper::MUST_SIG_WIRESERVER_IMDS, true, vec![Some((t_end + 1_000_000_000_000i128).to_string())]));
    plan.push((crate::key_keeper::UNKNOWN_STATE, false, vec![Some((t_end + 1_000_000_000_000i128).to_string())]));
    let want_labels: Vec<String> = m.not_ready_labels().iter().map(|s| s.to_string()).collect();
    for (chan, latched, ticks) in plan {
        if !chan.is_empty() {
            let _ = kk.update_current_secure_channel_state(chan.to_string()).await;
        }
        let chan_s = if chan.is_empty() { "as started" } else { chan };
        for t in ticks {
            let q: Option<Option<i128>> = match &t {
                None => Some(None),
                Some(s) => s.parse::<i128>().ok().map(Some),
            };
            let t_s = t.clone().unwrap_or("absent".to_string());
            let head = format!("\"order\":\"{}\",\"setup\":\"{}\",\"secure_channel_state\":\"{}\",\"query_tick\":\"{}\",\"finish_tick_shown_by_getter\":\"{}\"", seq_s, setup, chan_s, t_s, end_tick);
            match query(h.port, t.as_deref()).await {
                Err(e) => println!("VXW-NOTE no usable answer from the listener after 4 attempts ({}): {}", esc(&e), head),
                Ok((finished, text)) => {
                    let (allowed, must) = match q {
                        Some(q) => (m.allowed(q, latched), m.must(q, latched)),
                        None => (latched || m.any_instant(), latched), // unparsable tick: names no instant
                    };
                    if finished && !allowed {
                        fails.push(format!("{{\"class\":\"premature\",{},\"ready\":\"{:?}\",\"got\":\"finished:true\",\"want\":\"finished:false\"}}", head, m.ready));
                    }
                    if !finished && must {
                        fails.push(format!("{{\"class\":\"completeness\",{},\"ready\":\"{:?}\",\"got\":\"finished:false\",\"want\":\"finished:true\"}}", head, m.ready));
                    }
                    let got_labels = labels_of(&text);
                    if got_labels != want_labels || (text.is_empty() != want_labels.is_empty()) {
                        fails.push(format!("{{\"class\":\"error_text\",{},\"got\":\"{}\",\"want\":\"names exactly [{}]\"}}", head, esc(&text), want_labels.join(", ")));
                    }
                }
            }
        }
    }
    shutdown(h).await;
    fails.truncate(3);
    fails
}

fn sequences() -> Vec<Vec<u8>> {
    let mut all: Vec<Vec<u8>> = vec![vec![]];
    let mut layer: Vec<Vec<u8>> = vec![vec![]];
    for len in 1..=5 {
        let mut next = Vec::new();
        for s in &layer {
            for op in [R, K, L, X, D] {
                let mut t = s.clone();
                t.push(op);
                if len == 5 {
                    // length 5: each readiness report at most once (resets and deadlines unrestricted)
                    if [R, K, L].iter().any(|r| t.iter().filter(|o| *o == r).count() > 1) {
                        continue;
                    }
                }
                next.push(t);
            }
        }
        all.extend(next.iter().cloned());
        layer = next;
    }
    // longer histories: latch, reset, reset again, latch again; deadline in between
    all.push(vec![R, L, K, X, X, K]);
    all.push(vec![L, R, K, X, X, D]);
    all.push(vec![R, K, L, X, K, X, X]);
    all.push(vec![D, R, K, L, X, D, K]);
    all.push(vec![R, D, X, X, L, K]);
    all
}

#[test]
fn console_vxw_c16_a_orders() {
    ensure_config();
    let rt = tokio::runtime::Builder::new_multi_thread().worker_threads(4).enable_all().build().unwrap();
    let started = std::time::Instant::now();
    let seqs = sequences();
    let mut n = 0u64;
    rt.block_on(async {
        for chunk in seqs.chunks(8) {
            if started.elapsed() > Duration::from_secs(150) {
                println!("VXW-NOTE stopped after {} scenarios (time budget)", n);
                break;
            }
            let mut hs = Vec::new();
            for s in chunk {
                hs.push(tokio::spawn(scenario(s.clone())));
            }
            for h in hs {
                n += 1;
                if let Ok(fails) = h.await {
                    for f in fails {
                        println!("VXW-FAIL {}", f);
                    }
                }
            }
        }
    });
    rt.shutdown_timeout(Duration::from_secs(1));
    println!("VXW-DONE {}", n);
}

// the three subsystems report at the same time from separate tasks, with queries in flight: no report may be lost,
// and no answer may say finished before the last of the three reports was even started
#[test]
fn console_vxw_c16_b_concurrent_reports() {
    ensure_config();
    let rt = tokio::runtime::Builder::new_multi_thread().worker_threads(4).enable_all().build().unwrap();
    let mut n = 0u64;
    rt.block_on(async {
        for round in 0..24u32 {
            n += 1;
            let t_begin = now();
            let (h, _boot_evt, _l, _s) = boot().await; // listener already reported
            let ss = &h.ss;
            // phase 1: only redirector (and listener) ready, hammer the handler while the reset arrives
            let first = if round % 2 == 0 { R } else { K };
            let second = if round % 2 == 0 { K } else { R };
            let _ = run_op(first, ss).await;
            let port = h.port;
            let tb = t_begin.to_string();
            let q1 = tokio::spawn({
                let tb = tb.clone();
                async move {
                    let mut early = 0;
                    for _ in 0..10 {
                        if let Ok((true, _)) = query(port, Some(&tb)).await {
                            early += 1;
                        }
                    }
                    early
                }
            });
            if round % 3 == 0 {
                let _ = run_op(X, ss).await; // a reset racing with the queries
                if first == K {
                    let _ = run_op(K, ss).await;
                }
            }
            let early = q1.await.unwrap_or(0);
            if early > 0 {
                println!("VXW-FAIL {{\"class\":\"premature\",\"scenario\":\"concurrent round {}: listener and {} ready, {} never reported, queries in flight\",\"query_tick\":\"{}\",\"got\":\"finished:true in {} of 10 answers\",\"want\":\"finished:false\"}}", round, op_name(first), op_name(second), tb, early);
            }
            // phase 2: the remaining reports (and a duplicate of the first) from separate tasks at once
            let mut tasks = Vec::new();
            for op in [second, first, L] {
                let ss2 = SharedStateRef(ss.get_cancellation_token(), ss.get_key_keeper_shared_state(), ss.get_telemetry_shared_state(), ss.get_provision_shared_state(), ss.get_agent_status_shared_state());
                tasks.push(tokio::spawn(async move {
                    match op {
                        R => provision::redirector_ready(ss2.0, ss2.1, ss2.2, ss2.3, ss2.4).await,
                        K => provision::key_latched(ss2.0, ss2.1, ss2.2, ss2.3, ss2.4).await,
                        _ => provision::listener_started(ss2.0, ss2.1, ss2.2, ss2.3, ss2.4).await,
                    }
                }));
            }
            for t in tasks {
                let _ = t.await;
            }
            match query(port, Some(&tb)).await {
                Ok((finished, text)) => {
                    if !finished || !text.is_empty() {
                        println!("VXW-FAIL {{\"class\":\"completeness\",\"scenario\":\"concurrent round {}: all three subsystems reported from separate tasks\",\"query_tick\":\"{}\",\"got\":\"finished:{} errorMessage:'{}'\",\"want\":\"finished:true with empty error text\"}}", round, tb, finished, esc(&text));
                    }
                }
                Err(e) => println!("VXW-NOTE concurrent round {}: no usable answer from the listener after 4 attempts ({})", round, esc(&e)),
            }
            shutdown(h).await;
        }
    });
    rt.shutdown_timeout(Duration::from_secs(1));
    println!("VXW-DONE {}", n);
}

struct SharedStateRef(
    tokio_util::sync::CancellationToken,
    crate::shared_state::key_keeper_wrapper::KeyKeeperSharedState,
    crate::shared_state::telemetry_wrapper::TelemetrySharedState,
    crate::shared_state::provision_wrapper::ProvisionSharedState,
    crate::shared_state::agent_status_wrapper::AgentStatusSharedState,
);

// status.tag is only ever replaced, never rewritten in place: an observer that still holds the previous file (here: a
// second hard link to it) must keep seeing the previous content in full
#[test]
fn console_vxw_c16_c_status_tag_replaced_atomically() {
    ensure_config();
    let rt = tokio::runtime::Builder::new_multi_thread().worker_threads(2).enable_all().build().unwrap();
    let mut n = 0u64;
    let keys = match keys_dir_if_private() {
        Some(k) => k,
        None => {
            println!("VXW-NOTE machine-wide agent configuration in effect, status.tag scenarios skipped");
            println!("VXW-DONE 0");
            return;
        }
    };
    rt.block_on(async {
        let histories: Vec<Vec<u8>> = vec![vec![D], vec![R, D], vec![L, R, K], vec![K, L, D, R], vec![L, D, D], vec![R, K, L, X, K], vec![D, X, D]];
        for seq in histories {
            n += 1;
            let seq_s = seq.iter().map(|o| op_name(*o)).collect::<Vec<_>>().join(" > ");
            let (h, _e, _l, _s) = boot().await;
            let prov = h.ss.get_provision_shared_state();
            if seq.first() != Some(&L) {
                let _ = prov.reset_one_state(provision::ProvisionFlags::LISTENER_READY).await;
                let _ = prov.set_provision_finished(false).await;
            }
            let mut m = Model::new();
            for (i, op) in seq.iter().enumerate() {
                if i == 0 && *op == L {
                    m.apply(L, Evt { t0: 0, t1: 0, tick: 0 });
                    continue;
                }
                let _ = std::fs::create_dir_all(&keys);
                let tag = keys.join("status.tag");
                let held = keys.join("vxw_previous_status.tag");
                let _ = std::fs::remove_file(&tag);
                let _ = std::fs::remove_file(&held);
                let old = "previous status text written by an earlier provisioning round - 0123456789 0123456789 0123456789\r\n";
                std::fs::write(&held, old).unwrap();
                std::fs::hard_link(&held, &tag).unwrap();
                let _ = run_op(*op, &h.ss).await;
                m.apply(*op, Evt { t0: 0, t1: 0, tick: 0 });
                let seen = std::fs::read_to_string(&held).unwrap_or_default();
                if seen != old {
                    println!("VXW-FAIL {{\"class\":\"atomicity\",\"order\":\"{}\",\"after\":\"{}\",\"got\":\"the previous status.tag file itself was rewritten (a holder of it now reads '{}')\",\"want\":\"status.tag replaced by a complete new file\"}}", seq_s, op_name(*op), esc(&seen));
                    break;
                }
                // when a new status.tag was put in place it names exactly the subsystems not ready
                if let Ok(newtxt) = std::fs::read_to_string(&tag) {
                    if newtxt != old {
                        let want: Vec<String> = m.not_ready_labels().iter().map(|s| s.to_string()).collect();
                        if labels_of(&newtxt) != want {
                            println!("VXW-FAIL {{\"class\":\"error_text\",\"order\":\"{}\",\"after\":\"{}\",\"got\":\"status.tag: {}\",\"want\":\"names exactly [{}]\"}}", seq_s, op_name(*op), esc(&newtxt), want.join(", "));
                            break;
                        }
                    }
                }
            }
            shutdown(h).await;
        }
    });
    rt.shutdown_timeout(Duration::from_secs(1));
    let _ = std::fs::remove_dir_all(work_root());
    println!("VXW-DONE {}", n);
}
