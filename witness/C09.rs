// Witness generator for C09 (agent state converges to the host's latest secure-channel status), child module of key_keeper.rs.
// Drives the REAL KeyKeeper::poll_secure_channel_status loop, single-stepped by the gated host of kk_harness.inc.rs, through
// histories of status documents, failed polls and notifications, and observes after EVERY poll the public state: key guid/value,
// secure channel state, the three rule ids, the computed rules held per endpoint, the real authorizer's decisions on them, and
// the kernel policy map the redirect-policy calls write (which endpoints are intercepted).
// Oracle = the statement, evaluated on the witness's OWN description of the document it served (never on the agent's parser):
//   after a poll the host answered completely (status valid; key handed out and attestation accepted when asked for):
//     state    : the state getter says "disabled" exactly when the document reports the channel disabled
//     no-key   : disabled => no key
//     key      : enabled  => the key held is the one the host names as latched (or the one just attested when it names none)
//     rules    : per endpoint: rule id == the document's id ("" if none); rules held == the real rule computation applied to the
//                document's item (none if none); the authorizer decides as it would on those
//     intercept: when the state getter changed, endpoint e is in the policy map iff the document's mode for e is not "disabled"
//                (when it did not change: as before, or as the document says); version 2.0 documents only, HostGA only where its
//                own mode and the WireServer mode agree (the code documents "short-term: HostGA uses wireserver mode")
//     converge : everything observed equals what a FRESH agent shows after one poll of that same document alone
//   after a poll whose status request failed or returned an invalid document: nothing observed has changed
//   after a poll whose key request / attestation failed: the state getter shows the previous value, the initial value, or the
//     document's; the next complete poll is checked in full
//   a notification (KeyKeeperSharedState::notify, what GET /provision with the notify header does) may put the state getter back
//     to its initial value ("Unknown"), never to anything else.
#![allow(dead_code, unused_imports, clippy::all)]
include!("/verif/witness/kk_harness.inc.rs");

const KEYS: [(&str, &str); 3] = [
    ("0e0e0e0e-1111-4222-8333-pendingpendi", "50454E44494E4750454E44494E4750454E44494E4750454E44494E4750454E44"), // handed out when the status names no key
    ("9cf81e97-0316-4ad3-94a7-8ccbdee8ccbf", "4A404E635266556A586E3272357538782F413F4428472B4B6250645367566B59"),
    ("7b2c1d3e-aaaa-4bbb-8ccc-0123456789ab", "00112233445566778899AABBCCDDEEFF00112233445566778899AABBCCDDEEFF"),
];

#[derive(Clone, Debug)]
struct Item {
    id: &'static str,
    mode: &'static str,
    access: &'static str,
    privileges: usize, // 0: no rules section; 1: one privilege granted to vxw-user; n: n privileges
}

#[derive(Clone, Debug)]
struct Doc {
    name: &'static str,
    v2: bool,
    v1_state: &'static str,
    enabled: bool,
    rules: Option<[Option<Item>; 3]>, // wireserver, imds, hostga
    key: usize,                       // 0: the status names no key; 1, 2: KEYS[i]
}

fn item_json(i: &Item) -> serde_json::Value {
    let mut v = serde_json::json!({"defaultAccess": i.access, "mode": i.mode, "id": i.id});
    if i.privileges > 0 {
        let mut privileges = vec![serde_json::json!({"name": "p0", "path": "/vxw/allowed", "queryParameters": {"x": "1"}})];
        for k in 1..i.privileges {
            privileges.push(serde_json::json!({"name": format!("p{}", k), "path": format!("/vxw/bulk/{}", k)}));
        }
        v["rules"] = serde_json::json!({
            "privileges": privileges,
            "roles": [{"name": "r0", "privileges": ["p0"]}],
            "identities": [{"name": "i0", "userName": "vxw-user"}],
            "roleAssignments": [{"role": "r0", "identities": ["i0"]}]
        });
    }
    v
}

fn doc_json(d: &Doc) -> serde_json::Value {
    let key_guid = if d.key == 0 { serde_json::Value::Null } else { serde_json::Value::String(KEYS[d.key].0.to_string()) };
    let mut v = serde_json::json!({"authorizationScheme": "Azure-HMAC-SHA256", "keyDeliveryMethod": "http", "keyGuid": key_guid, "requiredClaimsHeaderPairs": null});
    if d.v2 {
        v["version"] = serde_json::json!("2.0");
        v["secureChannelEnabled"] = serde_json::json!(d.enabled);
        if let Some(r) = &d.rules {
            let mut rules = serde_json::json!({});
            for (e, name) in KX_ENDPOINTS.iter().enumerate() {
                if let Some(i) = &r[e] {
                    rules[*name] = item_json(i);
                }
            }
            v["authorizationRules"] = rules;
        }
    } else {
        v["version"] = serde_json::json!("1.0");
        v["secureChannelState"] = serde_json::json!(d.v1_state);
    }
    v
}

// ---- what the document SAYS (the witness's reading of its own description)
fn says_disabled(d: &Doc) -> Option<bool> {
    if d.v2 {
        if !d.enabled {
            Some(true)
        } else if d.rules.is_some() {
            Some(false)
        } else {
            None // enabled, but no rule document at all: the statement does not say
        }
    } else {
        match d.v1_state {
            "Disabled" => Some(true),
            "Wireserver" | "WireserverAndImds" => Some(false),
            _ => None, // other spellings: only convergence is checked
        }
    }
}

fn mode_on(i: &Option<Item>) -> bool {
    i.as_ref().map(|i| !i.mode.eq_ignore_ascii_case("disabled")).unwrap_or(false)
}

fn says_intercepted(d: &Doc) -> [Option<bool>; 3] {
    if !d.v2 {
        return [None, None, None];
    }
    let none: [Option<Item>; 3] = [None, None, None];
    let r = d.rules.as_ref().unwrap_or(&none);
    let ws = mode_on(&r[0]);
    let hostga_own = mode_on(&r[2]);
    [Some(ws), Some(mode_on(&r[1])), if hostga_own == ws { Some(ws) } else { None }]
}

fn computed(i: &Option<Item>) -> Option<KxComputed> {
    i.as_ref().map(|i| KxComputed::from_authorization_item(serde_json::from_value::<KxAuthorizationItem>(item_json(i)).expect("item")))
}

fn docs() -> Vec<Doc> {
    let a = |id: &'static str, mode: &'static str, access: &'static str, p: usize| Some(Item { id, mode, access, privileges: p });
    let rules_a = Some([a("sigid", "enforce", "deny", 1), a("sigid", "enforce", "deny", 0), a("sigid", "enforce", "allow", 0)]);
    let rules_b = Some([a("ws-2", "audit", "allow", 0), a("imds-2", "disabled", "allow", 0), None]);
    let rules_c = Some([None, a("imds-c", "audit", "deny", 1), None]);
    let rules_e = Some([a("ws-3", "Disabled", "deny", 0), a("imds-3", "Enforce", "deny", 0), a("hg-3", "disabled", "deny", 1)]);
    let rules_f = Some([a("ws-4", "disabled", "allow", 0), a("sigid", "enforce", "deny", 0), a("hg-4", "disabled", "allow", 0)]);
    let rules_big = Some([a("sigid-big", "enforce", "deny", 1000), a("sigid", "enforce", "deny", 0), a("sigid", "enforce", "allow", 0)]);
    // ids that differ from rulesB's ONLY in letter case (a different id: ids are opaque), with other content
    let rules_g = Some([a("WS-2", "enforce", "deny", 1), a("IMDS-2", "enforce", "deny", 1), None]);
    // differs from rulesA ONLY in the IMDS item (mode disabled, new id): the wireserver and hostga items are rulesA's
    let rules_h = Some([a("sigid", "enforce", "deny", 1), a("imds-off", "disabled", "deny", 0), a("sigid", "enforce", "allow", 0)]);
    let d = |name: &'static str, v2: bool, v1_state: &'static str, enabled: bool, rules: Option<[Option<Item>; 3]>, key: usize| Doc { name, v2, v1_state, enabled, rules, key };
    vec![
        d("v1/Disabled/no-key", false, "Disabled", false, None, 0),                    // 0
        d("v1/Wireserver/no-key", false, "Wireserver", true, None, 0),                 // 1
        d("v1/Wireserver/key1", false, "Wireserver", true, None, 1),                   // 2
        d("v1/WireserverAndImds/key2", false, "WireserverAndImds", true, None, 2),     // 3
        d("v2/on/rulesA(all id sigid)/key1", true, "", true, rules_a.clone(), 1),      // 4
        d("v2/off/rulesA/key1", true, "", false, rules_a.clone(), 1),                  // 5
        d("v2/on/rulesB(ws-2,imds-2 disabled,no hostga)/key1", true, "", true, rules_b.clone(), 1), // 6
        d("v2/on/rulesC(imds only)/key2", true, "", true, rules_c, 2),                 // 7
        d("v2/on/rulesE(ws Disabled,imds Enforce)/no-key", true, "", true, rules_e, 0), // 8
        d("v2/off/no-rules/no-key", true, "", false, None, 0),                         // 9
        d("v2/on/no-rules/key1", true, "", true, None, 1),                             // 10
        d("v2/off/rulesB/no-key", true, "", false, rules_b, 0),                        // 11
        d("v1/DISABLED/key1", false, "DISABLED", false, None, 1),                      // 12
        d("v2/on/rulesBig(1000 privileges)/key1", true, "", true, rules_big, 1),       // 13
        d("v2/on/rulesF(ws disabled,imds sigid)/key2", true, "", true, rules_f, 2),    // 14
        d("v1/Wireserver/key2", false, "Wireserver", true, None, 2),                   // 15
        d("v2/on/empty authorizationRules object/key1", true, "", true, Some([None, None, None]), 1), // 16
        d("v2/on/rulesG(ids WS-2,IMDS-2: rulesB's in upper case, other content)/key1", true, "", true, rules_g, 1), // 17
        d("v2/on/rulesH(rulesA with only the IMDS item changed: disabled)/key1", true, "", true, rules_h, 1), // 18
    ]
}

fn bads() -> Vec<(&'static str, KxReply)> {
    let valid = doc_json(&docs()[4]).to_string();
    let mut dup = valid.clone();
    dup.insert_str(1, "\"keyGuid\": \"7b2c1d3e-aaaa-4bbb-8ccc-0123456789ab\", \"version\": \"1.0\", ");
    let mut half_head = b"HTTP/1.1 200 OK\r\nContent-Type: application/json; charset=utf-8\r\nContent-Length: 4000\r\n\r\n".to_vec();
    half_head.extend_from_slice(&valid.as_bytes()[..120]);
    vec![
        ("status answered 500", KxReply::Http(500, b"{}".to_vec())),                                                                             // 0
        ("status connection closed without an answer", KxReply::Drop),                                                                           // 1
        ("status 200 with a body that is not JSON (and not UTF-8)", KxReply::Http(200, b"<html>\xff\xfe\x80 busy</html>".to_vec())),          // 2
        ("status 200 with version 1.0 and secureChannelState 'bogus'", KxReply::Http(200, br#"{"authorizationScheme": "Azure-HMAC-SHA256", "keyDeliveryMethod": "http", "keyGuid": "7b2c1d3e-aaaa-4bbb-8ccc-0123456789ab", "requiredClaimsHeaderPairs": null, "secureChannelState": "bogus", "version": "1.0"}"#.to_vec())), // 3
        ("status 200 with version 2.0 and neither secureChannelEnabled nor secureChannelState", KxReply::Http(200, br#"{"authorizationScheme": "Azure-HMAC-SHA256", "keyDeliveryMethod": "http", "keyGuid": "7b2c1d3e-aaaa-4bbb-8ccc-0123456789ab", "requiredClaimsHeaderPairs": null, "version": "2.0", "authorizationRules": {"imds": {"defaultAccess": "deny", "mode": "enforce", "id": "bad-imds"}}}"#.to_vec())), // 4
        ("status 200 with a document cut off in the middle", KxReply::Http(200, valid.as_bytes()[..valid.len() / 2].to_vec())),                  // 5
        ("status answered 404 with an otherwise valid document", KxReply::Http(404, doc_json(&docs()[6]).to_string().into_bytes())),             // 6
        ("status 200 with duplicate keyGuid/version members", KxReply::Http(200, dup.into_bytes())),                                            // 7
        ("status 200 with wrong member types (version: 2, secureChannelEnabled: \"true\")", KxReply::Http(200, br#"{"authorizationScheme": "Azure-HMAC-SHA256", "keyDeliveryMethod": "http", "keyGuid": null, "requiredClaimsHeaderPairs": null, "secureChannelEnabled": "true", "version": 2}"#.to_vec())), // 8
        ("status 200 with an empty body", KxReply::Http(200, Vec::new())),                                                                       // 9
        ("status answer cut off after part of the body", KxReply::Partial(half_head)),                                                           // 10
        ("status 200 with JSON null", KxReply::Http(200, b"null".to_vec())),                                                                     // 11
        ("status 200 with a JSON array", KxReply::Http(200, b"[1,2,3]".to_vec())),                                                               // 12
        ("status answered 503", KxReply::Http(503, b"".to_vec())),                                                                               // 13
        ("status 200 without authorizationScheme/keyDeliveryMethod", KxReply::Http(200, br#"{"keyGuid": null, "secureChannelState": "Disabled", "version": "1.0"}"#.to_vec())), // 14
        (KNOWN_CONTRADICTIONS[0], KxReply::Http(200, br#"{"authorizationScheme": "Other-Scheme-1", "keyDeliveryMethod": "http", "keyGuid": null, "requiredClaimsHeaderPairs": null, "secureChannelState": "Disabled", "version": "1.0"}"#.to_vec())), // 15
        (KNOWN_CONTRADICTIONS[1], KxReply::Http(200, br#"{"authorizationScheme": "Azure-HMAC-SHA256", "keyDeliveryMethod": "carrier-pigeon", "keyGuid": null, "requiredClaimsHeaderPairs": null, "secureChannelState": "Disabled", "version": "1.0"}"#.to_vec())), // 16
    ]
}

// Two invalid documents that the pinned tree used to ACCEPT (KeyStatus::validate composed the complaint "authorizationScheme must
// be 'Azure-HMAC-SHA256'" / "keyDeliveryMethod '..' is invalid" but did not reject): repaired in /repo by the fix recorded in
// known_findings.txt (property C09). Nothing is suppressed any more: if such a document changes the agent's state again it is a
// VXW-FAIL like any other. (The name of the constant is historical; the two letters are still only served alone.)
const KNOWN_ARE_SUPPRESSED: bool = false;
const KNOWN_CONTRADICTIONS: [&str; 2] = [
    "status 200 with a version 1.0 document whose authorizationScheme is 'Other-Scheme-1'",
    "status 200 with a version 1.0 document whose keyDeliveryMethod is 'carrier-pigeon'",
];

#[derive(Clone, Debug, PartialEq)]
enum Letter {
    Doc { d: usize, acq_fail: bool, att_fail: bool, notify: bool },
    Bad(usize),
}

fn plain(d: usize) -> Letter {
    Letter::Doc { d, acq_fail: false, att_fail: false, notify: false }
}

struct World {
    docs: Vec<Doc>,
    bads: Vec<(&'static str, KxReply)>,
    canon: Vec<Option<KxObs>>,
    bpf: Option<KxBpf>,
    no: u64,
}

fn letter_name(w: &World, l: &Letter) -> String {
    match l {
        Letter::Doc { d, acq_fail, att_fail, notify } => format!(
            "{}{}{}{}",
            if *notify { "[notification arrives during this poll] " } else { "" },
            w.docs[*d].name,
            if *acq_fail { " [key request answered 500]" } else { "" },
            if *att_fail { " [attestation refused 500]" } else { "" }
        ),
        Letter::Bad(b) => format!("FAILED POLL: {}", w.bads[*b].0),
    }
}

struct Hist {
    host: KxArc<KxHost>,
    agent: KxAgent,
    root: KxPathBuf,
    names: Vec<String>,
    initial_state: String,
    prev: KxObs,
    dead: bool,
    walk: bool,
    notified: bool, // a notification was delivered to the key keeper during the latest poll (by the history or by the harness)
    last_doc: Option<usize>, // the document of the latest clean poll of this history
}

async fn start_hist(w: &mut World, walk: bool) -> Option<Hist> {
    start_hist_opt(w, walk, true).await
}

async fn start_hist_opt(w: &mut World, walk: bool, use_bpf: bool) -> Option<Hist> {
    w.no += 1;
    let root = kx_root("c09").join(format!("h{}", w.no));
    let _ = std::fs::remove_dir_all(&root);
    let key_dir = root.join("Keys");
    let log_dir = root.join("Logs");
    let _ = std::fs::create_dir_all(&log_dir);
    let bpf = if use_bpf { w.bpf.as_ref() } else { None };
    if let Some(b) = bpf {
        b.reset_all_intercepted();
    }
    let host = KxHost::start(&key_dir);
    let agent = kx_start_agent(host.port, &key_dir, &log_dir, bpf).await;
    let mut kicked = false;
    let m = KxMark { status: 0, acquire: u64::MAX, attest: u64::MAX };
    if kx_wait(&host, &agent, &m, &mut kicked).await != KxWait::NextStatus {
        host.stop();
        let _ = std::fs::remove_dir_all(&root);
        return None;
    }
    let prev = kx_observe(&agent, bpf).await;
    Some(Hist { host, agent, root, names: Vec::new(), initial_state: prev.state.clone(), prev, dead: false, walk, notified: false, last_doc: None })
}

async fn end_hist(mut h: Hist) {
    kx_kill_at(&h.host, &mut h.agent).await;
    h.host.stop();
    let _ = std::fs::remove_dir_all(&h.root);
}

fn report(ctx: &mut KxCtx, h: &Hist, class: &str, want: String, got: serde_json::Value, before: &KxObs, after: &KxObs, served: Option<&Doc>) {
    let n = h.names.len();
    let shown: Vec<String> = if n > 8 { h.names[n - 8..].to_vec() } else { h.names.clone() };
    ctx.fail(serde_json::json!({
        "property": "C09", "class": class,
        "history": shown, "history_length": n, "from_fresh_agent": true,
        "note": if n > 8 { "only the last 8 polls of a long history are shown" } else { "" },
        "document_served_last": served.map(|d| kx_clip(&doc_json(d).to_string(), 420)),
        "notification_delivered_during_last_poll": h.notified,
        "want": want, "got": got, "observed_before_poll": kx_obs_json(before), "observed_after_poll": kx_obs_json(after),
        "host_saw": kx_tail(&h.host, 8)
    }));
}

// one poll; returns false when the history must not be continued (a contradiction was reported or the loop died)
async fn step(ctx: &mut KxCtx, w: &mut World, h: &mut Hist, l: &Letter, record_canon: bool) -> bool {
    h.names.push(letter_name(w, l));
    let before = h.prev.clone();
    match l {
        Letter::Bad(b) => {
            let m = kx_mark(&h.host);
            h.host.with(|st| {
                st.acq_script.clear();
                st.att_script.clear();
            });
            let mut kicked = kx_prekick_if_unknown(&h.agent).await;
            h.notified = kicked;
            kx_release_status(&h.host, w.bads[*b].1.clone());
            if kx_wait(&h.host, &h.agent, &m, &mut kicked).await != KxWait::NextStatus {
                let panicked = kx_kill(&mut h.agent).await;
                report(ctx, h, "poll-loop-stopped", "the loop keeps polling after a failed poll".to_string(), serde_json::json!({"no_status_request_within_s": 8, "poll_task_panicked": panicked}), &before, &before, None);
                h.dead = true;
                return false;
            }
            let after = kx_observe(&h.agent, w.bpf.as_ref()).await;
            if KNOWN_ARE_SUPPRESSED && after != before && KNOWN_CONTRADICTIONS.contains(&w.bads[*b].0) {
                println!("VXW-KNOWN {}", serde_json::json!({"property": "C09", "class": "failed-poll-changed-state", "history": h.names, "changed": diff(&before, &after)}));
                return false;
            }
            if after != before {
                report(ctx, h, "failed-poll-changed-state", "a poll whose status request fails or returns an invalid document changes nothing".to_string(),
                    serde_json::json!({"changed": diff(&before, &after), "notification_delivered_during_this_poll": kicked}), &before, &after, None);
                return false;
            }
            h.prev = after;
            true
        }
        Letter::Doc { d, acq_fail, att_fail, notify } => {
            let doc = w.docs[*d].clone();
            let next_key = (KEYS[doc.key].0.to_string(), KEYS[doc.key].1.to_string());
            let (f0, g0) = h.host.with(|st| {
                st.next_key = next_key.clone();
                st.acq_script.clear();
                st.att_script.clear();
                if *acq_fail {
                    st.acq_script.push_back(KxAcq { reply: Some(KxReply::Http(500, b"{}".to_vec())), fs: KxFs::Clean });
                }
                if *att_fail {
                    st.att_script.push_back(KxAtt { reply: KxReply::Http(500, b"{}".to_vec()), commit: false });
                }
                (st.acquire_failed, st.attest_failed)
            });
            h.notified = *notify;
            if *notify {
                let _ = h.agent.kk.notify().await;
            } else if (*acq_fail || *att_fail) && says_disabled(&doc) == Some(false) && (doc.key == 0 || before.key.as_ref().map(|k| k.0.as_str()) != Some(KEYS[doc.key].0)) {
                // this poll is expected to fail before the state is written
                h.notified = kx_prekick_if_unknown(&h.agent).await;
            }
            let m = kx_mark(&h.host);
            kx_release_status(&h.host, KxReply::Http(200, doc_json(&doc).to_string().into_bytes()));
            let mut kicked = false;
            if kx_wait(&h.host, &h.agent, &m, &mut kicked).await != KxWait::NextStatus {
                let panicked = kx_kill(&mut h.agent).await;
                report(ctx, h, "poll-loop-stopped", "the loop keeps polling".to_string(), serde_json::json!({"no_status_request_within_s": 8, "poll_task_panicked": panicked}), &before, &before, Some(&doc));
                h.dead = true;
                return false;
            }
            let after = kx_observe(&h.agent, w.bpf.as_ref()).await;
            let (f1, g1, received) = h.host.with(|st| (st.acquire_failed, st.attest_failed, st.received.clone()));
            let complete = f1 == f0 && g1 == g0;
            h.prev = after.clone();
            let disabled_word = crate::key_keeper::DISABLE_STATE;
            let reset_by_notification = *notify && after.state == h.initial_state;
            if !complete {
                let ok_state = after.state == before.state || after.state == h.initial_state || w.canon[*d].as_ref().map(|c| c.state == after.state).unwrap_or(true);
                if !ok_state {
                    report(ctx, h, "state", "after a poll whose key request or attestation failed the state getter shows the previous value, the initial value or the document's".to_string(),
                        serde_json::json!({"state": after.state}), &before, &after, Some(&doc));
                    return false;
                }
                if after.state == disabled_word && after.key.is_some() {
                    report(ctx, h, "no-key", "the agent holds no key while it reports the channel disabled".to_string(), serde_json::json!({"key": after.key.as_ref().map(|k| k.0.clone())}), &before, &after, Some(&doc));
                    return false;
                }
                return true;
            }
            // ---- complete poll: absolute clauses
            let dis = says_disabled(&doc);
            if let Some(dis) = dis {
                if !reset_by_notification && (after.state == disabled_word) != dis {
                    report(ctx, h, "state", format!("the state getter says '{}' exactly when the document reports the channel disabled (here: {})", disabled_word, if dis { "disabled" } else { "enabled" }),
                        serde_json::json!({"state": after.state}), &before, &after, Some(&doc));
                    return false;
                }
                if dis && after.key.is_some() {
                    report(ctx, h, "no-key", "when the channel is reported disabled the agent holds no key".to_string(), serde_json::json!({"key": after.key.as_ref().map(|k| k.0.clone())}), &before, &after, Some(&doc));
                    return false;
                }
                if !dis {
                    let want = if doc.key == 0 { received.clone() } else { Some(next_key.clone()) };
                    if after.key != want || want.is_none() {
                        report(ctx, h, "key", "the key held is the one the host names as latched (the one just attested when the status names none)".to_string(),
                            serde_json::json!({"key_held": after.key.as_ref().map(|k| format!("{} / {}", k.0, kx_clip(&k.1, 24))), "host_latched": want.map(|k| format!("{} / {}", k.0, kx_clip(&k.1, 24)))}), &before, &after, Some(&doc));
                        return false;
                    }
                }
            }
            if after.state == disabled_word && after.key.is_some() {
                report(ctx, h, "no-key", "the agent holds no key while it reports the channel disabled".to_string(), serde_json::json!({"key": after.key.as_ref().map(|k| k.0.clone())}), &before, &after, Some(&doc));
                return false;
            }
            let none: [Option<Item>; 3] = [None, None, None];
            let items = doc.rules.as_ref().unwrap_or(&none);
            for e in 0..3 {
                let want_id = items[e].as_ref().map(|i| i.id.to_string()).unwrap_or_default();
                let want_rules = computed(&items[e]);
                let want_canon = kx_canon_rules(&want_rules);
                let want_dec = kx_decisions(e, &want_rules);
                let got_dec = after.decisions[e * 4..e * 4 + 4].to_vec();
                if after.rule_ids[e] != want_id || after.rules[e] != want_canon || got_dec != want_dec {
                    report(ctx, h, "rules", format!("{}: rule id, rules held and decisions are those of the latest document (none if it carries none)", KX_ENDPOINTS[e]),
                        serde_json::json!({"endpoint": KX_ENDPOINTS[e], "rule_id": after.rule_ids[e], "want_rule_id": want_id, "rules_held": after.rules[e].as_ref().map(|s| kx_clip(s, 200)), "want_rules": want_canon.map(|s| kx_clip(&s, 200)), "decisions": got_dec, "want_decisions": want_dec}),
                        &before, &after, Some(&doc));
                    return false;
                }
            }
            // "the reported channel state changes": the agent's state getter changed, OR the HOST's report changed - this document is
            // an enabled 2.0 document whose per-endpoint modes differ from those of the previous (enabled 2.0) document of the history
            let host_report_changed = match h.last_doc {
                Some(p) if w.docs[p].v2 && w.docs[p].enabled && doc.v2 && doc.enabled => says_intercepted(&w.docs[p]) != says_intercepted(&doc),
                _ => false,
            };
            h.last_doc = Some(*d);
            let state_changed = (after.state != before.state && !reset_by_notification) || host_report_changed;
            if let (Some(map), Some(map_before)) = (after.intercepted, before.intercepted) {
                let says = says_intercepted(&doc);
                for e in 0..3 {
                    if let Some(wanted) = says[e] {
                        let ok = if state_changed { map[e] == wanted } else { map[e] == wanted || map[e] == map_before[e] };
                        if !ok {
                            report(ctx, h, "intercept", format!("{}: {} (the reported channel state {})", KX_ENDPOINTS[e], if wanted { "intercepted, its mode is not disabled" } else { "not intercepted, its mode is disabled or it has none" }, if state_changed { "changed in this poll" } else { "did not change in this poll" }),
                                serde_json::json!({"endpoint": KX_ENDPOINTS[e], "intercepted": map[e], "intercepted_before": map_before[e]}), &before, &after, Some(&doc));
                            return false;
                        }
                    }
                }
            }
            // ---- convergence: equal to what a fresh agent shows after this document alone
            if record_canon {
                w.canon[*d] = Some(after.clone());
            } else if let Some(c) = w.canon[*d].clone() {
                let mut a = after.clone();
                let mut c2 = c.clone();
                if reset_by_notification {
                    a.state = c2.state.clone();
                }
                if !state_changed {
                    a.intercepted = None;
                    c2.intercepted = None;
                }
                if a != c2 {
                    report(ctx, h, "converge", "after a complete poll everything observable equals what a fresh agent shows after a single poll of the same document".to_string(),
                        serde_json::json!({"differs_in": diff(&c2, &a), "fresh_agent_shows": kx_obs_json(&c)}), &before, &after, Some(&doc));
                    return false;
                }
            }
            true
        }
    }
}

fn diff(a: &KxObs, b: &KxObs) -> Vec<String> {
    let mut v = Vec::new();
    if a.state != b.state {
        v.push(format!("secure channel state: '{}' -> '{}'", a.state, b.state));
    }
    if a.key != b.key {
        v.push(format!("key: {:?} -> {:?}", a.key.as_ref().map(|k| &k.0), b.key.as_ref().map(|k| &k.0)));
    }
    for e in 0..3 {
        if a.rule_ids[e] != b.rule_ids[e] {
            v.push(format!("{} rule id: '{}' -> '{}'", KX_ENDPOINTS[e], a.rule_ids[e], b.rule_ids[e]));
        }
        if a.rules[e] != b.rules[e] {
            v.push(format!("{} rules held: {:?} -> {:?}", KX_ENDPOINTS[e], a.rules[e].as_ref().map(|s| kx_clip(s, 80)), b.rules[e].as_ref().map(|s| kx_clip(s, 80))));
        }
    }
    for (x, y) in a.decisions.iter().zip(b.decisions.iter()) {
        if x != y {
            v.push(format!("decision: {} -> {}", x, y));
        }
    }
    if a.intercepted != b.intercepted {
        v.push(format!("intercepted [wireserver, imds, hostga]: {:?} -> {:?}", a.intercepted, b.intercepted));
    }
    v
}

// enough contradictions have been reported: the rest of the enumeration would only cost time on a broken tree
const ENOUGH: u64 = 20;

async fn run_history(ctx: &mut KxCtx, w: &mut World, letters: &[Letter], record_canon: bool) {
    if ctx.fails >= ENOUGH {
        return;
    }
    ctx.cases += 1;
    let mut h = match start_hist(w, false).await {
        Some(h) => h,
        None => {
            ctx.fail(serde_json::json!({"property": "C09", "class": "poll-loop-stopped", "got": "a fresh agent sent no status request"}));
            return;
        }
    };
    for l in letters {
        if !step(ctx, w, &mut h, l, record_canon).await {
            break;
        }
    }
    end_hist(h).await;
}

// every failed poll as the FIRST poll of a fresh agent, without any notification: the loop then sleeps its real 1 s in "Unknown"
// state, so all these agents are started and answered first and waited for together (they do not share the policy map)
async fn run_bad_singles(ctx: &mut KxCtx, w: &mut World) {
    let mut hs: Vec<(usize, Hist, KxMark)> = Vec::new();
    for b in 0..w.bads.len() {
        ctx.cases += 1;
        if let Some(mut h) = start_hist_opt(w, false, false).await {
            h.names.push(letter_name(w, &Letter::Bad(b)));
            let m = kx_mark(&h.host);
            kx_release_status(&h.host, w.bads[b].1.clone());
            hs.push((b, h, m));
        }
    }
    for (b, mut h, m) in hs {
        let before = h.prev.clone();
        let mut kicked = false;
        if kx_wait(&h.host, &h.agent, &m, &mut kicked).await != KxWait::NextStatus {
            let panicked = kx_kill(&mut h.agent).await;
            report(ctx, &h, "poll-loop-stopped", "the loop keeps polling after a failed poll".to_string(), serde_json::json!({"no_status_request_within_s": 8, "poll_task_panicked": panicked}), &before, &before, None);
        } else {
            let after = kx_observe(&h.agent, None).await;
            if KNOWN_ARE_SUPPRESSED && after != before && KNOWN_CONTRADICTIONS.contains(&w.bads[b].0) {
                println!("VXW-KNOWN {}", serde_json::json!({"property": "C09", "class": "failed-poll-changed-state", "history": h.names, "changed": diff(&before, &after)}));
            } else if after != before {
                report(ctx, &h, "failed-poll-changed-state", "a poll whose status request fails or returns an invalid document changes nothing".to_string(),
                    serde_json::json!({"changed": diff(&before, &after), "notification_delivered_during_this_poll": false}), &before, &after, None);
            }
        }
        end_hist(h).await;
    }
}

// one agent, a long history in which every window of `order` letters over the alphabet occurs (de Bruijn sequence)
async fn run_walk(ctx: &mut KxCtx, w: &mut World, alphabet: &[Letter], order: usize, chunk: usize) {
    let seq = de_bruijn(alphabet.len(), order);
    let mut pos = 0usize;
    while pos < seq.len() && ctx.fails < ENOUGH {
        let mut h = match start_hist(w, true).await {
            Some(h) => h,
            None => return,
        };
        // re-play the last order-1 letters so that windows spanning two chunks are covered too
        let from = pos.saturating_sub(order - 1);
        let mut i = from;
        let end = std::cmp::min(seq.len(), pos + chunk);
        while i < end {
            ctx.cases += 1;
            let ok = step(ctx, w, &mut h, &alphabet[seq[i]], false).await;
            i += 1;
            if !ok {
                break; // state is suspect: continue the sequence with a fresh agent
            }
        }
        pos = std::cmp::max(i, pos + 1);
        end_hist(h).await;
    }
}

fn de_bruijn(k: usize, n: usize) -> Vec<usize> {
    // standard Lyndon-word construction; the cyclic sequence is unrolled by appending its first n-1 letters
    fn db(t: usize, p: usize, k: usize, n: usize, a: &mut Vec<usize>, out: &mut Vec<usize>) {
        if t > n {
            if n % p == 0 {
                out.extend_from_slice(&a[1..=p]);
            }
        } else {
            a[t] = a[t - p];
            db(t + 1, p, k, n, a, out);
            for j in a[t - p] + 1..k {
                a[t] = j;
                db(t + 1, t, k, n, a, out);
            }
        }
    }
    let mut a = vec![0usize; k * n + 1];
    let mut out = Vec::new();
    db(1, 1, k, n, &mut a, &mut out);
    let head: Vec<usize> = out.iter().take(n - 1).cloned().collect();
    out.extend(head);
    out
}

#[test]
fn console_vxw_c09() {
    let rt = tokio::runtime::Builder::new_current_thread().enable_all().build().unwrap();
    let mut ctx = KxCtx::new();
    let t0 = KxInstant::now();
    rt.block_on(async {
        let ds = docs();
        let n_docs = ds.len();
        let mut w = World { docs: ds, bads: bads(), canon: vec![None; n_docs], bpf: KxBpf::load(), no: 0 };
        let n_bads = w.bads.len();

        // 1. every document alone, from a fresh agent (this also records what "a fresh agent shows" for the convergence clause);
        //    every failed poll alone
        for d in 0..n_docs {
            run_history(&mut ctx, &mut w, &[plain(d)], true).await;
        }
        run_bad_singles(&mut ctx, &mut w).await;
        println!("VXW-NOTE C09 singles done at {:?}", t0.elapsed());

        // 2. every ordered pair
        let mut second: Vec<Letter> = (0..n_docs).map(plain).collect();
        second.extend((0..n_bads - KNOWN_CONTRADICTIONS.len()).map(Letter::Bad)); // the known contradictions only alone (above)
        let mods = vec![
            Letter::Doc { d: 4, acq_fail: true, att_fail: false, notify: false },
            Letter::Doc { d: 4, acq_fail: false, att_fail: true, notify: false },
            Letter::Doc { d: 1, acq_fail: true, att_fail: false, notify: false },
            Letter::Doc { d: 8, acq_fail: false, att_fail: true, notify: false },
            Letter::Doc { d: 7, acq_fail: true, att_fail: false, notify: false },
            Letter::Doc { d: 0, acq_fail: false, att_fail: false, notify: true },
            Letter::Doc { d: 4, acq_fail: false, att_fail: false, notify: true },
            Letter::Doc { d: 9, acq_fail: false, att_fail: false, notify: true },
            Letter::Doc { d: 5, acq_fail: false, att_fail: false, notify: true },
        ];
        second.extend(mods.iter().cloned());
        let mut first: Vec<Letter> = (0..n_docs).map(plain).collect();
        first.extend(mods.iter().cloned());
        first.extend([0usize, 1, 3].iter().map(|b| Letter::Bad(*b)));
        for (ia, a) in first.iter().enumerate() {
            for (ib, b) in second.iter().enumerate() {
                // the 70 KB document (13) only in a few pairs: it costs 0.3 s per poll
                let big = |l: &Letter| matches!(l, Letter::Doc { d: 13, .. });
                if (big(a) && ib % 9 != 0) || (big(b) && ia % 7 != 0) {
                    continue;
                }
                run_history(&mut ctx, &mut w, &[a.clone(), b.clone()], false).await;
            }
        }
        println!("VXW-NOTE C09 pairs done at {:?}", t0.elapsed());

        // 3. every triple over a core alphabet
        let core3 = vec![plain(0), plain(4), plain(5), plain(6), plain(7), Letter::Bad(0), Letter::Doc { d: 9, acq_fail: false, att_fail: false, notify: true }];
        for a in core3.iter() {
            for b in core3.iter() {
                for c in core3.iter() {
                    run_history(&mut ctx, &mut w, &[a.clone(), b.clone(), c.clone()], false).await;
                }
            }
        }
        println!("VXW-NOTE C09 triples done at {:?}", t0.elapsed());

        // 4. every history of length 4 over a smaller core
        let core4 = vec![plain(0), plain(4), plain(5), Letter::Bad(3)];
        for a in core4.iter() {
            for b in core4.iter() {
                for c in core4.iter() {
                    for d in core4.iter() {
                        run_history(&mut ctx, &mut w, &[a.clone(), b.clone(), c.clone(), d.clone()], false).await;
                    }
                }
            }
        }
        println!("VXW-NOTE C09 quadruples done at {:?}", t0.elapsed());

        // 5. long lives of one agent: every pair of the full alphabet, every triple of a 10-letter alphabet, every quadruple of a
        //    5-letter alphabet, as windows of one history
        let full: Vec<Letter> = second.iter().cloned().filter(|l| !matches!(l, Letter::Doc { d: 13, .. })).collect();
        run_walk(&mut ctx, &mut w, &full, 2, 800).await;
        let ten = vec![plain(0), plain(3), plain(4), plain(5), plain(6), plain(8), plain(14), Letter::Bad(4), Letter::Doc { d: 4, acq_fail: false, att_fail: true, notify: false }, Letter::Doc { d: 11, acq_fail: false, att_fail: false, notify: true }];
        run_walk(&mut ctx, &mut w, &ten, 3, 1100).await;
        let five = vec![plain(0), plain(4), plain(5), plain(7), Letter::Bad(3)];
        run_walk(&mut ctx, &mut w, &five, 4, 700).await;
        println!("VXW-NOTE C09 walks done at {:?}", t0.elapsed());
        if w.bpf.is_none() {
            println!("VXW-NOTE C09: the kernel policy map could not be loaded, the intercept clause was not evaluated");
        }
    });
    let _ = std::fs::remove_dir_all(kx_root("c09"));
    println!("VXW-NOTE C09 {} cases in {:?}, {} contradicting", ctx.cases, t0.elapsed(), ctx.fails);
    println!("VXW-DONE {}", ctx.cases);
}
