// Shared by the C04 witnesses (C04.rs: requests relayed by the proxy listener; C04_own.rs: the agent's own host calls).
// include!d, self-contained (std only + serde_json of the crate under test for the report line).
//
// THE INDEPENDENT HOST. Everything here is written from the statement of C04 and the documented canonical form
// (DESIGN "### C04", Oracle), never from the code under test:
//   * a byte-exact recording HTTP/1.1 server on loopback (ephemeral port): request line, header lines and body are kept as the
//     BYTES THAT ARRIVED (no UTF-8 decoding anywhere);
//   * its own SHA-256 / HMAC-SHA256 / hex (no crate shared with the code under test);
//   * its own canonicaliser over the received bytes:
//       canon  = method LF body LF canonH path LF canonP
//       canonH = for every received header line whose name is not x-ms-azure-host-authorization, ascending by lower-case name:
//                lower(name) ":" value-without-surrounding-blanks LF          (blanks = SP / HTAB, what an HTTP parser strips)
//       path   = the request target up to the first '?', byte for byte (no decoding, no case folding)
//       canonP = one segment per query parameter (query split at '&', empty pieces are no parameters, name/value split at the
//                first '='): lower(name) if the value is empty else lower(name) "=" value (value byte for byte),
//                ascending by lower(name) || value, joined by '&'
//       header = "Azure-HMAC-SHA256 " key-id " " hex(HMAC-SHA256(unhex(key), canon)), exactly one such header line.

use std::io::{Read as C04Read, Write as C04Write};

pub const C04_AUTH: &str = "x-ms-azure-host-authorization";
pub const C04_SCHEME: &str = "Azure-HMAC-SHA256";

// ------------------------------------------------------------------------------------------------ SHA-256 / HMAC (FIPS 180-4, RFC 2104)
const C04_K: [u32; 64] = [
    0x428a2f98, 0x71374491, 0xb5c0fbcf, 0xe9b5dba5, 0x3956c25b, 0x59f111f1, 0x923f82a4, 0xab1c5ed5, 0xd807aa98, 0x12835b01, 0x243185be, 0x550c7dc3,
    0x72be5d74, 0x80deb1fe, 0x9bdc06a7, 0xc19bf174, 0xe49b69c1, 0xefbe4786, 0x0fc19dc6, 0x240ca1cc, 0x2de92c6f, 0x4a7484aa, 0x5cb0a9dc, 0x76f988da,
    0x983e5152, 0xa831c66d, 0xb00327c8, 0xbf597fc7, 0xc6e00bf3, 0xd5a79147, 0x06ca6351, 0x14292967, 0x27b70a85, 0x2e1b2138, 0x4d2c6dfc, 0x53380d13,
    0x650a7354, 0x766a0abb, 0x81c2c92e, 0x92722c85, 0xa2bfe8a1, 0xa81a664b, 0xc24b8b70, 0xc76c51a3, 0xd192e819, 0xd6990624, 0xf40e3585, 0x106aa070,
    0x19a4c116, 0x1e376c08, 0x2748774c, 0x34b0bcb5, 0x391c0cb3, 0x4ed8aa4a, 0x5b9cca4f, 0x682e6ff3, 0x748f82ee, 0x78a5636f, 0x84c87814, 0x8cc70208,
    0x90befffa, 0xa4506ceb, 0xbef9a3f7, 0xc67178f2,
];

pub fn c04_sha256(msg: &[u8]) -> [u8; 32] {
    let mut h: [u32; 8] = [0x6a09e667, 0xbb67ae85, 0x3c6ef372, 0xa54ff53a, 0x510e527f, 0x9b05688c, 0x1f83d9ab, 0x5be0cd19];
    let mut m = msg.to_vec();
    let bits = (msg.len() as u64).wrapping_mul(8);
    m.push(0x80);
    while m.len() % 64 != 56 {
        m.push(0);
    }
    m.extend_from_slice(&bits.to_be_bytes());
    for block in m.chunks(64) {
        let mut w = [0u32; 64];
        for i in 0..16 {
            w[i] = u32::from_be_bytes([block[4 * i], block[4 * i + 1], block[4 * i + 2], block[4 * i + 3]]);
        }
        for i in 16..64 {
            let s0 = w[i - 15].rotate_right(7) ^ w[i - 15].rotate_right(18) ^ (w[i - 15] >> 3);
            let s1 = w[i - 2].rotate_right(17) ^ w[i - 2].rotate_right(19) ^ (w[i - 2] >> 10);
            w[i] = w[i - 16].wrapping_add(s0).wrapping_add(w[i - 7]).wrapping_add(s1);
        }
        let (mut a, mut b, mut c, mut d, mut e, mut f, mut g, mut hh) = (h[0], h[1], h[2], h[3], h[4], h[5], h[6], h[7]);
        for i in 0..64 {
            let s1 = e.rotate_right(6) ^ e.rotate_right(11) ^ e.rotate_right(25);
            let ch = (e & f) ^ ((!e) & g);
            let t1 = hh.wrapping_add(s1).wrapping_add(ch).wrapping_add(C04_K[i]).wrapping_add(w[i]);
            let s0 = a.rotate_right(2) ^ a.rotate_right(13) ^ a.rotate_right(22);
            let maj = (a & b) ^ (a & c) ^ (b & c);
            let t2 = s0.wrapping_add(maj);
            hh = g;
            g = f;
            f = e;
            e = d.wrapping_add(t1);
            d = c;
            c = b;
            b = a;
            a = t1.wrapping_add(t2);
        }
        for (x, y) in h.iter_mut().zip([a, b, c, d, e, f, g, hh]) {
            *x = x.wrapping_add(y);
        }
    }
    let mut out = [0u8; 32];
    for i in 0..8 {
        out[4 * i..4 * i + 4].copy_from_slice(&h[i].to_be_bytes());
    }
    out
}

pub fn c04_hmac_sha256(key: &[u8], msg: &[u8]) -> [u8; 32] {
    let mut k = [0u8; 64];
    if key.len() > 64 {
        k[..32].copy_from_slice(&c04_sha256(key));
    } else {
        k[..key.len()].copy_from_slice(key);
    }
    let mut inner: Vec<u8> = k.iter().map(|b| b ^ 0x36).collect();
    inner.extend_from_slice(msg);
    let ih = c04_sha256(&inner);
    let mut outer: Vec<u8> = k.iter().map(|b| b ^ 0x5c).collect();
    outer.extend_from_slice(&ih);
    c04_sha256(&outer)
}

pub fn c04_hex(b: &[u8]) -> String {
    b.iter().map(|x| format!("{:02x}", x)).collect()
}

pub fn c04_unhex(s: &str) -> Option<Vec<u8>> {
    let b = s.as_bytes();
    if b.len() % 2 != 0 {
        return None;
    }
    let d = |c: u8| -> Option<u8> {
        match c {
            b'0'..=b'9' => Some(c - b'0'),
            b'a'..=b'f' => Some(c - b'a' + 10),
            b'A'..=b'F' => Some(c - b'A' + 10),
            _ => None,
        }
    };
    let mut out = Vec::new();
    for p in b.chunks(2) {
        out.push(d(p[0])? * 16 + d(p[1])?);
    }
    Some(out)
}

/// the implementation above against published vectors (FIPS 180-4 examples, RFC 4231 cases 1, 2, 6): a wrong oracle must not pass silently
pub fn c04_selftest() -> bool {
    let a = c04_hex(&c04_sha256(b"abc")) == "ba7816bf8f01cfea414140de5dae2223b00361a396177a9cb410ff61f20015ad";
    let b = c04_hex(&c04_sha256(b"")) == "e3b0c44298fc1c149afbf4c8996fb92427ae41e4649b934ca495991b7852b855";
    let c = c04_hex(&c04_sha256(b"abcdbcdecdefdefgefghfghighijhijkijkljklmklmnlmnomnopnopq")) == "248d6a61d20638b8e5c026930c3e6039a33ce45964ff2167f6ecedd419db06c1";
    let d = c04_hex(&c04_hmac_sha256(&[0x0b; 20], b"Hi There")) == "b0344c61d8db38535ca8afceaf0bf12b881dc200c9833da726e9376c2e32cff7";
    let e = c04_hex(&c04_hmac_sha256(b"Jefe", b"what do ya want for nothing?")) == "5bdcc146bf60754e6a042426089575c75a003f089d2739839dec58b964ec3843";
    let f = c04_hex(&c04_hmac_sha256(&[0xaa; 131], b"Test Using Larger Than Block-Size Key - Hash Key First")) == "60e431591ee0b67f0d8a26aacbf5b77f8e0bc6213728c5140546040f0ee37f54";
    a && b && c && d && e && f
}

// ------------------------------------------------------------------------------------------------ byte helpers
pub fn c04_find(h: &[u8], n: &[u8], from: usize) -> Option<usize> {
    if h.len() < n.len() || from > h.len() - n.len() {
        return None;
    }
    (from..=h.len() - n.len()).find(|&i| &h[i..i + n.len()] == n)
}

pub fn c04_lower(b: &[u8]) -> Vec<u8> {
    b.iter().map(|c| c.to_ascii_lowercase()).collect()
}

/// surrounding SP / HTAB removed (what the host's HTTP parser does with a field value)
pub fn c04_strip_blanks(b: &[u8]) -> &[u8] {
    let mut s = 0;
    let mut e = b.len();
    while s < e && (b[s] == b' ' || b[s] == b'\t') {
        s += 1;
    }
    while e > s && (b[e - 1] == b' ' || b[e - 1] == b'\t') {
        e -= 1;
    }
    &b[s..e]
}

/// printable rendering of bytes for the report (ASCII kept, everything else \xNN), shortened
pub fn c04_esc(b: &[u8]) -> String {
    let mut s = String::new();
    for (i, c) in b.iter().enumerate() {
        if i >= 400 {
            s.push_str(&format!("...({} bytes)", b.len()));
            break;
        }
        match *c {
            b'\n' => s.push_str("\\n"),
            b'\r' => s.push_str("\\r"),
            b'\t' => s.push_str("\\t"),
            b'\\' => s.push_str("\\\\"),
            0x20..=0x7e => s.push(*c as char),
            _ => s.push_str(&format!("\\x{:02x}", c)),
        }
    }
    s
}

// ------------------------------------------------------------------------------------------------ what the host received
#[derive(Clone, Debug)]
pub struct C04Req {
    pub head: Vec<u8>,   // request line and header lines as they arrived, without the final empty line
    pub body: Vec<u8>,   // body bytes after removing the transfer framing
    pub complete: bool,  // false: the connection ended / stalled before the announced body had arrived
}

#[derive(Clone, Debug)]
pub struct C04View {
    pub method: Vec<u8>,
    pub target: Vec<u8>,
    pub headers: Vec<(Vec<u8>, Vec<u8>)>, // name as received, value without surrounding blanks; in order of arrival, duplicates kept
}

pub fn c04_view(head: &[u8]) -> C04View {
    let mut lines: Vec<&[u8]> = Vec::new();
    let mut pos = 0;
    loop {
        match c04_find(head, b"\r\n", pos) {
            Some(e) => {
                lines.push(&head[pos..e]);
                pos = e + 2;
            }
            None => {
                lines.push(&head[pos..]);
                break;
            }
        }
    }
    let first = lines.first().copied().unwrap_or(&[]);
    let mut parts = first.splitn(3, |c| *c == b' ');
    let method = parts.next().unwrap_or(&[]).to_vec();
    let target = parts.next().unwrap_or(&[]).to_vec();
    let mut headers = Vec::new();
    for l in lines.iter().skip(1) {
        if l.is_empty() {
            continue;
        }
        match l.iter().position(|c| *c == b':') {
            Some(i) => headers.push((l[..i].to_vec(), c04_strip_blanks(&l[i + 1..]).to_vec())),
            None => headers.push((l.to_vec(), Vec::new())),
        }
    }
    C04View { method, target, headers }
}

pub fn c04_hget<'a>(v: &'a C04View, name: &str) -> Vec<&'a [u8]> {
    v.headers.iter().filter(|(n, _)| n.eq_ignore_ascii_case(name.as_bytes())).map(|(_, x)| x.as_slice()).collect()
}

/// (path, query) of a request target as the host receives it; an absolute-form target is reduced to its path first
pub fn c04_split_target(target: &[u8]) -> (Vec<u8>, Vec<u8>) {
    let mut t = target;
    for scheme in [&b"http://"[..], &b"https://"[..]] {
        if t.len() >= scheme.len() && t[..scheme.len()].eq_ignore_ascii_case(scheme) {
            let rest = &t[scheme.len()..];
            let cut = rest.iter().position(|c| *c == b'/' || *c == b'?').unwrap_or(rest.len());
            t = &rest[cut..];
        }
    }
    let t = match t.iter().position(|c| *c == b'#') {
        Some(i) => &t[..i],
        None => t,
    };
    match t.iter().position(|c| *c == b'?') {
        Some(i) => (t[..i].to_vec(), t[i + 1..].to_vec()),
        None => (t.to_vec(), Vec::new()),
    }
}

/// the query parameters: (name, value) per non-empty '&' piece
pub fn c04_pairs(query: &[u8]) -> Vec<(Vec<u8>, Vec<u8>)> {
    let mut out = Vec::new();
    for piece in query.split(|c| *c == b'&') {
        if piece.is_empty() {
            continue;
        }
        match piece.iter().position(|c| *c == b'=') {
            Some(i) => out.push((piece[..i].to_vec(), piece[i + 1..].to_vec())),
            None => out.push((piece.to_vec(), Vec::new())),
        }
    }
    out
}

/// known finding F4 (/verif/known_findings.txt): two parameters whose lower(name)||value coincide are merged by the code under
/// test. Exactly these inputs are left out of the enumeration.
pub fn c04_f4_collision(target: &[u8]) -> bool {
    let (_, q) = c04_split_target(target);
    let mut keys: Vec<Vec<u8>> = c04_pairs(&q).iter().map(|(k, v)| [c04_lower(k), v.clone()].concat()).collect();
    let n = keys.len();
    keys.sort();
    keys.dedup();
    keys.len() != n
}

pub fn c04_canon_params(query: &[u8]) -> Vec<u8> {
    let mut segs: Vec<(Vec<u8>, Vec<u8>)> = c04_pairs(query)
        .iter()
        .map(|(k, v)| {
            let lk = c04_lower(k);
            let sort_key = [lk.clone(), v.clone()].concat();
            let seg = if v.is_empty() { lk } else { [lk, b"=".to_vec(), v.clone()].concat() };
            (sort_key, seg)
        })
        .collect();
    segs.sort_by(|a, b| a.0.cmp(&b.0)); // stable
    segs.iter().map(|s| s.1.clone()).collect::<Vec<_>>().join(&b"&"[..])
}

/// Acceptable canonical strings of a received request. [0] is the statement's: one line per received header line.
/// For a header NAME THAT ARRIVES MORE THAN ONCE the host's rule is not documented (DESIGN section 6, F9: the code signs one line
/// carrying one of that name's values): additionally accepted there, and only there: one line for the name with one of its values.
pub fn c04_canonical(v: &C04View, body: &[u8]) -> Vec<Vec<u8>> {
    let mut hs: Vec<(Vec<u8>, Vec<u8>)> = v.headers.iter().filter(|(n, _)| !n.eq_ignore_ascii_case(C04_AUTH.as_bytes())).map(|(n, x)| (c04_lower(n), x.clone())).collect();
    hs.sort_by(|a, b| a.0.cmp(&b.0)); // stable: lines of one name stay in order of arrival
    // group by name
    let mut groups: Vec<(Vec<u8>, Vec<Vec<u8>>)> = Vec::new();
    for (n, x) in hs {
        match groups.last_mut() {
            Some(g) if g.0 == n => g.1.push(x),
            _ => groups.push((n, vec![x])),
        }
    }
    // alternatives per group: index usize::MAX = all lines, i = only value i
    let mut variants: Vec<Vec<u8>> = vec![Vec::new()];
    let mut strict: Vec<u8> = Vec::new();
    for (n, vals) in groups.iter() {
        let line = |x: &Vec<u8>| [n.clone(), b":".to_vec(), x.clone(), b"\n".to_vec()].concat();
        let all: Vec<u8> = vals.iter().map(line).collect::<Vec<_>>().concat();
        strict.extend_from_slice(&all);
        let mut alts: Vec<Vec<u8>> = vec![all];
        if vals.len() > 1 {
            for x in vals.iter() {
                let l = line(x);
                if !alts.contains(&l) {
                    alts.push(l);
                }
            }
        }
        let mut next = Vec::new();
        for pre in variants.iter() {
            for a in alts.iter() {
                if next.len() < 64 {
                    next.push([pre.clone(), a.clone()].concat());
                }
            }
        }
        variants = next;
    }
    let (path, query) = c04_split_target(&v.target);
    let params = c04_canon_params(&query);
    let build = |h: &Vec<u8>| [v.method.clone(), b"\n".to_vec(), body.to_vec(), b"\n".to_vec(), h.clone(), path.clone(), b"\n".to_vec(), params.clone()].concat();
    let mut out = vec![build(&strict)];
    for h in variants.iter() {
        let c = build(h);
        if !out.contains(&c) {
            out.push(c);
        }
    }
    out
}

/// The host's acceptance check of one received request under the latched (key id, hex key). Empty = accepted.
pub fn c04_verify(req: &C04Req, key_id: &str, key_hex: &str) -> (Vec<String>, serde_json::Value) {
    let mut problems = Vec::new();
    let mut hints: Vec<String> = Vec::new();
    let v = c04_view(&req.head);
    let auths = c04_hget(&v, C04_AUTH);
    let canon = c04_canonical(&v, &req.body);
    let key = c04_unhex(key_hex).unwrap_or_default();
    let want: Vec<String> = canon.iter().map(|c| format!("{} {} {}", C04_SCHEME, key_id, c04_hex(&c04_hmac_sha256(&key, c)))).collect();
    if !req.complete {
        problems.push("the announced body never arrived completely at the host".to_string());
    }
    if auths.len() != 1 {
        problems.push(format!("{} {} header lines at the host, want exactly 1", auths.len(), C04_AUTH));
    }
    for a in auths.iter() {
        let parts: Vec<&[u8]> = a.split(|c| *c == b' ').collect();
        if parts.len() != 3 || parts[0] != C04_SCHEME.as_bytes() {
            problems.push(format!("authorization value '{}' is not '{} <key id> <hex MAC>'", c04_esc(a), C04_SCHEME));
            continue;
        }
        if parts[1] != key_id.as_bytes() {
            problems.push(format!("authorization names key id '{}', the latched key is '{}'", c04_esc(parts[1]), key_id));
        }
        let ok = want.iter().any(|w| w.as_bytes().eq_ignore_ascii_case(a));
        if !ok && parts[1] == key_id.as_bytes() {
            problems.push("the MAC is not HMAC-SHA256(latched key, canonical string of the request as received)".to_string());
            // diagnosis only: which received header line is not what the MAC covers (the MAC verifies once the line is left out)
            for i in 0..v.headers.len() {
                if v.headers[i].0.eq_ignore_ascii_case(C04_AUTH.as_bytes()) {
                    continue;
                }
                let mut v2 = v.clone();
                v2.headers.remove(i);
                if c04_canonical(&v2, &req.body).iter().any(|c| c04_hex(&c04_hmac_sha256(&key, c)).as_bytes().eq_ignore_ascii_case(parts[2])) {
                    hints.push(format!("the MAC verifies when the received header line '{}: {}' is left out: that line is not covered", c04_esc(&v.headers[i].0), c04_esc(&v.headers[i].1)));
                }
            }
            if !req.body.is_empty() && c04_canonical(&v, &[]).iter().any(|c| c04_hex(&c04_hmac_sha256(&key, c)).as_bytes().eq_ignore_ascii_case(parts[2])) {
                hints.push("the MAC verifies over an empty body: the body is not covered".to_string());
            }
        }
    }
    let detail = serde_json::json!({
        "authorization_at_host": auths.iter().map(|a| c04_esc(a)).collect::<Vec<_>>(),
        "want_authorization": want.first().cloned().unwrap_or_default(),
        "canonical_string_of_received_request": c04_esc(&canon[0]),
        "received_head": c04_esc(&req.head),
        "diagnosis": hints,
        "received_body": format!("{} bytes: {}", req.body.len(), c04_esc(&req.body[..std::cmp::min(req.body.len(), 48)])),
    });
    (problems, detail)
}

// ------------------------------------------------------------------------------------------------ the recording host
struct C04HostState {
    reqs: Vec<C04Req>,
}

#[derive(Clone)]
pub struct C04Host {
    pub port: u16,
    st: std::sync::Arc<std::sync::Mutex<C04HostState>>,
}

enum C04Framing {
    None,
    Len(usize),
    Chunked,
}

fn c04_framing(v: &C04View) -> C04Framing {
    if c04_hget(v, "transfer-encoding").iter().any(|x| c04_find(&c04_lower(x), b"chunked", 0).is_some()) {
        return C04Framing::Chunked;
    }
    if let Some(x) = c04_hget(v, "content-length").first() {
        if let Ok(n) = String::from_utf8_lossy(x).trim().parse::<usize>() {
            return C04Framing::Len(n);
        }
    }
    C04Framing::None
}

/// Some((body, end)) when the body that starts at `start` is complete
fn c04_try_body(buf: &[u8], start: usize, fr: &C04Framing) -> Option<(Vec<u8>, usize)> {
    match fr {
        C04Framing::None => Some((Vec::new(), start)),
        C04Framing::Len(n) => {
            if buf.len() >= start + n {
                Some((buf[start..start + n].to_vec(), start + n))
            } else {
                None
            }
        }
        C04Framing::Chunked => {
            let mut pos = start;
            let mut body = Vec::new();
            loop {
                let eol = c04_find(buf, b"\r\n", pos)?;
                let line = String::from_utf8_lossy(&buf[pos..eol]).to_string();
                let n = usize::from_str_radix(line.split(';').next().unwrap_or("").trim(), 16).ok()?;
                pos = eol + 2;
                if n == 0 {
                    loop {
                        let e = c04_find(buf, b"\r\n", pos)?;
                        if e == pos {
                            return Some((body, e + 2));
                        }
                        pos = e + 2;
                    }
                }
                if buf.len() < pos + n + 2 {
                    return None;
                }
                body.extend_from_slice(&buf[pos..pos + n]);
                pos += n + 2;
            }
        }
    }
}

fn c04_host_conn(mut s: std::net::TcpStream, st: std::sync::Arc<std::sync::Mutex<C04HostState>>) {
    let _ = s.set_nodelay(true);
    // a request whose announced body does not arrive is recorded as incomplete after this long
    let _ = s.set_read_timeout(Some(std::time::Duration::from_millis(2500)));
    let mut buf: Vec<u8> = Vec::new();
    let mut tmp = vec![0u8; 65536];
    loop {
        // complete requests in the buffer
        loop {
            let he = match c04_find(&buf, b"\r\n\r\n", 0) {
                Some(x) => x,
                None => break,
            };
            let v = c04_view(&buf[..he]);
            let fr = c04_framing(&v);
            let (body, end) = match c04_try_body(&buf, he + 4, &fr) {
                Some(x) => x,
                None => break,
            };
            st.lock().unwrap().reqs.push(C04Req { head: buf[..he].to_vec(), body, complete: true });
            buf.drain(..end);
            let resp: &[u8] = if v.method == b"HEAD" {
                b"HTTP/1.1 200 OK\r\ncontent-type: application/json\r\ncontent-length: 0\r\n\r\n"
            } else {
                b"HTTP/1.1 200 OK\r\ncontent-type: application/json\r\ncontent-length: 2\r\n\r\n{}"
            };
            if s.write_all(resp).is_err() {
                return;
            }
            let _ = s.flush();
        }
        match s.read(&mut tmp) {
            Ok(0) | Err(_) => {
                if !buf.is_empty() {
                    // something arrived that never became a complete request
                    let he = c04_find(&buf, b"\r\n\r\n", 0);
                    let (head, body) = match he {
                        Some(h) => (buf[..h].to_vec(), buf[h + 4..].to_vec()),
                        None => (buf.clone(), Vec::new()),
                    };
                    st.lock().unwrap().reqs.push(C04Req { head, body, complete: false });
                    let _ = s.write_all(b"HTTP/1.1 400 Bad Request\r\ncontent-length: 0\r\nconnection: close\r\n\r\n");
                }
                return;
            }
            Ok(n) => buf.extend_from_slice(&tmp[..n]),
        }
    }
}

impl C04Host {
    pub fn start() -> C04Host {
        let l = std::net::TcpListener::bind("127.0.0.1:0").expect("C04 host bind");
        let port = l.local_addr().unwrap().port();
        let st = std::sync::Arc::new(std::sync::Mutex::new(C04HostState { reqs: Vec::new() }));
        let st2 = st.clone();
        std::thread::spawn(move || {
            for s in l.incoming() {
                match s {
                    Ok(s) => {
                        let st3 = st2.clone();
                        std::thread::spawn(move || c04_host_conn(s, st3));
                    }
                    Err(_) => break,
                }
            }
        });
        C04Host { port, st }
    }
    /// the requests received since the last take, in order of completion
    pub fn take(&self) -> Vec<C04Req> {
        std::mem::take(&mut self.st.lock().unwrap().reqs)
    }
}

// ------------------------------------------------------------------------------------------------ deterministic payloads
/// n bytes covering every byte value, never valid UTF-8 as a whole, different at every position modulo 251
pub fn c04_binary(n: usize, salt: u8) -> Vec<u8> {
    (0..n).map(|i| ((i % 251) as u8).wrapping_mul(7).wrapping_add(salt).wrapping_add((i / 251) as u8) | if i % 5 == 0 { 0x80 } else { 0 }).collect()
}

pub fn c04_fail(v: serde_json::Value) {
    println!("VXW-FAIL {}", v);
}
