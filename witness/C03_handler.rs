// Witness generator for C03 at handler level, compiled into the real crate as a child module of proxy_server.rs.
// Drives the REAL ProxyServer::handle_new_http_request end to end on loopback (see handler_harness.inc.rs).
// Oracle = the statement: a request to WireServer (168.63.129.16:80) or HostGAPlugin (168.63.129.16:32526) made by a caller that
// is NOT running elevated is never relayed (zero bytes reach the mock host), whatever rules, mode (disabled / audit / enforce)
// or default access are configured; a request whose recorded original destination is the proxy's own listener
// (127.0.0.1:3080) is always refused (zero bytes, for every caller). The client is answered 403.
#![allow(dead_code, unused_imports, clippy::all)]
include!("/verif/witness/handler_harness.inc.rs");

#[test]
fn console_vxw_c03_handler() {
    let h = Harness::new(true);
    let mut n = 0u64;
    // harness sanity (not a property check): an elevated WireServer request without rules must reach the mock host
    h.set_rules(&|| None);
    let (r, b, reqs) = h.one(&h.ps, &Attribution::full(true, "168.63.129.16", 80), vx_request_bytes("GET", "/machine?comp=goalstate", &[("Host".to_string(), "168.63.129.16".to_string())], &ReqBody::None), false);
    assert!(b > 0 && reqs.len() == 1 && vx_status(&r) == 200, "harness sanity: authorized request not relayed (status {}, {} bytes upstream)", vx_status(&r), b);

    let requests: Vec<(&str, &str, ReqBody)> = vec![
        ("GET", "/machine?comp=goalstate", ReqBody::None),
        ("GET", "/metadata/instance?api-version=2021-02-01", ReqBody::None),
        ("POST", "/machine/upload?x=1", ReqBody::Len(b"0123456789".to_vec())),
        ("PUT", "/vmAgentLog", ReqBody::Chunked(b"abcdefgh".to_vec(), vec![3])),
        // absolute-form request targets: whatever authority (host, port) the client writes, the connection's RECORDED destination decides
        ("GET", "http://168.63.129.16:8080/machine?comp=goalstate", ReqBody::None),
        ("GET", "http://169.254.169.254/machine?comp=goalstate", ReqBody::None),
        ("GET", "http://168.63.129.16:32526/machine?comp=goalstate", ReqBody::None),
        ("GET", "http://localhost:80/machine?comp=goalstate", ReqBody::None),
    ];
    let mut configs: Vec<Option<(&str, &str, u8)>> = vec![None];
    for mode in ["disabled", "audit", "enforce"] {
        for da in ["allow", "deny"] {
            for kind in 0u8..4 {
                configs.push(Some((mode, da, kind)));
            }
        }
    }
    // (destination, callers to try: elevated?)
    let cases: [(&str, u16, &str, &[bool]); 3] = [
        ("168.63.129.16", 80, "wireserver", &[false]),
        ("168.63.129.16", 32526, "hostga", &[false]),
        ("127.0.0.1", 3080, "self", &[false, true]),
    ];
    for cfg in configs.iter() {
        for (ip, port, ep, callers) in cases.iter() {
            for elevated in callers.iter() {
                // the rule sets name the caller itself, so that a handler consulting the rules would find the caller allowed
                let caller = if *elevated { "root" } else { "alice" };
                h.set_rules(&|| cfg.map(|(m, d, k)| vx_rules(m, d, k, caller)));
                for (method, target, body) in requests.iter() {
                    let wire = vx_request_bytes(method, target, &[("Host".to_string(), ip.to_string()), ("x-ms-version".to_string(), "2012-11-30".to_string())], body);
                    let (r, bytes, reqs) = h.one(&h.ps, &Attribution::full(*elevated, ip, *port), wire, false);
                    n += 1;
                    let st = vx_status(&r);
                    if bytes != 0 || st != 403 {
                        vx_fail(serde_json::json!({"property": "C03",
                            "input": {"endpoint": ep, "destination": format!("{}:{}", ip, port), "elevated": elevated, "rules": cfg.map(|(m, d, k)| format!("{}/{}/kind{}", m, d, k)), "request": format!("{} {}", method, target), "body_bytes": body.bytes().len()},
                            "got": {"client_status": st, "client_error": r.as_ref().err(), "bytes_at_host": bytes, "requests_at_host": reqs.iter().map(|q| format!("{} {}", q.method, q.target)).collect::<Vec<_>>()},
                            "want": {"bytes_at_host": 0, "client_status": 403}}));
                    }
                }
            }
        }
    }
    println!("VXW-DONE {}", n);
}
