// Witness generator for C08, store level (child module of key_keeper.rs): the three file-level steps of the latch protocol called
// directly - KeyKeeper::store_key, ::check_key, ::fetch_key (what the poll loop calls between "key received" and "attest").
// The loop-level witness (C08.rs) cannot tell a read-back check that compares too little from one that compares everything,
// because the real store never leaves a same-guid/other-value file behind on its own; here the file is put there.
// Oracle = the statement ("never attests a key it has not first stored and read back identically", "present, complete and
// readable ... found there after restart"):
//   read-back : check_key(dir, K) == Ok  =>  fetch_key(dir, K.guid) yields K's guid AND K's key value
//               (so Ok is contradicted by a store that holds another value, another guid, half a document, nothing);
//   store     : store_key(dir, K) == Ok  =>  fetch_key(dir, K.guid) yields K (whatever was under the final or temporary name
//               before: stale key, half-written file, directory), and Err leaves a complete previous key readable as it was;
//   no torn file under the final name after a store whose write was cut off after k bytes (every k).
#![allow(dead_code, unused_imports, clippy::all)]
use super::key::Key;
use super::KeyKeeper;
use std::path::{Path, PathBuf};

const G1: &str = "9cf81e97-0316-4ad3-94a7-8ccbdee8ccbf";
const V1: &str = "4A404E635266556A586E3272357538782F413F4428472B4B6250645367566B59";
const V2: &str = "00112233445566778899AABBCCDDEEFF00112233445566778899AABBCCDDEEFF";

fn key(guid: &str, value: &str) -> Key {
    serde_json::from_value(serde_json::json!({"authorizationScheme": "Azure-HMAC-SHA256", "guid": guid, "incarnationId": 1, "issued": "2021-05-05T 12:00:00Z", "key": value})).unwrap()
}

fn root() -> PathBuf {
    let mut p = std::env::temp_dir();
    p.push(format!("vxw_c08s_{}", std::process::id()));
    p
}

fn fresh_dir(n: &mut u64) -> PathBuf {
    *n += 1;
    let d = root().join(format!("d{}", n));
    let _ = std::fs::remove_dir_all(&d);
    std::fs::create_dir_all(&d).unwrap();
    d
}

fn clip(s: &str) -> String {
    if s.chars().count() > 48 { format!("{}...({} chars)", s.chars().take(48).collect::<String>(), s.chars().count()) } else { s.to_string() }
}

fn listing(dir: &Path) -> Vec<String> {
    let mut v: Vec<String> = std::fs::read_dir(dir).map(|rd| rd.flatten().map(|e| {
        let m = std::fs::symlink_metadata(e.path());
        format!("{} ({})", e.file_name().to_string_lossy(), match m { Ok(m) if m.file_type().is_dir() => "dir".to_string(), Ok(m) if m.file_type().is_symlink() => "symlink".to_string(), Ok(m) => format!("{} bytes", m.len()), Err(_) => "?".to_string() })
    }).collect()).unwrap_or_default();
    v.sort();
    v
}

fn fetched(dir: &Path, guid: &str) -> Option<(String, String)> {
    KeyKeeper::fetch_key(dir, guid).ok().map(|k| (k.guid.clone(), k.key.clone()))
}

struct Ctx { cases: u64, fails: u64 }
impl Ctx {
    fn fail(&mut self, v: serde_json::Value) {
        self.fails += 1;
        if self.fails <= 25 { println!("VXW-FAIL {}", v); }
    }
}

fn fsize_limit(limit: Option<u64>) {
    unsafe {
        libc::signal(libc::SIGXFSZ, libc::SIG_IGN);
        let mut cur = libc::rlimit { rlim_cur: 0, rlim_max: 0 };
        if libc::getrlimit(libc::RLIMIT_FSIZE, &mut cur) != 0 { return; }
        let new = libc::rlimit { rlim_cur: limit.map(|l| l as libc::rlim_t).unwrap_or(cur.rlim_max), rlim_max: cur.rlim_max };
        libc::setrlimit(libc::RLIMIT_FSIZE, &new);
    }
}

fn std_streams_are_files() -> bool {
    ["/proc/self/fd/1", "/proc/self/fd/2"].iter().any(|f| std::fs::metadata(f).map(|m| m.file_type().is_file()).unwrap_or(false))
}

// what can be in the way under the final / temporary name (documented store: <guid>.key written through <guid>.tmp)
#[derive(Debug, Clone, Copy, PartialEq)]
enum Pre { Nothing, FinalSameKey, FinalOtherValue, FinalOtherGuidInside, FinalHalf, FinalEmpty, FinalDir, TmpHalf, TmpDir, TmpDevNull }

fn prepare(dir: &Path, guid: &str, value: &str, pre: Pre) {
    let fin = dir.join(format!("{}.key", guid));
    let tmp = dir.join(format!("{}.tmp", guid));
    let doc = |g: &str, v: &str| serde_json::to_string_pretty(&serde_json::json!({"authorizationScheme": "Azure-HMAC-SHA256", "incarnationId": 1, "guid": g, "issued": "2021-05-05T 12:00:00Z", "key": v})).unwrap();
    match pre {
        Pre::Nothing => {}
        Pre::FinalSameKey => std::fs::write(&fin, doc(guid, value)).unwrap(),
        Pre::FinalOtherValue => std::fs::write(&fin, doc(guid, V2)).unwrap(),
        Pre::FinalOtherGuidInside => std::fs::write(&fin, doc("ffffffff-0000-4000-8000-000000000000", value)).unwrap(),
        Pre::FinalHalf => std::fs::write(&fin, &doc(guid, value).as_bytes()[..40]).unwrap(),
        Pre::FinalEmpty => std::fs::write(&fin, b"").unwrap(),
        Pre::FinalDir => std::fs::create_dir_all(fin.join("occupied")).unwrap(),
        Pre::TmpHalf => std::fs::write(&tmp, &doc(guid, V2).as_bytes()[..40]).unwrap(),
        Pre::TmpDir => std::fs::create_dir_all(&tmp).unwrap(),
        Pre::TmpDevNull => std::os::unix::fs::symlink("/dev/null", &tmp).unwrap(),
    }
}

#[test]
fn console_vxw_c08_store() {
    let mut ctx = Ctx { cases: 0, fails: 0 };
    let mut n = 0u64;
    let long_value: String = std::iter::repeat("AB").take(40000).collect();
    let keys: Vec<(String, String)> = vec![
        (G1.to_string(), V1.to_string()),
        ("9CF81E97-0316-4AD3-94A7-8CCBDEE8CCBF".to_string(), V1.to_string()),
        ("guid.with.dots".to_string(), V1.to_string()),
        ("guid with blanks and \u{00e9}\u{4e2d}".to_string(), V1.to_string()),
        (G1.to_string(), "not hex \"quoted\" \\ back\\slash \n newline \u{00e9} \u{1F511}".to_string()),
        (G1.to_string(), String::new()),
        (G1.to_string(), long_value),
    ];
    let pres = [Pre::Nothing, Pre::FinalSameKey, Pre::FinalOtherValue, Pre::FinalOtherGuidInside, Pre::FinalHalf, Pre::FinalEmpty, Pre::FinalDir, Pre::TmpHalf, Pre::TmpDir, Pre::TmpDevNull];

    // (1) read-back: whatever is in the store, check_key(K) == Ok means fetch_key gives K back
    for (g, v) in keys.iter() {
        for pre in pres.iter() {
            ctx.cases += 1;
            let dir = fresh_dir(&mut n);
            prepare(&dir, g, v, *pre);
            let k = key(g, v);
            let checked = KeyKeeper::check_key(&dir, &k).is_ok();
            let got = fetched(&dir, g);
            if checked && got != Some((g.clone(), v.clone())) {
                ctx.fail(serde_json::json!({"property": "C08", "class": "read-back", "input": {"key": format!("{} / {}", g, clip(v)), "store_before": format!("{:?}", pre), "key_directory": listing(&dir)},
                    "got": {"check_key": "Ok", "fetch_key": got.map(|x| format!("{} / {}", x.0, clip(&x.1)))}, "want": "check_key is Ok only when the store gives back the same guid and the same key value"}));
            }
        }
    }

    // (2) store: Ok means the key is there; then the read-back check agrees; and a later fetch (restart) gives it back
    for (g, v) in keys.iter() {
        for pre in pres.iter() {
            ctx.cases += 1;
            let dir = fresh_dir(&mut n);
            prepare(&dir, g, v, *pre);
            let before = fetched(&dir, g);
            let fin = dir.join(format!("{}.key", g));
            let (ino_before, text_before) = { use std::os::unix::fs::MetadataExt; (std::fs::symlink_metadata(&fin).ok().filter(|m| m.file_type().is_file()).map(|m| m.ino()), std::fs::read(&fin).ok()) };
            let keep_open = std::fs::File::open(&fin).ok(); // the old inode number cannot be reused while this is open
            let k = key(g, v);
            let stored = KeyKeeper::store_key(&dir, &k).is_ok();
            drop(keep_open);
            let (ino_after, text_after) = { use std::os::unix::fs::MetadataExt; (std::fs::symlink_metadata(&fin).ok().filter(|m| m.file_type().is_file()).map(|m| m.ino()), std::fs::read(&fin).ok()) };
            if ino_before.is_some() && ino_before == ino_after && text_before != text_after {
                ctx.fail(serde_json::json!({"property": "C08", "class": "torn-file", "input": {"key": format!("{} / {}", g, clip(v)), "store_before": format!("{:?}", pre)},
                    "got": {"final_file": "same inode, new content"}, "want": "a file already under the key's final name is replaced atomically by the new one, never rewritten in place"}));
            }
            let checked = KeyKeeper::check_key(&dir, &k).is_ok();
            let got = fetched(&dir, g);
            let want = Some((g.clone(), v.clone()));
            // a temporary name that swallows what is written through it is sabotage no store can see: there only the pair store+check is judged
            let store_judged = *pre != Pre::TmpDevNull;
            if (stored && store_judged && got != want) || (stored && checked && got != want) {
                ctx.fail(serde_json::json!({"property": "C08", "class": "store", "input": {"key": format!("{} / {}", g, clip(v)), "store_before": format!("{:?}", pre), "key_directory_after": listing(&dir)},
                    "got": {"store_key": "Ok", "check_key": if checked { "Ok" } else { "Err" }, "fetch_key": got.map(|x| format!("{} / {}", x.0, clip(&x.1)))}, "want": "after store_key returned Ok the store gives back the same guid and the same key value"}));
            } else if !stored && before.is_some() && matches!(pre, Pre::FinalSameKey | Pre::FinalOtherValue) && got != before {
                ctx.fail(serde_json::json!({"property": "C08", "class": "store", "input": {"key": format!("{} / {}", g, clip(v)), "store_before": format!("{:?}", pre), "key_directory_after": listing(&dir)},
                    "got": {"store_key": "Err", "fetch_key": got.map(|x| format!("{} / {}", x.0, clip(&x.1)))}, "want": "a failed store leaves the complete key that was there readable as it was"}));
            }
        }
    }

    // (3) the same with a check of a DIFFERENT key after a good store: Ok would let the loop attest something that is not in the store
    for (g, v) in keys.iter().take(3) {
        for (g2, v2) in [(g.clone(), V2.to_string()), (g.clone(), format!("{}0", v)), (g.clone(), v.to_lowercase()), (format!("{}x", g), v.clone())] {
            if (&g2, &v2) == (g, v) { continue; }
            ctx.cases += 1;
            let dir = fresh_dir(&mut n);
            let _ = KeyKeeper::store_key(&dir, &key(g, v));
            let other = key(&g2, &v2);
            let checked = KeyKeeper::check_key(&dir, &other).is_ok();
            let got = fetched(&dir, &g2);
            if checked && got != Some((g2.clone(), v2.clone())) {
                ctx.fail(serde_json::json!({"property": "C08", "class": "read-back", "input": {"stored": format!("{} / {}", g, clip(v)), "checked": format!("{} / {}", g2, clip(&v2))},
                    "got": {"check_key": "Ok", "fetch_key": got.map(|x| format!("{} / {}", x.0, clip(&x.1)))}, "want": "check_key is Ok only when the store gives back the same guid and the same key value"}));
            }
        }
    }

    // (4) write cut off after k bytes, over nothing and over a complete other key: the final name never holds a torn document
    if std_streams_are_files() {
        println!("VXW-NOTE C08_store: stdout/stderr is a regular file, the cut-off-write cases are skipped");
    } else {
        for over in [Pre::Nothing, Pre::FinalOtherValue] {
            for k in 0..=330u64 {
                ctx.cases += 1;
                let dir = fresh_dir(&mut n);
                prepare(&dir, G1, V1, over);
                let before = fetched(&dir, G1);
                let kk = key(G1, V1);
                fsize_limit(Some(k));
                let stored = KeyKeeper::store_key(&dir, &kk).is_ok();
                fsize_limit(None);
                let fin = dir.join(format!("{}.key", G1));
                let text = std::fs::read(&fin).ok();
                let complete = text.as_ref().map(|t| serde_json::from_slice::<serde_json::Value>(t).map(|v| v.get("guid").is_some() && v.get("key").is_some()).unwrap_or(false));
                let got = fetched(&dir, G1);
                let bad = if complete == Some(false) {
                    Some("a torn document under the key's final name")
                } else if stored && got != Some((G1.to_string(), V1.to_string())) {
                    Some("store_key returned Ok but the key is not in the store")
                } else if !stored && got != before {
                    Some("the failed store changed what the store gives back")
                } else {
                    None
                };
                if let Some(b) = bad {
                    ctx.fail(serde_json::json!({"property": "C08", "class": "torn-file", "input": {"write_cut_off_after_bytes": k, "store_before": format!("{:?}", over)},
                        "got": {"problem": b, "store_key": if stored { "Ok" } else { "Err" }, "final_file_bytes": text.map(|t| t.len()), "key_directory_after": listing(&dir)}, "want": "the final name holds nothing or a complete key document at every point"}));
                }
            }
        }
    }
    let _ = std::fs::remove_dir_all(root());
    println!("VXW-DONE {}", ctx.cases);
}
