// C13, what the host returns: the public host clients, the real key keeper loop, provisioning, the late notification.

fn vx_utf16le(s: &str, bom: bool) -> Vec<u8> {
    let mut v = Vec::new();
    if bom {
        v.extend_from_slice(&[0xff, 0xfe]);
    }
    for u in s.encode_utf16() {
        v.extend_from_slice(&u.to_le_bytes());
    }
    v
}

fn vx_utf16be(s: &str) -> Vec<u8> {
    let mut v = vec![0xfe, 0xff];
    for u in s.encode_utf16() {
        v.extend_from_slice(&u.to_be_bytes());
    }
    v
}

fn vx_content_types() -> Vec<(&'static str, Option<Vec<u8>>)> {
    vec![
        ("absent", None),
        ("application/json", Some(b"application/json".to_vec())),
        ("application/json; charset=utf-8", Some(b"application/json; charset=utf-8".to_vec())),
        ("application/json; charset=utf-16", Some(b"application/json; charset=utf-16".to_vec())),
        ("APPLICATION/JSON; CHARSET=UTF-16LE", Some(b"APPLICATION/JSON; CHARSET=UTF-16LE".to_vec())),
        ("text/xml; charset=utf-8", Some(b"text/xml; charset=utf-8".to_vec())),
        ("text/xml; charset=utf-16", Some(b"text/xml; charset=utf-16".to_vec())),
        ("application/xml", Some(b"application/xml".to_vec())),
        ("text/plain; charset=utf-32", Some(b"text/plain; charset=utf-32".to_vec())),
        ("text/html", Some(b"text/html".to_vec())),
        ("application/octet-stream", Some(b"application/octet-stream".to_vec())),
        ("bytes >= 0x80", Some(b"application/json; charset=\xff\xe9utf-16".to_vec())),
        ("empty value", Some(Vec::new())),
        ("charset=utf-16 only", Some(b"charset=utf-16".to_vec())),
        ("utf-8 and utf-16 both named", Some(b"text/json; charset=utf-8; alt=utf-16".to_vec())),
    ]
}

/// (what, bytes) bodies for a route whose well-formed answer is `good`
fn vx_bodies(good: &str) -> Vec<(String, Vec<u8>)> {
    let mut v: Vec<(String, Vec<u8>)> = Vec::new();
    v.push(("well-formed, UTF-8".to_string(), good.as_bytes().to_vec()));
    v.push(("well-formed, UTF-8 with BOM".to_string(), [&[0xef, 0xbb, 0xbf][..], good.as_bytes()].concat()));
    v.push(("well-formed, UTF-16LE".to_string(), vx_utf16le(good, false)));
    v.push(("well-formed, UTF-16LE with BOM".to_string(), vx_utf16le(good, true)));
    v.push(("well-formed, UTF-16BE with BOM".to_string(), vx_utf16be(good)));
    let mut odd = vx_utf16le(good, false);
    odd.pop();
    v.push(("UTF-16LE, last byte missing (odd length)".to_string(), odd));
    let mut odd = vx_utf16le(good, true);
    odd.push(0x7b);
    v.push(("UTF-16LE with BOM plus one byte (odd length)".to_string(), odd));
    v.push(("UTF-16 with unpaired surrogates".to_string(), vec![0x00, 0xd8, 0x7b, 0x00, 0x00, 0xdc, 0x7d, 0x00, 0x00, 0xd8]));
    v.push(("empty".to_string(), Vec::new()));
    v.push(("1 byte 0x7b".to_string(), vec![0x7b]));
    v.push(("1 byte 0xff".to_string(), vec![0xff]));
    v.push(("2 bytes BOM only".to_string(), vec![0xff, 0xfe]));
    v.push(("3 bytes".to_string(), vec![0xff, 0xfe, 0x7b]));
    v.push(("invalid UTF-8".to_string(), vec![0x7b, 0x22, 0xff, 0xfe, 0xc3, 0x28, 0xe2, 0x82, 0x22, 0x7d]));
    let mb = good.replace("Azure-HMAC-SHA256", "Azure-\u{e9}\u{20ac}\u{1f600}-SHA256").replace("Started", "\u{e9}\u{20ac}\u{1f600}").replace("westus", "\u{e9}\u{20ac}\u{1f600}");
    v.push(("well-formed with 2/3/4-byte characters in the values".to_string(), mb.into_bytes()));
    for w in [2usize, 3, 4] {
        for pad in 0..w {
            v.push((format!("not parseable: {} ASCII bytes + {}-byte characters only, 6000 bytes", pad, w), vx_dense(w, pad, 6000).into_bytes()));
        }
    }
    v.push(("HTML error page with non-ASCII text, 5 KB".to_string(), format!("<html><head><title>503 \u{2014} Dienst nicht verf\u{fc}gbar</title></head><body>{}</body></html>", "\u{fc}berlastet \u{1f525} ".repeat(250)).into_bytes()));
    v.push(("null".to_string(), b"null".to_vec()));
    v.push(("[]".to_string(), b"[]".to_vec()));
    v.push(("{}".to_string(), b"{}".to_vec()));
    v.push(("a number".to_string(), b"12345678901234567890123456789012345678901234567890".to_vec()));
    v.push(("5000 nested arrays".to_string(), [vec![b'['; 5000], vec![b']'; 5000]].concat()));
    v.push(("5000 nested XML elements".to_string(), ["<a>".repeat(5000), "</a>".repeat(5000)].concat().into_bytes()));
    v.push(("truncated in the middle".to_string(), good.as_bytes()[..good.len() / 2].to_vec()));
    v.push(("XML with an undefined entity and a DOCTYPE".to_string(), b"<?xml version=\"1.0\"?><!DOCTYPE x [<!ENTITY e \"v\">]><GoalState>&nope;&e;</GoalState>".to_vec()));
    v.push(("2 MB of blanks then the well-formed answer".to_string(), [vec![b' '; 2 << 20], good.as_bytes().to_vec()].concat()));
    v
}

fn vx_framings() -> Vec<(&'static str, Fr)> {
    vec![
        ("content-length, one write", Fr::Len),
        ("chunked: first chunk 1 byte, then the rest", Fr::Chunks(vec![1, 1 << 30])),
        ("chunked: one chunk", Fr::Chunks(vec![1 << 30])),
        ("chunked: 2 bytes, 1 byte, then the rest", Fr::Chunks(vec![2, 1, 1 << 30])),
        ("chunked: 3 bytes, then 1 byte chunks of 1,2,3", Fr::Chunks(vec![3, 1, 2, 3])),
        ("chunked: 1 byte per chunk", Fr::Chunks(vec![1])),
        ("content-length, first TCP segment 1 byte", Fr::LenSplit(vec![1, 1 << 30])),
        ("content-length, segments of 3 then 1 then the rest", Fr::LenSplit(vec![3, 1, 1 << 30])),
        ("no framing header, host closes", Fr::UntilClose),
        ("content-length larger than the body, host closes", Fr::LenShort(5)),
        ("chunked, cut inside the first chunk", Fr::ChunkCut),
    ]
}

#[derive(Clone, Copy, Debug, PartialEq)]
enum Drv {
    Status,
    Key,
    Attest,
    Goal,
    Shared,
    Imds,
    Generic,
}

fn vx_drv_route(d: Drv) -> &'static str {
    match d {
        Drv::Status => "status",
        Drv::Key => "key",
        Drv::Attest => "attest",
        Drv::Goal => "goalstate",
        Drv::Shared => "sharedconfig",
        Drv::Imds => "imds",
        Drv::Generic => "other",
    }
}

/// call one public host client against the fake host inside its own task: Ok(short result) or Err(the task died / hangs)
fn vx_call(h: &Harness, d: Drv, port: u16) -> Result<String, String> {
    let kk = h.shared.get_key_keeper_shared_state();
    let r = h.rt.block_on(async move {
        let jh = tokio::spawn(async move {
            let base: hyper::Uri = format!("http://127.0.0.1:{}/", port).parse().unwrap();
            match d {
                Drv::Status => crate::key_keeper::key::get_status(&base).await.map(|s| s.to_string().len()).map_err(|e| e.to_string().len()),
                Drv::Key => crate::key_keeper::key::acquire_key(&base).await.map(|k| k.guid.len()).map_err(|e| e.to_string().len()),
                Drv::Attest => {
                    let mut k = crate::key_keeper::key::Key::empty();
                    k.guid = VX_GUID.to_string();
                    k.key = VX_KEYHEX.to_string();
                    crate::key_keeper::key::attest_key(&base, &k).await.map(|_| 0).map_err(|e| e.to_string().len())
                }
                Drv::Goal => crate::host_clients::wire_server_client::WireServerClient::new("127.0.0.1", port, kk)
                    .get_goalstate()
                    .await
                    .map(|g| g.get_container_id().len() + g.get_shared_config_uri().len())
                    .map_err(|e| e.to_string().len()),
                Drv::Shared => crate::host_clients::wire_server_client::WireServerClient::new("127.0.0.1", port, kk)
                    .get_shared_config(format!("http://127.0.0.1:{}/machine/x?comp=config&type=sharedConfig&incarnation=1", port))
                    .await
                    .map(|c| c.get_role_name().len() + c.get_deployment_name().len() + c.get_role_instance_name().len())
                    .map_err(|e| e.to_string().len()),
                Drv::Imds => crate::host_clients::imds_client::ImdsClient::new("127.0.0.1", port, kk)
                    .get_imds_instance_info()
                    .await
                    .map(|i| i.get_vm_id().len() + i.get_subscription_id().len() + i.get_image_origin() as usize)
                    .map_err(|e| e.to_string().len()),
                Drv::Generic => {
                    let url: hyper::Uri = format!("http://127.0.0.1:{}/vx-generic?a=1", port).parse().unwrap();
                    crate::common::hyper_client::get::<serde_json::Value, _>(&url, &HashMap::new(), None, None, |_| {}).await.map(|v| v.to_string().len()).map_err(|e| e.to_string().len())
                }
            }
        });
        tokio::time::timeout(Duration::from_secs(8), jh).await
    });
    match r {
        Ok(Ok(Ok(n))) => Ok(format!("Ok({})", n)),
        Ok(Ok(Err(n))) => Ok(format!("Err(message of {} bytes)", n)),
        Ok(Err(e)) => Err(format!("the task calling the client died: {}", e)),
        Err(_) => Err("the client did not return within 8 s".to_string()),
    }
}

fn phase_host_replies(t: &mut T, bg: &mut Bg) {
    let hr = RawHost::start();
    let good_status = vx_status_json("1.0", Some("Wireserver"), None, Some(VX_GUID), None);
    let good_key = vx_key_json(VX_GUID, VX_KEYHEX);
    let good_goal = vx_goalstate_xml(&format!("http://127.0.0.1:{}/machine/x?comp=config&amp;type=sharedConfig", hr.port));
    // reference: the well-formed answers are understood
    for d in [Drv::Status, Drv::Key, Drv::Attest, Drv::Goal, Drv::Shared, Drv::Imds, Drv::Generic] {
        if d == Drv::Generic {
            hr.push("other", vx_ok("application/json", b"{\"a\":1}"));
        }
        let r = vx_call(&bg.h, d, hr.port);
        let mut problems = Vec::new();
        match &r {
            Ok(s) if s.starts_with("Ok") => {}
            other => println!("VXW-NOTE C13: reference call {:?} against the benign fake host gives {:?}", d, other),
        }
        if let Err(e) = r {
            problems.push(e);
        }
        t.close("host reply", serde_json::json!({"client": format!("{:?}", d), "host_reply": "benign default"}), problems);
    }

    let cts = vx_content_types();
    let frs = vx_framings();
    let drivers: Vec<(Drv, String)> = vec![(Drv::Status, good_status.clone()), (Drv::Key, good_key.clone()), (Drv::Goal, good_goal.clone()), (Drv::Shared, VX_SHAREDCONFIG_XML.to_string()), (Drv::Imds, VX_IMDS_JSON.to_string()), (Drv::Generic, good_status.clone())];
    for (d, good) in drivers.iter() {
        let bodies = vx_bodies(good);
        for (ci, (cname, ct)) in cts.iter().enumerate() {
            for (bi, (bname, body)) in bodies.iter().enumerate() {
                for (fi, (fname, fr)) in frs.iter().enumerate() {
                    // full product for the key status client; for the other clients every content type x body with two framings
                    // and every framing x body with the four content types that select a decoder
                    let decoder_ct = matches!(*cname, "absent" | "application/json; charset=utf-16" | "text/xml; charset=utf-16" | "application/json; charset=utf-8");
                    let utf16_first_byte_alone = cname.contains("charset=utf-16") && fi == 1;
                    let keep = if *d == Drv::Status {
                        utf16_first_byte_alone || (fi < 2 && (ci + bi) % 3 == 0) || (decoder_ct && (bi + fi) % 4 == 0) || (ci + 2 * bi + 3 * fi) % 19 == 0
                    } else {
                        utf16_first_byte_alone || (fi < 2 && (ci + bi) % 9 == 0) || (decoder_ct && (bi + 2 * fi) % 13 == 0)
                    };
                    if !keep || t.tripped("host reply") {
                        continue;
                    }
                    if *d == Drv::Generic && cname.contains("xml") {
                        continue; // an untyped value is only requested as JSON
                    }
                    if body.len() > 100000 && !matches!(fr, Fr::Len | Fr::UntilClose) {
                        continue;
                    }
                    if body.len() > 4000 && matches!(fr, Fr::LenSplit(_)) && fi != 6 {
                        continue;
                    }
                    if body.len() > 20000 && matches!(fr, Fr::Chunks(ref s) if s.iter().all(|n| *n < 10)) {
                        continue;
                    }
                    let mut hs: Vec<(&str, Vec<u8>)> = Vec::new();
                    if let Some(c) = ct {
                        hs.push(("content-type", c.clone()));
                    }
                    hr.clear_oneshot();
                    hr.push(vx_drv_route(*d), vx_reply("HTTP/1.1 200 OK", &hs, fr, body));
                    let r = vx_call(&bg.h, *d, hr.port);
                    let mut problems = Vec::new();
                    if let Err(e) = &r {
                        problems.push(e.clone());
                    }
                    t.close("host reply", serde_json::json!({"client": format!("{:?}", d), "host_reply": {"status": 200, "content_type": cname, "body": bname, "body_bytes": vx_abbr(body), "framing": fname}, "client_result": r.unwrap_or_default()}), problems);
                }
            }
        }
    }
    // statuses, missing / odd headers, lost replies, for every client
    let dense = vx_dense(3, 1, 6000).into_bytes();
    let mut odd: Vec<(String, Script, bool)> = Vec::new();
    for status in ["HTTP/1.1 204 No Content", "HTTP/1.1 301 Moved Permanently", "HTTP/1.1 400 Bad Request", "HTTP/1.1 403 Forbidden", "HTTP/1.1 404 Not Found", "HTTP/1.1 410 Gone", "HTTP/1.1 429 Too Many Requests", "HTTP/1.1 500 Internal Server Error", "HTTP/1.1 503 \u{fc}berlastet", "HTTP/1.1 299 Odd", "HTTP/1.1 200"] {
        for (cname, ct) in [("absent", None), ("text/html; charset=utf-16", Some(b"text/html; charset=utf-16".to_vec()))] {
            let mut hs: Vec<(&str, Vec<u8>)> = vec![("location", "http://127.0.0.1:1/\u{e9}".as_bytes().to_vec()), ("retry-after", b"\xff".to_vec())];
            if let Some(c) = ct {
                hs.push(("content-type", c));
            }
            if status.contains("204") {
                odd.push((format!("{} | no body", status), vx_reply(status, &hs, &Fr::NoHeader, b""), false));
            } else {
                odd.push((format!("{} | content-type {} | 6 KB of 3-byte characters, first chunk 1 byte", status, cname), vx_reply(status, &hs, &Fr::Chunks(vec![1, 1 << 30]), &dense), false));
            }
        }
    }
    for (what, sc, _) in vx_upstream_scripts().into_iter().filter(|(w, _, _)| !w.starts_with("HTTP/1.") || w.contains("999") || w.contains("1.0 200")) {
        odd.push((what, sc, false));
    }
    for (what, sc, _) in odd.iter() {
        for d in [Drv::Status, Drv::Key, Drv::Attest, Drv::Goal, Drv::Shared, Drv::Imds, Drv::Generic] {
            if t.tripped("host reply") {
                continue;
            }
            hr.clear_oneshot();
            if what.contains("without reading") {
                hr.drop_next_accepts(1);
            } else {
                hr.push(vx_drv_route(d), sc.clone());
            }
            let r = vx_call(&bg.h, d, hr.port);
            hr.drop_next_accepts(0);
            let mut problems = Vec::new();
            if let Err(e) = &r {
                problems.push(e.clone());
            }
            t.close("host reply", serde_json::json!({"client": format!("{:?}", d), "host_reply": what, "client_result": r.unwrap_or_default()}), problems);
        }
    }
    // goal states whose structure is unusual (the telemetry reader takes the shared-config address from it)
    let goals: Vec<(&str, String)> = vec![
        ("empty RoleInstanceList", good_goal.replace(&good_goal[good_goal.find("<RoleInstance>").unwrap()..good_goal.find("</RoleInstanceList>").unwrap()], "")),
        ("two RoleInstance entries", good_goal.replace("</RoleInstance>", "</RoleInstance><RoleInstance><InstanceId>b</InstanceId><State>S</State><Configuration><HostingEnvironmentConfig>h</HostingEnvironmentConfig><SharedConfig>\u{e9}</SharedConfig><ExtensionsConfig>x</ExtensionsConfig><FullConfig>f</FullConfig><Certificates>c</Certificates><ConfigName>n</ConfigName></Configuration></RoleInstance>")),
        ("SharedConfig address empty", good_goal.replace(&format!("http://127.0.0.1:{}/machine/x?comp=config&amp;type=sharedConfig", hr.port), "")),
        ("SharedConfig address with non-ASCII and blanks", good_goal.replace(&format!("http://127.0.0.1:{}/machine/x?comp=config&amp;type=sharedConfig", hr.port), "http://\u{e9}\u{20ac} host/a b?type=sharedConfig")),
        ("SharedConfig address relative", good_goal.replace(&format!("http://127.0.0.1:{}/machine/x?comp=config&amp;type=sharedConfig", hr.port), "/machine/x?type=sharedConfig")),
        ("Incarnation not a number", good_goal.replace("<Incarnation>16</Incarnation>", "<Incarnation>\u{663}</Incarnation>")),
        ("LBProbePorts port out of range", good_goal.replace("<Port>16001</Port>", "<Port>70000</Port><Port>-1</Port>")),
        ("ContainerId of 5000 3-byte characters", good_goal.replace("374188df-b0a2-456a-a7b2-83f28b18d36f", &vx_dense(3, 0, 15000))),
    ];
    // a telemetry reader of its own (empty event folder, hence no backlog) that refreshes the VM meta data from this host
    let rdir = bg.root.join("events2");
    let _ = std::fs::create_dir_all(&rdir);
    let mk_reader = |bg: &Bg| {
        let reader = crate::telemetry::event_reader::EventReader::new(rdir.clone(), false, bg.h.shared.get_cancellation_token(), bg.h.shared.get_key_keeper_shared_state(), bg.h.shared.get_telemetry_shared_state(), bg.h.shared.get_agent_status_shared_state());
        let port = hr.port;
        bg.h.rt.spawn(async move { reader.start(Some(Duration::from_millis(15)), Some("127.0.0.1"), Some(port)).await })
    };
    let mut reader2 = mk_reader(bg);
    for (what, xml) in goals.iter() {
        hr.clear_oneshot();
        hr.push("goalstate", vx_ok("text/xml; charset=utf-8", xml.as_bytes()));
        let r = vx_call(&bg.h, Drv::Goal, hr.port);
        // and through the telemetry reader task: the next goal state it fetches is this one
        hr.push("goalstate", vx_ok("text/xml; charset=utf-8", xml.as_bytes()));
        let c = hr.done("goalstate");
        let mut problems = Vec::new();
        if !hr.wait_done("goalstate", c + 1, Duration::from_secs(4)) {
            problems.push("the telemetry reader did not fetch a goal state within 4 s".to_string());
        }
        let c = hr.count("goalstate");
        if !hr.wait_count("goalstate", c + 1, Duration::from_secs(4)) {
            problems.push(format!("the telemetry reader did not fetch another goal state within 4 s after this one (task finished: {})", reader2.is_finished()));
            reader2.abort();
            reader2 = mk_reader(bg);
        }
        if let Err(e) = &r {
            problems.push(e.clone());
        }
        t.close("host reply", serde_json::json!({"client": "WireServerClient::get_goalstate and the telemetry reader task (EventReader::start)", "goal_state": what, "client_result": r.unwrap_or_default()}), problems);
    }
    reader2.abort();
    let p = bg.alive();
    t.close("background tasks after the host reply enumeration", serde_json::json!({"history": "after the host reply enumeration"}), p);
}

// ------------------------------------------------------------------------------------------------ the real key keeper loop
fn vx_kk_round(t: &mut T, bg: &mut Bg, what: serde_json::Value, status: Script, key: Option<Script>, attest: Option<Script>, check_handler: bool) {
    if t.tripped("key keeper") {
        return;
    }
    let wait = Duration::from_secs(5);
    bg.wire.clear_oneshot();
    let mut problems = Vec::new();
    let c = bg.wire.done("status");
    bg.wire.push("status", status);
    if let Some(k) = key {
        bg.wire.set_sticky("key", Some(k));
    }
    if let Some(a) = attest {
        bg.wire.set_sticky("attest", Some(a));
    }
    bg.notify();
    let mut dead = false;
    if !bg.wire.wait_done("status", c + 1, wait) {
        problems.push("the key keeper did not poll the secure channel status within 5 s".to_string());
        dead = true;
    } else {
        // the reply has been written; the next poll (benign reply) can only start once the loop has digested this one
        let k = bg.wire.count("status");
        // what the agent publishes meanwhile
        let st = bg.h.shared.get_agent_status_shared_state();
        let pubd = bg.h.rt.block_on(async {
            let jh = tokio::spawn(async move {
                let mut n = 0;
                for _ in 0..3 {
                    for m in [AgentStatusModule::KeyKeeper, AgentStatusModule::ProxyAgentStatus, AgentStatusModule::TelemetryLogger] {
                        n += st.get_module_status(m).await.message.len();
                    }
                    tokio::time::sleep(Duration::from_millis(2)).await;
                }
                n
            });
            tokio::time::timeout(Duration::from_secs(8), jh).await
        });
        match pubd {
            Ok(Ok(_)) => {}
            Ok(Err(e)) => problems.push(format!("reading the published module status died: {}", e)),
            Err(_) => problems.push("reading the published module status hangs".to_string()),
        }
        if check_handler {
            // a request to IMDS / WireServer under the rules the host just sent
            for (ip, port) in [(IMDS_IP, 80u16), ("168.63.129.16", 80), ("168.63.129.16", 32526)] {
                let attr = Attribution::full(port != 80 || ip != IMDS_IP, ip, port);
                let conn = bg.h.connect_with(&bg.h.ps, &attr);
                let Conn { mut client, task } = conn;
                client.send(vx_raw_request(b"GET", "/machine/\u{0061}?comp=goalstate&K\u{0041}=v".as_bytes(), "HTTP/1.1", &[hb("Host", ip.as_bytes()), hb("Metadata", b"true")], &RawBody::None));
                let out = vx_recv_head(&mut client, Duration::from_secs(6));
                client.close();
                let _ = bg.h.rt.block_on(async { tokio::time::timeout(Duration::from_secs(6), task).await });
                vx_expect_response(true, &out, &mut problems);
            }
        }
        bg.notify();
        if !bg.wire.wait_count("status", k + 1, wait) {
            problems.push(format!("the key keeper does not poll any more after this reply (5 s; task finished: {:?})", bg.kk.as_ref().map(|x| x.is_finished())));
            dead = true;
        }
    }
    bg.wire.clear_oneshot();
    bg.wire.set_sticky("key", None);
    bg.wire.set_sticky("attest", None);
    if dead {
        if let Some(k) = bg.kk.take() {
            k.abort();
        }
        bg.start_key_keeper();
        let c = bg.wire.count("status");
        bg.wire.wait_count("status", c + 1, wait);
    }
    t.close("key keeper", what, problems);
}

fn vx_rules_doc(mode: &str, id: &str, name: &str, n: usize) -> serde_json::Value {
    let privileges: Vec<serde_json::Value> = (0..n).map(|i| serde_json::json!({"name": format!("{}{}", name, i), "path": format!("/machine/{}", if i % 2 == 0 { "a" } else { name }), "queryParameters": {"comp": "goalstate", name: name}})).collect();
    let item = serde_json::json!({"defaultAccess": if n % 2 == 0 { "deny" } else { "allow" }, "mode": mode, "id": id, "rules": {
        "privileges": privileges,
        "roles": [{"name": name, "privileges": [format!("{}0", name), "missing", format!("{}0", name)]}, {"name": name, "privileges": []}],
        "identities": [{"name": name, "userName": name, "groupName": name, "exePath": name, "processName": name}, {"name": "i2"}],
        "roleAssignments": [{"role": name, "identities": [name, "missing", "i2"]}, {"role": "missing", "identities": [name]}]}});
    serde_json::json!({"imds": item.clone(), "wireserver": item.clone(), "hostga": item})
}

fn phase_key_keeper(t: &mut T, bg: &mut Bg) {
    let j = |s: String| vx_ok("application/json; charset=utf-8", s.as_bytes());
    // ---- replies that are not a key status
    let good = vx_status_json("1.0", Some("Wireserver"), None, None, None);
    let bodies = vx_bodies(&good);
    let cts = vx_content_types();
    let frs = vx_framings();
    let mut i = 0usize;
    for (bi, (bname, body)) in bodies.iter().enumerate() {
        if body.len() > 100000 {
            continue;
        }
        for (ci, (cname, ct)) in cts.iter().enumerate() {
            for (fi, (fname, fr)) in frs.iter().enumerate() {
                // every body with the four decoder-selecting content types and the first-chunk-of-1-byte framing; the rest sampled
                let decoder_ct = matches!(*cname, "absent" | "application/json; charset=utf-16" | "text/xml; charset=utf-16" | "application/json; charset=utf-8");
                let keep = (decoder_ct && fi == 1) || (ci + 2 * bi + 3 * fi) % 17 == 0;
                if !keep || (body.len() > 4000 && matches!(fr, Fr::LenSplit(_) | Fr::Chunks(_)) && fi != 1 && fi != 2) {
                    continue;
                }
                i += 1;
                let mut hs: Vec<(&str, Vec<u8>)> = Vec::new();
                if let Some(c) = ct {
                    hs.push(("content-type", c.clone()));
                }
                vx_kk_round(t, bg, serde_json::json!({"task": "real KeyKeeper::poll_secure_channel_status loop", "reply_to": "GET /secure-channel/status", "host_reply": {"status": 200, "content_type": cname, "body": bname, "body_bytes": vx_abbr(body), "framing": fname}}),
                    vx_reply("HTTP/1.1 200 OK", &hs, fr, body), None, None, false);
            }
        }
    }
    for (what, sc, _) in vx_upstream_scripts().into_iter().filter(|(w, _, _)| !w.starts_with("HTTP/1.1 200 OK |") && !w.starts_with("HTTP/1.1 500") && !w.contains("without reading")).step_by(2) {
        vx_kk_round(t, bg, serde_json::json!({"task": "real KeyKeeper::poll_secure_channel_status loop", "reply_to": "GET /secure-channel/status", "host_reply": what}), sc, None, None, false);
    }
    let p = bg.alive();
    t.close("background tasks during the key keeper enumeration", serde_json::json!({"history": "after the unparseable status replies"}), p);

    // ---- key status documents
    let mb = "\u{e9}\u{20ac}\u{1f600}";
    let long_id = vx_dense(3, 1, 3000);
    let mut docs: Vec<(String, String)> = Vec::new();
    for state in [Some("Disabled"), Some("Wireserver"), Some("WireserverAndImds"), Some("WIRESERVER"), Some("Unknown"), Some(""), Some(mb), None] {
        docs.push((format!("version 1.0, secureChannelState {:?}, no key id", state), vx_status_json("1.0", state, None, None, None)));
    }
    for guid in [VX_GUID, "another-guid", "../x", "a/b", "", " ", "line\nbreak", "nul\u{0}", mb, long_id.as_str(), "CON", "."] {
        docs.push((format!("version 1.0, Wireserver, key id <{}>", vx_abbr(guid.as_bytes())), vx_status_json("1.0", Some("Wireserver"), None, Some(guid), None)));
    }
    for (enabled, rules) in [(Some(true), None), (Some(false), None), (None, None), (Some(true), Some(vx_rules_doc("enforce", "sigid", "p", 2))), (Some(true), Some(vx_rules_doc("audit", &long_id, mb, 3))), (Some(true), Some(vx_rules_doc(mb, "", "", 1))),
        (Some(true), Some(vx_rules_doc("Enforce", "id2", &vx_dense(4, 3, 1500), 40))), (Some(true), Some(serde_json::json!({}))), (Some(true), Some(serde_json::json!({"imds": {"defaultAccess": mb, "mode": "ENFORCE", "id": mb}}))),
        (Some(true), Some(serde_json::json!({"wireserver": {"defaultAccess": "deny", "mode": "enforce", "id": "x", "rules": {"privileges": [], "roles": [], "identities": [], "roleAssignments": []}}})))] {
        docs.push((format!("version 2.0, secureChannelEnabled {:?}, authorizationRules {}", enabled, rules.as_ref().map(|r| vx_abbr(r.to_string().as_bytes())).unwrap_or_else(|| "absent".to_string())), vx_status_json("2.0", None, enabled, None, rules)));
    }
    docs.push(("version 3.0".to_string(), vx_status_json("3.0", Some("Wireserver"), Some(true), None, None)));
    docs.push(("version of 3-byte characters".to_string(), vx_status_json(&long_id, Some("Wireserver"), Some(true), None, None)));
    docs.push(("version 1.0 with secureChannelEnabled only".to_string(), vx_status_json("1.0", None, Some(true), None, None)));
    for (what, patch) in [("keyGuid a number", ("\"keyGuid\":null", "\"keyGuid\":5")), ("version a number", ("\"version\":\"1.0\"", "\"version\":1.0")), ("keyIncarnationId -1", ("\"version\"", "\"keyIncarnationId\":-1,\"version\"")), ("keyIncarnationId 4294967296", ("\"version\"", "\"keyIncarnationId\":4294967296,\"version\"")),
        ("keyIncarnationId 4294967295", ("\"version\"", "\"keyIncarnationId\":4294967295,\"version\"")), ("authorizationScheme of 3-byte characters", ("Azure-HMAC-SHA256", long_id.as_str())), ("keyDeliveryMethod of 2/3/4-byte characters", ("\"http\"", "\"\u{e9}\u{20ac}\u{1f600}\"")), ("requiredClaimsHeaderPairs with odd entries", ("\"requiredClaimsHeaderPairs\":null", "\"requiredClaimsHeaderPairs\":[\"\",\"\u{e9}\",\"a:b\"]")),
        ("unknown extra members, duplicated member", ("\"version\"", "\"x\":{\"y\":[1,2,{}]},\"keyGuid\":\"dup\",\"version\""))] {
        docs.push((what.to_string(), vx_status_json("1.0", Some("Wireserver"), None, None, None).replace(patch.0, patch.1)));
    }
    for (what, doc) in docs.iter() {
        for (fname, fr) in [("content-length", Fr::Len), ("chunked, first chunk 1 byte", Fr::Chunks(vec![1, 1 << 30]))] {
            vx_kk_round(t, bg, serde_json::json!({"task": "real KeyKeeper::poll_secure_channel_status loop", "reply_to": "GET /secure-channel/status", "key_status": what, "framing": fname, "then": "default key / attestation replies; three handler requests under the rules just received"}),
                vx_reply("HTTP/1.1 200 OK", &[("content-type", b"application/json; charset=utf-8".to_vec())], &fr, doc.as_bytes()), None, None, fname == "content-length");
        }
    }
    // ---- replies to the key request and to the attestation, for a status that asks for a key
    let asks = vx_status_json("1.0", Some("Wireserver"), None, None, None);
    let dense = vx_dense(3, 2, 6000);
    let key_replies: Vec<(&str, Script)> = vec![
        ("well-formed key", j(vx_key_json(VX_GUID, VX_KEYHEX))),
        ("key id ../k", j(vx_key_json("../k", VX_KEYHEX))),
        ("key id of 3-byte characters, 3000 bytes", j(vx_key_json(&long_id, VX_KEYHEX))),
        ("key id with blanks, quotes and a line break", j(vx_key_json("a b\"c\n", VX_KEYHEX))),
        ("key id empty", j(vx_key_json("", VX_KEYHEX))),
        ("key not hexadecimal (multi-byte)", j(vx_key_json(VX_GUID, mb))),
        ("key of odd length", j(vx_key_json(VX_GUID, "ABC"))),
        ("key empty", j(vx_key_json(VX_GUID, ""))),
        ("incarnationId negative", j(vx_key_json(VX_GUID, VX_KEYHEX).replace("\"incarnationId\":1", "\"incarnationId\":-7"))),
        ("UTF-16 key document of odd length, first chunk 1 byte", vx_reply("HTTP/1.1 200 OK", &[("content-type", b"application/json; charset=utf-16".to_vec())], &Fr::Chunks(vec![1, 1 << 30]), &{ let mut b = vx_utf16le(&vx_key_json(VX_GUID, VX_KEYHEX), true); b.pop(); b })),
        ("200 with 6 KB of 3-byte characters", vx_ok("text/html", dense.as_bytes())),
        ("500 with 6 KB of 3-byte characters", vx_reply("HTTP/1.1 500 Internal Server Error", &[], &Fr::Len, dense.as_bytes())),
        ("empty 200", vx_ok("application/json", b"")),
        ("connection closed without a reply", vec![Step::P(1), Step::Close]),
    ];
    let attest_replies: Vec<(&str, Script)> = vec![
        ("200", vx_ok("text/plain", b"")),
        ("403 with 6 KB of 3-byte characters", vx_reply("HTTP/1.1 403 Forbidden", &[("content-type", b"text/html; charset=utf-16".to_vec())], &Fr::Chunks(vec![1, 1 << 30]), dense.as_bytes())),
        ("connection closed without a reply", vec![Step::P(1), Step::Close]),
        ("garbage", vec![Step::W(b"\xff\xfe\x00garbage\r\n\r\n".to_vec()), Step::P(1), Step::Close]),
    ];
    for (kname, ks) in key_replies.iter() {
        for (aname, asr) in attest_replies.iter() {
            if *aname != "200" && !(kname.starts_with("well-formed") || kname.contains("../k") || kname.contains("3000")) {
                continue;
            }
            vx_kk_round(t, bg, serde_json::json!({"task": "real KeyKeeper::poll_secure_channel_status loop", "key_status": "version 1.0, Wireserver, no key id (the agent asks for a key)", "reply_to_POST_/secure-channel/key": kname, "reply_to_key-attestation": aname}),
                j(asks.clone()), Some(ks.clone()), Some(asr.clone()), false);
        }
    }
    let p = bg.alive();
    t.close("background tasks after the key keeper enumeration", serde_json::json!({"history": "after the key status / key / attestation replies"}), p);
}

// ------------------------------------------------------------------------------------------------ provisioning
fn vx_plain_get(port: u16, target: &str, headers: &[Hdr]) -> Out {
    let mut out = Out { status: None, head: Vec::new(), err: String::new() };
    match std::net::TcpStream::connect(("127.0.0.1", port)) {
        Ok(s) => {
            let mut c = RawClient { s, buf: Vec::new(), writers: Vec::new() };
            c.send(vx_raw_request(b"GET", target.as_bytes(), "HTTP/1.1", headers, &RawBody::None));
            out = vx_recv_head(&mut c, Duration::from_secs(6));
            // the rest of a content-length body
            let he = vx_find(&c.buf, b"\r\n\r\n", 0);
            if let (Some(he), Some(_)) = (he, out.status) {
                let (_, hs) = vx_parse_head(&c.buf[..he]);
                if let Framing::Len(n) = vx_framing(&hs, true) {
                    let mut tmp = vec![0u8; 65536];
                    while c.buf.len() < he + 4 + n {
                        match c.s.read(&mut tmp) {
                            Ok(0) | Err(_) => break,
                            Ok(k) => c.buf.extend_from_slice(&tmp[..k]),
                        }
                    }
                    out.head = c.buf.clone();
                }
            }
            c.close();
        }
        Err(e) => out.err = format!("connect: {}", e),
    }
    out
}

fn phase_provision(t: &mut T, bg: &mut Bg) {
    // the real accept loop on an ephemeral port
    let port = {
        let l = std::net::TcpListener::bind("127.0.0.1:0").expect("bind");
        l.local_addr().unwrap().port()
    };
    let ps = ProxyServer::new(port, &bg.h.shared);
    let listener = bg.h.rt.spawn(async move { ps.start().await });
    let mut up = false;
    for _ in 0..200 {
        if std::net::TcpStream::connect(("127.0.0.1", port)).is_ok() {
            up = true;
            break;
        }
        std::thread::sleep(Duration::from_millis(10));
    }
    let mut dir = bg.root.clone();
    dir.push("provision");
    let st = bg.h.shared.get_agent_status_shared_state();
    let prov = bg.h.shared.get_provision_shared_state();
    let kks = bg.h.shared.get_key_keeper_shared_state();
    let meta = hb("Metadata", b"true");
    let texts = vx_boundary_strings(&[1024], 2);
    let mut texts: Vec<(String, String)> = texts.into_iter().filter(|(w, _)| !w.contains("1 MiB")).collect();
    for w in [2usize, 3, 4] {
        for pad in 0..w {
            texts.push((format!("{} ASCII bytes + ('&' + {}-byte character) x 700 (markup characters are escaped in the provisioning text)", pad, w), format!("{}{}", "a".repeat(pad), format!("&{}", vx_mb(w)).repeat(700))));
            texts.push((format!("{} ASCII bytes + ('\"<' + {}-byte character) x 500", pad, w), format!("{}{}", "a".repeat(pad), format!("\"<{}", vx_mb(w)).repeat(500))));
        }
    }
    for (i, (what, s)) in texts.iter().enumerate() {
        if t.tripped("provisioning") {
            break;
        }
        let mut problems = Vec::new();
        // the key keeper publishes the host's text itself: the fake wire server answers the status poll with it
        bg.wire.set_sticky("status", Some(vx_ok("application/json", s.as_bytes())));
        let (st2, prov2, kks2, s2, dir2) = (st.clone(), prov.clone(), kks.clone(), s.clone(), dir.clone());
        let r = bg.h.rt.block_on(async move {
            let jh = tokio::spawn(async move {
                let _ = st2.set_module_status_message(s2.clone(), AgentStatusModule::Redirector).await;
                let _ = st2.set_module_status_message(s2.clone(), AgentStatusModule::ProxyServer).await;
                crate::provision::key_latch_ready_state_reset(prov2.clone()).await;
                let _ = prov2.reset_one_state(crate::provision::ProvisionFlags::LISTENER_READY).await;
                let a = crate::provision::get_provision_state_internal(prov2.clone(), st2.clone(), kks2.clone()).await;
                crate::provision::provision_timeup(Some(dir2), prov2.clone(), st2.clone()).await;
                a.error_message.len()
            });
            tokio::time::timeout(Duration::from_secs(10), jh).await
        });
        match r {
            Ok(Ok(n)) => {
                if n == 0 {
                    problems.push("no subsystem is ready, yet the provisioning error text is empty".to_string());
                }
            }
            Ok(Err(e)) => problems.push(format!("the provisioning task died: {}", e)),
            Err(_) => problems.push("the provisioning functions hang".to_string()),
        }
        if i % 3 == 0 || what.contains("characters only") || what.contains("x 700") || what.contains("x 500") {
            bg.notify();
            std::thread::sleep(Duration::from_millis(3));
        }
        // the provisioning query through the real listener
        if up {
            let out = vx_plain_get(port, "/provision", &[meta.clone(), hb("x-ms-azure-time_tick", b"0"), hb("x-ms-azure-notify", b"true")]);
            vx_expect_response(true, &out, &mut problems);
            if out.status == Some(200) {
                let he = vx_find(&out.head, b"\r\n\r\n", 0).unwrap_or(0);
                match serde_json::from_slice::<serde_json::Value>(&out.head[he + 4..]) {
                    Ok(v) if v.get("finished").is_some() && v.get("errorMessage").is_some() => {}
                    other => problems.push(format!("the provisioning answer is not the status document: {:?} [{}]", other.map(|v| v.to_string().len()), vx_abbr(&out.head[he..]))),
                }
            } else if out.status.is_some() {
                problems.push(format!("the provisioning query is answered with status {:?}", out.status));
            }
        }
        if !dir.join("status.tag").exists() {
            problems.push("the provisioning deadline handler did not publish status.tag".to_string());
        }
        let _ = std::fs::remove_file(dir.join("status.tag"));
        t.close("provisioning", serde_json::json!({"status_text_of_redirector_listener_and_key_keeper (the latter as host reply)": what, "calls": "key_latch_ready_state_reset, get_provision_state_internal, provision_timeup, GET /provision through the real ProxyServer::start listener"}), problems);
    }
    bg.wire.set_sticky("status", None);
    // reaching the fully provisioned state, in the order a start-up produces
    let (st2, prov2, kks2) = (st.clone(), prov.clone(), kks.clone());
    let tel = bg.h.shared.get_telemetry_shared_state();
    let tok = bg.h.shared.get_cancellation_token();
    let r = bg.h.rt.block_on(async move {
        let jh = tokio::spawn(async move {
            crate::provision::redirector_ready(tok.clone(), kks2.clone(), tel.clone(), prov2.clone(), st2.clone()).await;
            crate::provision::listener_started(tok.clone(), kks2.clone(), tel.clone(), prov2.clone(), st2.clone()).await;
            crate::provision::key_latched(tok.clone(), kks2.clone(), tel.clone(), prov2.clone(), st2.clone()).await;
            crate::provision::get_provision_state_internal(prov2, st2, kks2).await.finished_time_tick
        });
        tokio::time::timeout(Duration::from_secs(10), jh).await
    });
    let mut problems = Vec::new();
    match r {
        Ok(Ok(tick)) => {
            if tick == 0 {
                problems.push("all three subsystems reported ready, the finish tick is 0".to_string());
            }
        }
        Ok(Err(e)) => problems.push(format!("the provisioning task died: {}", e)),
        Err(_) => problems.push("the provisioning functions hang".to_string()),
    }
    t.close("provisioning", serde_json::json!({"history": "redirector_ready, listener_started, key_latched after the status texts above"}), problems);

    // direct connections to the real listener (no redirection record): every request is answered
    if up {
        for (target, hs) in [("/", vec![]), ("/metadata/instance", vec![meta.clone()]), ("/a/../b", vec![]), ("/provision", vec![]), ("/provision", vec![hb("Metadata", b"\xff")]), ("/provision", vec![meta.clone(), hb("x-ms-azure-time_tick", b"\xe2\x82\xac")]),
            ("/provision?x", vec![meta.clone()]), ("/Provision", vec![meta.clone()])] {
            let mut all = vec![hb("Host", b"127.0.0.1")];
            all.extend(hs);
            let out = vx_plain_get(port, target, &all);
            let mut problems = Vec::new();
            vx_expect_response(true, &out, &mut problems);
            t.close("real listener", serde_json::json!({"path": "real ProxyServer::start accept loop, direct connection", "request": format!("GET {}", target), "headers": all.iter().map(|(n, v)| format!("{}: {}", vx_abbr(n), vx_abbr(v))).collect::<Vec<_>>()}), problems);
        }
        for c in vx_request_cases().into_iter().step_by(9) {
            if c.wire.len() > 300000 || t.tripped("real listener") {
                continue;
            }
            let mut out = Out { status: None, head: Vec::new(), err: String::new() };
            if let Ok(s) = std::net::TcpStream::connect(("127.0.0.1", port)) {
                let mut cl = RawClient { s, buf: Vec::new(), writers: Vec::new() };
                cl.send(c.wire.clone());
                if c.shutdown_write {
                    for w in cl.writers.drain(..) {
                        let _ = w.join();
                    }
                    let _ = cl.s.shutdown(std::net::Shutdown::Write);
                }
                out = vx_recv_head(&mut cl, Duration::from_secs(6));
                cl.close();
            }
            let mut problems = Vec::new();
            vx_expect_response(c.valid, &out, &mut problems);
            let probe = vx_plain_get(port, "/provision", &[meta.clone()]);
            if probe.status != Some(200) {
                problems.push(format!("a later provisioning query through the real listener gets {:?} {}", probe.status, probe.err));
            }
            t.close("real listener", serde_json::json!({"path": "real ProxyServer::start accept loop, direct connection", "request": c.what, "syntactically_valid": c.valid}), problems);
        }
        if listener.is_finished() {
            t.close("real listener", serde_json::json!({"history": "after the enumeration"}), vec!["the accept loop task has ended".to_string()]);
        }
    } else {
        t.close("real listener", serde_json::json!({"history": "ProxyServer::start on an ephemeral loopback port"}), vec!["the real listener did not come up within 2 s".to_string()]);
    }
    let p = bg.alive();
    t.close("background tasks after the provisioning enumeration", serde_json::json!({"history": "after the provisioning enumeration"}), p);
}

// ------------------------------------------------------------------------------------------------ late notification
/// A notification that reaches the poll loop when its sleep is already over (the process was not scheduled for longer than the
/// rest of the interval: suspended VM, overloaded machine). Current-thread runtime driven only from this thread, so that the
/// pause is exact: nothing of the agent runs while this thread sleeps.
fn phase_late_notify(t: &mut T) {
    let interval = Duration::from_millis(60);
    let mut bg = Bg::start("late", false, interval, false);
    let latched = vx_status_json("1.0", Some("Wireserver"), None, Some(VX_GUID), None);
    bg.wire.set_sticky("status", Some(vx_ok("application/json; charset=utf-8", latched.as_bytes())));
    let kk = bg.h.shared.get_key_keeper_shared_state();
    // until the key is latched
    let mut ok = false;
    for _ in 0..400 {
        let kk2 = kk.clone();
        let state = bg.h.rt.block_on(async move {
            tokio::time::sleep(Duration::from_millis(10)).await;
            kk2.get_current_secure_channel_state().await.unwrap_or_default()
        });
        if state == "wireserver" {
            ok = true;
            break;
        }
    }
    if !ok {
        t.close("late notification", serde_json::json!({"history": "key keeper against a host that latches a key (version 1.0, Wireserver)"}), vec!["the secure channel state did not become 'wireserver' within 4 s".to_string()]);
        return;
    }
    let notify = bg.h.rt.block_on(async { kk.get_notify().await });
    let notify = match notify {
        Ok(n) => n,
        Err(e) => {
            t.close("late notification", serde_json::json!({"history": "get_notify"}), vec![format!("get_notify: {}", e)]);
            return;
        }
    };
    for (i, extra) in [25u64, 1, 5, 60, 200, 25, 25, 25, 2, 25, 25, 25].iter().enumerate() {
        // let the loop digest a poll and go to sleep
        let c = bg.wire.done("status");
        let t0 = std::time::Instant::now();
        while bg.wire.done("status") <= c && t0.elapsed() < Duration::from_secs(3) {
            bg.h.rt.block_on(async { tokio::time::sleep(Duration::from_millis(2)).await });
        }
        bg.h.rt.block_on(async { tokio::time::sleep(Duration::from_millis(8)).await });
        // the process does not run for longer than the interval; the notification arrives at the end of the pause
        std::thread::sleep(interval + Duration::from_millis(*extra));
        notify.notify_one();
        // the agent runs again
        let c = bg.wire.count("status");
        let t0 = std::time::Instant::now();
        let mut polled = false;
        while t0.elapsed() < Duration::from_millis(1500) {
            bg.h.rt.block_on(async { tokio::time::sleep(Duration::from_millis(5)).await });
            if bg.wire.count("status") > c + 1 {
                polled = true;
                break;
            }
        }
        if std::env::var("VX_DEBUG").is_ok() {
            let st = bg.h.shared.get_agent_status_shared_state();
            let m = bg.h.rt.block_on(async { st.get_module_status(AgentStatusModule::KeyKeeper).await.message });
            eprintln!("VXD round {} polled {} waited {:?} count {} -> {} msg {}", i, polled, t0.elapsed(), c, bg.wire.count("status"), m);
        }
        let mut problems = Vec::new();
        if !polled {
            problems.push(format!("the key keeper does not poll the secure channel status any more (1.5 s = 25 intervals after the notification; task finished: {:?})", bg.kk.as_ref().map(|k| k.is_finished())));
        }
        let done = !t.close(
            "late notification",
            serde_json::json!({"history": format!("key latched (state wireserver), poll interval {:?}; after a poll the process is not scheduled for {:?}; a key keeper notification (provisioning query with the notify header) arrives at the end of the pause; then the agent runs again", interval, interval + Duration::from_millis(*extra)), "round": i}),
            problems,
        );
        if done {
            break;
        }
    }
    bg.h.shared.cancel_cancellation_token();
}
