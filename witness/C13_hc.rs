// Helper of the witness C13_direct; appended to proxy_agent/src/common/hyper_client.rs by tools/witness.py (`also_inject`) as
// `pub(crate) mod vx_c13_hc`: the two canonicalisation functions are private to hyper_client.rs. Nothing here decides anything.
pub(crate) fn canonicalized_headers(h: &hyper::HeaderMap) -> String {
    super::headers_to_canonicalized_string(h)
}
pub(crate) fn path_and_parameters(u: &hyper::Uri) -> (String, String) {
    super::get_path_and_canonicalized_parameters(u)
}
