// Shared harness of the handler witnesses C01, C05, C11, C14, C15 (include!d by each witness module, which is a child module of
// proxy_agent/src/proxy/proxy_server.rs; the connection context comes from the helper module appended to proxy_connection.rs).
//
//   raw client (std TcpStream, bytes written verbatim)  --loopback-->  hyper http1 server connection
//        -> the same tower RequestBodyLimitLayer wiring as ProxyServer::handle_new_tcp_connection (real constants, real should_skip_sig)
//        -> the REAL ProxyServer::handle_new_http_request with real shared-state actors
//        -> TcpConnectionContext whose upstream sender is connected to the byte-recording mock metadata host (std threads).
//
// Nothing in this file knows what the handler should do: oracles live in the witness modules.

use super::ProxyServer;
use crate::common::hyper_client;
use crate::key_keeper::key::{AccessControlRules, AuthorizationItem, Identity, Key, Privilege, Role, RoleAssignment};
use crate::proxy::proxy_connection::vx_handler_ctx;
use crate::proxy::proxy_connection::TcpConnectionContext;
use crate::proxy::Claims;
use crate::shared_state::key_keeper_wrapper::KeyKeeperSharedState;
use crate::shared_state::SharedState;
use proxy_agent_shared::proxy_agent_aggregate_status::ProxyConnectionSummary;
use std::collections::VecDeque;
use std::io::{Read, Write};
use std::net::{Ipv4Addr, SocketAddr};
use std::sync::{Arc, Condvar, Mutex as StdMutex};
use std::time::Duration;

// ------------------------------------------------------------------------------------------------ byte helpers
fn vx_find(h: &[u8], n: &[u8], from: usize) -> Option<usize> {
    if h.len() < n.len() || from > h.len() - n.len() {
        return None;
    }
    (from..=h.len() - n.len()).find(|&i| &h[i..i + n.len()] == n)
}

/// first line + header lines (name as received, value with surrounding blanks removed), in order, duplicates kept
fn vx_parse_head(head: &[u8]) -> (String, Vec<(String, String)>) {
    let text = String::from_utf8_lossy(head).to_string();
    let mut lines = text.split("\r\n");
    let first = lines.next().unwrap_or("").to_string();
    let mut headers = Vec::new();
    for l in lines {
        if l.is_empty() {
            continue;
        }
        match l.find(':') {
            Some(i) => headers.push((l[..i].to_string(), l[i + 1..].trim().to_string())),
            None => headers.push((l.to_string(), String::new())),
        }
    }
    (first, headers)
}

#[derive(Clone, Debug, PartialEq)]
pub enum Framing {
    None,
    Len(usize),
    Chunked,
    Eof,
}

fn vx_hget<'a>(headers: &'a [(String, String)], name: &str) -> Vec<&'a str> {
    headers.iter().filter(|(n, _)| n.eq_ignore_ascii_case(name)).map(|(_, v)| v.as_str()).collect()
}

fn vx_framing(headers: &[(String, String)], response: bool) -> Framing {
    if vx_hget(headers, "transfer-encoding").iter().any(|v| v.to_ascii_lowercase().contains("chunked")) {
        return Framing::Chunked;
    }
    if let Some(v) = vx_hget(headers, "content-length").first() {
        if let Ok(n) = v.trim().parse::<usize>() {
            return Framing::Len(n);
        }
    }
    if response {
        Framing::Eof
    } else {
        Framing::None
    }
}

/// Some((body, end offset, sizes of the chunks)) when the body starting at `start` is complete in buf
fn vx_try_body(buf: &[u8], start: usize, fr: &Framing, eof: bool) -> Option<(Vec<u8>, usize, Vec<usize>)> {
    match fr {
        Framing::None => Some((Vec::new(), start, Vec::new())),
        Framing::Len(n) => {
            if buf.len() >= start + n {
                Some((buf[start..start + n].to_vec(), start + n, Vec::new()))
            } else {
                None
            }
        }
        Framing::Eof => {
            if eof {
                Some((buf[start..].to_vec(), buf.len(), Vec::new()))
            } else {
                None
            }
        }
        Framing::Chunked => {
            let mut pos = start;
            let mut body = Vec::new();
            let mut sizes = Vec::new();
            loop {
                let eol = vx_find(buf, b"\r\n", pos)?;
                let line = String::from_utf8_lossy(&buf[pos..eol]).to_string();
                let hex = line.split(';').next().unwrap_or("").trim().to_string();
                let n = usize::from_str_radix(&hex, 16).ok()?;
                pos = eol + 2;
                if n == 0 {
                    // trailers until empty line
                    loop {
                        let e = vx_find(buf, b"\r\n", pos)?;
                        if e == pos {
                            return Some((body, e + 2, sizes));
                        }
                        pos = e + 2;
                    }
                }
                if buf.len() < pos + n + 2 {
                    return None;
                }
                body.extend_from_slice(&buf[pos..pos + n]);
                sizes.push(n);
                pos += n + 2;
            }
        }
    }
}

// ------------------------------------------------------------------------------------------------ mock metadata host
#[derive(Clone, Debug)]
pub struct RecReq {
    pub method: String,
    pub target: String,
    pub version: String,
    pub headers: Vec<(String, String)>,
    pub body: Vec<u8>,
}

#[derive(Clone, Debug)]
pub enum RespBody {
    None,                        // no body and no framing header (204, 304)
    Len(Vec<u8>),                // content-length
    Chunked(Vec<Vec<u8>>, u64),  // transfer-encoding: chunked, one write per chunk, pause in ms between the writes
    UntilClose(Vec<u8>),         // no framing header: the body ends when the host closes the connection
}

#[derive(Clone, Debug)]
pub struct MockResp {
    pub status: u16,
    pub headers: Vec<(String, String)>,
    pub body: RespBody,
}

impl MockResp {
    pub fn body_bytes(&self) -> Vec<u8> {
        match &self.body {
            RespBody::None => Vec::new(),
            RespBody::Len(b) => b.clone(),
            RespBody::Chunked(c, _) => c.concat(),
            RespBody::UntilClose(b) => b.clone(),
        }
    }
}

struct HostState {
    bytes: usize,
    opened: usize,
    closed: usize,
    reqs: Vec<RecReq>,
    queue: VecDeque<MockResp>,
}

#[derive(Clone)]
pub struct MockHost {
    pub port: u16,
    st: Arc<(StdMutex<HostState>, Condvar)>,
}

fn vx_reason(status: u16) -> &'static str {
    match status {
        200 => "OK",
        201 => "Created",
        202 => "Accepted",
        204 => "No Content",
        206 => "Partial Content",
        301 => "Moved Permanently",
        302 => "Found",
        304 => "Not Modified",
        400 => "Bad Request",
        401 => "Unauthorized",
        403 => "Forbidden",
        404 => "Not Found",
        409 => "Conflict",
        410 => "Gone",
        429 => "Too Many Requests",
        500 => "Internal Server Error",
        502 => "Bad Gateway",
        503 => "Service Unavailable",
        _ => "Status",
    }
}

fn vx_default_resp(req: &RecReq) -> MockResp {
    MockResp {
        status: 200,
        headers: vec![("content-type".to_string(), "text/plain".to_string()), ("x-vx-echo".to_string(), format!("{} {}", req.method, req.target))],
        body: RespBody::Len(format!("secret-of-the-host for {} {} ({} body bytes)", req.method, req.target, req.body.len()).into_bytes()),
    }
}

/// Ok(false) = the connection has to be closed now (close-delimited body)
fn vx_write_resp(s: &mut std::net::TcpStream, r: &MockResp, head_request: bool) -> std::io::Result<bool> {
    let mut head = format!("HTTP/1.1 {} {}\r\n", r.status, vx_reason(r.status));
    for (n, v) in r.headers.iter() {
        head.push_str(&format!("{}: {}\r\n", n, v));
    }
    match &r.body {
        RespBody::None => {
            head.push_str("\r\n");
            s.write_all(head.as_bytes())?;
        }
        RespBody::UntilClose(b) => {
            head.push_str("\r\n");
            let mut out = head.into_bytes();
            if !head_request {
                out.extend_from_slice(b);
            }
            s.write_all(&out)?;
            s.flush()?;
            let _ = s.shutdown(std::net::Shutdown::Write);
            return Ok(false);
        }
        RespBody::Len(b) => {
            head.push_str(&format!("content-length: {}\r\n\r\n", b.len()));
            let mut out = head.into_bytes();
            if !head_request {
                out.extend_from_slice(b);
            }
            s.write_all(&out)?;
        }
        RespBody::Chunked(chunks, gap) => {
            head.push_str("transfer-encoding: chunked\r\n\r\n");
            s.write_all(head.as_bytes())?;
            s.flush()?;
            if !head_request {
                for c in chunks.iter() {
                    if c.is_empty() {
                        continue;
                    }
                    if *gap > 0 {
                        std::thread::sleep(Duration::from_millis(*gap));
                    }
                    let mut out = format!("{:x}\r\n", c.len()).into_bytes();
                    out.extend_from_slice(c);
                    out.extend_from_slice(b"\r\n");
                    s.write_all(&out)?;
                    s.flush()?;
                }
                if *gap > 0 {
                    std::thread::sleep(Duration::from_millis(*gap));
                }
                s.write_all(b"0\r\n\r\n")?;
            }
        }
    }
    s.flush()?;
    Ok(true)
}

fn vx_try_request(buf: &[u8]) -> Option<(RecReq, usize)> {
    let he = vx_find(buf, b"\r\n\r\n", 0)?;
    let (first, headers) = vx_parse_head(&buf[..he]);
    let mut parts = first.splitn(3, ' ');
    let method = parts.next().unwrap_or("").to_string();
    let target = parts.next().unwrap_or("").to_string();
    let version = parts.next().unwrap_or("").to_string();
    let fr = vx_framing(&headers, false);
    let (body, end, _) = vx_try_body(buf, he + 4, &fr, false)?;
    Some((RecReq { method, target, version, headers, body }, end))
}

fn vx_host_conn(mut s: std::net::TcpStream, st: Arc<(StdMutex<HostState>, Condvar)>) {
    let _ = s.set_nodelay(true);
    let mut buf: Vec<u8> = Vec::new();
    let mut tmp = vec![0u8; 65536];
    'outer: loop {
        while let Some((req, used)) = vx_try_request(&buf) {
            buf.drain(..used);
            let resp = {
                let mut g = st.0.lock().unwrap();
                g.reqs.push(req.clone());
                g.queue.pop_front().unwrap_or_else(|| vx_default_resp(&req))
            };
            match vx_write_resp(&mut s, &resp, req.method == "HEAD") {
                Ok(true) => {}
                _ => break 'outer,
            }
            // a host that announces `Connection: close` ends its connection after that response
            if vx_hget(&resp.headers, "connection").iter().any(|v| v.split(',').any(|t| t.trim().eq_ignore_ascii_case("close"))) {
                let _ = s.shutdown(std::net::Shutdown::Write);
                break 'outer;
            }
        }
        match s.read(&mut tmp) {
            Ok(0) | Err(_) => break,
            Ok(n) => {
                buf.extend_from_slice(&tmp[..n]);
                st.0.lock().unwrap().bytes += n;
            }
        }
    }
    let mut g = st.0.lock().unwrap();
    g.closed += 1;
    st.1.notify_all();
}

impl MockHost {
    pub fn start() -> MockHost {
        let l = std::net::TcpListener::bind("127.0.0.1:0").expect("mock host bind");
        let port = l.local_addr().unwrap().port();
        let st = Arc::new((StdMutex::new(HostState { bytes: 0, opened: 0, closed: 0, reqs: Vec::new(), queue: VecDeque::new() }), Condvar::new()));
        let st2 = st.clone();
        std::thread::spawn(move || {
            for s in l.incoming() {
                match s {
                    Ok(s) => {
                        {
                            let mut g = st2.0.lock().unwrap();
                            g.opened += 1;
                            st2.1.notify_all();
                        }
                        let st3 = st2.clone();
                        std::thread::spawn(move || vx_host_conn(s, st3));
                    }
                    Err(_) => break,
                }
            }
        });
        MockHost { port, st }
    }
    pub fn opened(&self) -> usize {
        self.st.0.lock().unwrap().opened
    }
    pub fn push_response(&self, r: MockResp) {
        self.st.0.lock().unwrap().queue.push_back(r);
    }
    /// bytes and requests received since the last take; also forgets queued responses
    pub fn take(&self) -> (usize, Vec<RecReq>) {
        let mut g = self.st.0.lock().unwrap();
        let b = g.bytes;
        g.bytes = 0;
        g.queue.clear();
        (b, std::mem::take(&mut g.reqs))
    }
    /// wait until every upstream connection ever opened has been closed by the proxy side (all bytes of them are counted then)
    pub fn wait_all_closed(&self, at_least_opened: usize, timeout: Duration) -> bool {
        let g = self.st.0.lock().unwrap();
        let (g, t) = self.st.1.wait_timeout_while(g, timeout, |s| s.opened < at_least_opened || s.closed < s.opened).unwrap();
        drop(g);
        !t.timed_out()
    }
}

// ------------------------------------------------------------------------------------------------ raw client
#[derive(Clone, Debug)]
pub enum ReqBody {
    None,                       // no body, no framing header
    Len(Vec<u8>),               // content-length
    Chunked(Vec<u8>, Vec<usize>), // transfer-encoding: chunked, chunk sizes taken cyclically from the list
}

impl ReqBody {
    pub fn bytes(&self) -> &[u8] {
        match self {
            ReqBody::None => &[],
            ReqBody::Len(b) => b,
            ReqBody::Chunked(b, _) => b,
        }
    }
}

/// the request exactly as written on the wire: header names and values verbatim, in the given order
pub fn vx_request_bytes(method: &str, target: &str, headers: &[(String, String)], body: &ReqBody) -> Vec<u8> {
    let mut out = format!("{} {} HTTP/1.1\r\n", method, target).into_bytes();
    for (n, v) in headers.iter() {
        out.extend_from_slice(format!("{}: {}\r\n", n, v).as_bytes());
    }
    match body {
        ReqBody::None => out.extend_from_slice(b"\r\n"),
        ReqBody::Len(b) => {
            out.extend_from_slice(format!("Content-Length: {}\r\n\r\n", b.len()).as_bytes());
            out.extend_from_slice(b);
        }
        ReqBody::Chunked(b, sizes) => {
            out.extend_from_slice(b"Transfer-Encoding: chunked\r\n\r\n");
            let mut pos = 0;
            let mut i = 0;
            while pos < b.len() {
                let n = std::cmp::max(1, sizes[i % sizes.len()]).min(b.len() - pos);
                i += 1;
                out.extend_from_slice(format!("{:X}\r\n", n).as_bytes());
                out.extend_from_slice(&b[pos..pos + n]);
                out.extend_from_slice(b"\r\n");
                pos += n;
            }
            out.extend_from_slice(b"0\r\n\r\n");
        }
    }
    out
}

#[derive(Clone, Debug)]
pub struct ClientResp {
    pub status: u16,
    pub headers: Vec<(String, String)>,
    pub body: Vec<u8>,
    pub chunks: Vec<usize>,
}

pub struct RawClient {
    s: std::net::TcpStream,
    buf: Vec<u8>,
    writers: Vec<std::thread::JoinHandle<()>>,
}

impl RawClient {
    /// write the bytes from a helper thread (the proxy may answer before it has read everything)
    pub fn send(&mut self, bytes: Vec<u8>) {
        for w in self.writers.drain(..) {
            let _ = w.join();
        }
        let mut w = self.s.try_clone().expect("clone client stream");
        self.writers.push(std::thread::spawn(move || {
            let _ = w.write_all(&bytes);
            let _ = w.flush();
        }));
    }
    pub fn recv(&mut self, head_request: bool) -> Result<ClientResp, String> {
        let mut tmp = vec![0u8; 65536];
        let mut eof = false;
        loop {
            if let Some(he) = vx_find(&self.buf, b"\r\n\r\n", 0) {
                let (first, headers) = vx_parse_head(&self.buf[..he]);
                let status = first.split(' ').nth(1).and_then(|s| s.parse::<u16>().ok()).ok_or_else(|| format!("bad status line '{}'", first))?;
                let fr = if head_request || status == 204 || status == 304 || status < 200 { Framing::None } else { vx_framing(&headers, true) };
                if let Some((body, end, chunks)) = vx_try_body(&self.buf, he + 4, &fr, eof) {
                    self.buf.drain(..end);
                    return Ok(ClientResp { status, headers, body, chunks });
                }
            }
            if eof {
                return Err(format!("connection closed with an incomplete response ({} bytes)", self.buf.len()));
            }
            match self.s.read(&mut tmp) {
                Ok(0) => eof = true,
                Ok(n) => self.buf.extend_from_slice(&tmp[..n]),
                Err(e) => {
                    if self.buf.is_empty() {
                        return Err(format!("read error: {}", e));
                    }
                    eof = true;
                }
            }
        }
    }
    pub fn close(mut self) {
        let _ = self.s.shutdown(std::net::Shutdown::Both);
        for w in self.writers.drain(..) {
            let _ = w.join();
        }
    }
}

// ------------------------------------------------------------------------------------------------ callers, rules, keys
pub fn vx_claims(elevated: bool) -> Claims {
    Claims {
        userId: if elevated { 0 } else { 1000 },
        userName: if elevated { "root".to_string() } else { "alice".to_string() },
        userGroups: vec![if elevated { "root".to_string() } else { "users".to_string() }],
        processId: 4242,
        processName: std::ffi::OsString::from("tool"),
        processFullPath: std::path::PathBuf::from("/usr/bin/tool"),
        processCmdLine: if elevated { "tool --as-root".to_string() } else { "tool --x".to_string() },
        runAsElevated: elevated,
        clientIp: "127.0.0.1".to_string(),
        clientPort: 5555,
    }
}

/// A rule set on path prefix /machine. kind: 0 = the privilege is granted to the caller's user name, 1 = it is granted to somebody else only,
/// 2 = no privilege matches the URLs used by the witnesses (defaultAccess decides), 3 = no rules at all (defaultAccess decides)
pub fn vx_rules(mode: &str, default_access: &str, kind: u8, caller: &str) -> AuthorizationItem {
    let path = if kind == 2 { "/nomatch" } else { "/machine" };
    let user = if kind == 1 { "somebody-else" } else { caller };
    AuthorizationItem {
        defaultAccess: default_access.to_string(),
        mode: mode.to_string(),
        id: format!("vx-{}-{}-{}", mode, default_access, kind),
        rules: if kind == 3 {
            None
        } else {
            Some(AccessControlRules {
                privileges: Some(vec![Privilege { name: "p".to_string(), path: path.to_string(), queryParameters: None }]),
                roles: Some(vec![Role { name: "r".to_string(), privileges: vec!["p".to_string()] }]),
                identities: Some(vec![Identity { name: "i".to_string(), userName: Some(user.to_string()), groupName: None, exePath: None, processName: None }]),
                roleAssignments: Some(vec![RoleAssignment { role: "r".to_string(), identities: vec!["i".to_string()] }]),
            })
        },
    }
}

/// does a rule set built by vx_rules authorize the caller (statement view: disabled = not consulted)
pub fn vx_rules_allow(default_access: &str, kind: u8) -> bool {
    match kind {
        0 => true,
        1 => false,
        _ => default_access == "allow",
    }
}

pub fn vx_key() -> Key {
    let mut k = Key::empty();
    k.guid = "7f2a3c1e-1111-2222-3333-444455556666".to_string();
    k.key = "4A404E635266556A586E3272357538782F413F4428472B4B6250645367566B59".to_string();
    k.incarnationId = Some(1);
    k
}

/// A key keeper state that received the given rules and whose state task is gone afterwards: every lookup of the rules fails.
pub fn vx_dead_key_keeper(mode: &'static str, default_access: &'static str) -> KeyKeeperSharedState {
    std::thread::spawn(move || {
        let runtime = tokio::runtime::Builder::new_current_thread().enable_all().build().unwrap();
        let state = runtime.block_on(async {
            let state = KeyKeeperSharedState::start_new();
            let _ = state.set_wireserver_rules(Some(vx_rules(mode, default_access, 3, "x"))).await;
            let _ = state.set_imds_rules(Some(vx_rules(mode, default_access, 3, "x"))).await;
            let _ = state.set_hostga_rules(Some(vx_rules(mode, default_access, 3, "x"))).await;
            state
        });
        drop(runtime);
        state
    })
    .join()
    .unwrap()
}

// ------------------------------------------------------------------------------------------------ the harness
/// the same per-request limit wiring as ProxyServer::handle_new_tcp_connection, around the real handler
async fn vx_serve(ps: ProxyServer, ctx: TcpConnectionContext, stream: tokio::net::TcpStream) {
    let service = hyper::service::service_fn(move |req: hyper::Request<hyper::body::Incoming>| {
        let layer = if hyper_client::should_skip_sig(req.method(), req.uri()) {
            tower_http::limit::RequestBodyLimitLayer::new(super::REQUEST_BODY_LARGE_LIMIT_SIZE)
        } else {
            tower_http::limit::RequestBodyLimitLayer::new(super::REQUEST_BODY_LOW_LIMIT_SIZE)
        };
        let ps = ps.clone();
        let ctx = ctx.clone();
        let mut svc = tower::ServiceBuilder::new()
            .layer(layer)
            .service_fn(move |req: hyper::Request<_>| ps.clone().handle_new_http_request(req, ctx.clone()));
        tower::Service::call(&mut svc, req)
    });
    let _ = hyper::server::conn::http1::Builder::new()
        .keep_alive(true)
        .serve_connection(hyper_util::rt::TokioIo::new(stream), service)
        .await;
}

#[derive(Clone)]
pub struct Attribution {
    pub claims: Option<Claims>,
    pub destination: Option<(Ipv4Addr, u16)>,
    pub upstream: bool,  // connect the upstream sender to the mock host
    pub real_new: bool,  // build the context with the real TcpConnectionContext::new (no audit record exists: a direct connection)
}

impl Attribution {
    pub fn full(elevated: bool, ip: &str, port: u16) -> Attribution {
        Attribution { claims: Some(vx_claims(elevated)), destination: Some((ip.parse().unwrap(), port)), upstream: true, real_new: false }
    }
}

pub struct Conn {
    pub client: RawClient,
    task: tokio::task::JoinHandle<()>,
}

pub struct Harness {
    pub rt: tokio::runtime::Runtime,
    pub shared: SharedState,
    pub ps: ProxyServer,
    pub host: MockHost,
    front: tokio::net::TcpListener,
    front_addr: SocketAddr,
    next_id: std::cell::Cell<u128>,
    upstreams: std::cell::Cell<usize>,
    slow: std::cell::Cell<bool>,
}

impl Harness {
    pub fn new(multi_thread: bool) -> Harness {
        let rt = if multi_thread {
            tokio::runtime::Builder::new_multi_thread().worker_threads(2).enable_all().build().unwrap()
        } else {
            tokio::runtime::Builder::new_current_thread().enable_all().build().unwrap()
        };
        let (shared, front) = rt.block_on(async { (SharedState::start_all(), tokio::net::TcpListener::bind("127.0.0.1:0").await.expect("front bind")) });
        let ps = ProxyServer::new(crate::common::constants::PROXY_AGENT_PORT, &shared);
        let front_addr = front.local_addr().unwrap();
        Harness { rt, shared, ps, host: MockHost::start(), front, front_addr, next_id: std::cell::Cell::new(1), upstreams: std::cell::Cell::new(0), slow: std::cell::Cell::new(false) }
    }

    /// the same rule set for the three endpoints, through the real setters
    pub fn set_rules(&self, make: &dyn Fn() -> Option<AuthorizationItem>) {
        let kk = self.shared.get_key_keeper_shared_state();
        self.rt.block_on(async {
            kk.set_wireserver_rules(make()).await.expect("set_wireserver_rules");
            kk.set_imds_rules(make()).await.expect("set_imds_rules");
            kk.set_hostga_rules(make()).await.expect("set_hostga_rules");
        });
    }

    /// one rule set per endpoint (WireServer, IMDS, HostGAPlugin)
    pub fn set_rules_each(&self, ws: &dyn Fn() -> Option<AuthorizationItem>, imds: &dyn Fn() -> Option<AuthorizationItem>, hostga: &dyn Fn() -> Option<AuthorizationItem>) {
        let kk = self.shared.get_key_keeper_shared_state();
        self.rt.block_on(async {
            kk.set_wireserver_rules(ws()).await.expect("set_wireserver_rules");
            kk.set_imds_rules(imds()).await.expect("set_imds_rules");
            kk.set_hostga_rules(hostga()).await.expect("set_hostga_rules");
        });
    }

    pub fn set_key(&self, key: Option<Key>) {
        let kk = self.shared.get_key_keeper_shared_state();
        self.rt.block_on(async {
            match key {
                Some(k) => kk.update_key(k).await.expect("update_key"),
                None => kk.clear_key().await.expect("clear_key"),
            }
        });
    }

    /// accept a client connection and build its context, without serving it yet
    pub fn connect_only(&self, attr: &Attribution) -> (RawClient, TcpConnectionContext, tokio::net::TcpStream) {
        let s = std::net::TcpStream::connect(self.front_addr).expect("connect to the front listener");
        let _ = s.set_nodelay(true);
        let _ = s.set_read_timeout(Some(Duration::from_secs(10)));
        let (stream, client_addr) = self.rt.block_on(self.front.accept()).expect("accept");
        let id = self.next_id.get();
        self.next_id.set(id + 1);
        let ctx = if attr.real_new {
            self.rt.block_on(TcpConnectionContext::new(id, client_addr, self.shared.get_redirector_shared_state(), self.shared.get_proxy_server_shared_state()))
        } else {
            let upstream = if attr.upstream {
                self.upstreams.set(self.upstreams.get() + 1);
                Some(("127.0.0.1".to_string(), self.host.port))
            } else {
                None
            };
            let mut claims = attr.claims.clone();
            if let Some(c) = claims.as_mut() {
                c.clientIp = client_addr.ip().to_string();
                c.clientPort = client_addr.port();
            }
            self.rt.block_on(vx_handler_ctx::context(id, client_addr, claims, attr.destination, upstream))
        };
        (RawClient { s, buf: Vec::new(), writers: Vec::new() }, ctx, stream)
    }

    pub fn connect_with(&self, ps: &ProxyServer, attr: &Attribution) -> Conn {
        let (client, ctx, stream) = self.connect_only(attr);
        let task = self.rt.spawn(vx_serve(ps.clone(), ctx, stream));
        Conn { client, task }
    }

    pub fn connect(&self, attr: &Attribution) -> Conn {
        self.connect_with(&self.ps, attr)
    }

    /// close the client, wait until the proxy side has released the connection and its upstream connection,
    /// then return everything the mock host received since the last call: (bytes, requests)
    pub fn finish(&self, conn: Conn) -> (usize, Vec<RecReq>) {
        conn.client.close();
        let task = conn.task;
        let _ = self.rt.block_on(async { tokio::time::timeout(Duration::from_secs(10), task).await });
        self.settle()
    }

    pub fn settle(&self) -> (usize, Vec<RecReq>) {
        let timeout = if self.slow.get() { Duration::from_millis(300) } else { Duration::from_secs(10) };
        if !self.host.wait_all_closed(self.upstreams.get(), timeout) {
            if !self.slow.get() {
                println!("VXW-NOTE upstream connections were not opened/released within 10 s (waiting only 300 ms from now on)");
            }
            self.slow.set(true);
            self.upstreams.set(self.host.opened());
        }
        self.host.take()
    }

    pub fn failed_summary(&self) -> Vec<ProxyConnectionSummary> {
        let st = self.shared.get_agent_status_shared_state();
        self.rt.block_on(async { st.get_all_failed_connection_summary().await.expect("get_all_failed_connection_summary") })
    }

    pub fn clear_summary(&self) {
        let st = self.shared.get_agent_status_shared_state();
        self.rt.block_on(async { st.clear_all_summary().await.expect("clear_all_summary") });
    }

    /// one request on its own connection: (client response, bytes at the host, requests at the host)
    pub fn one(&self, ps: &ProxyServer, attr: &Attribution, wire: Vec<u8>, head_request: bool) -> (Result<ClientResp, String>, usize, Vec<RecReq>) {
        let mut conn = self.connect_with(ps, attr);
        conn.client.send(wire);
        let r = conn.client.recv(head_request);
        let (b, reqs) = self.finish(conn);
        (r, b, reqs)
    }
}

// ------------------------------------------------------------------------------------------------ the real listener path
// Where the kernel lets the test process create a BPF hash map, the witnesses also go through the REAL
// ProxyServer::handle_new_tcp_connection (real limit wiring, real TcpConnectionContext::new, real redirector::lookup_audit /
// remove_audit, real Claims::from_audit_entry): a map called audit_map with the layout of linux-ebpf/ebpf_cgroup.c is created
// from a minimal ELF object through aya, handed to the real RedirectorSharedState, and filled with the records the cgroup
// hook would write (source port -> uid, pid, is_root, original destination). The original destination is the mock host
// itself (the proxy connects to the original destination), i.e. an endpoint without access rules.

/// relocatable BPF ELF with one legacy `maps` section entry: audit_map = HASH, key 8 bytes, value 20 bytes
fn vx_audit_map_elf() -> Vec<u8> {
    let shstr: &[u8] = b"\0maps\0.symtab\0.strtab\0.shstrtab\0"; // maps=1 .symtab=6 .strtab=14 .shstrtab=22
    let strtab: &[u8] = b"\0audit_map\0";
    let mut maps: Vec<u8> = Vec::new();
    for v in [1u32, 8, 20, 65536, 0, 0, 0] {
        maps.extend_from_slice(&v.to_le_bytes());
    }
    let mut symtab = vec![0u8; 24];
    symtab.extend_from_slice(&1u32.to_le_bytes()); // st_name
    symtab.push(0x11); // GLOBAL OBJECT
    symtab.push(0);
    symtab.extend_from_slice(&1u16.to_le_bytes()); // section 1
    symtab.extend_from_slice(&0u64.to_le_bytes());
    symtab.extend_from_slice(&(maps.len() as u64).to_le_bytes());
    let mut out = vec![0u8; 64];
    let mut place = |out: &mut Vec<u8>, data: &[u8]| -> (u64, u64) {
        while out.len() % 8 != 0 {
            out.push(0);
        }
        let off = out.len() as u64;
        out.extend_from_slice(data);
        (off, data.len() as u64)
    };
    let (maps_off, maps_len) = place(&mut out, &maps);
    let (sym_off, sym_len) = place(&mut out, &symtab);
    let (str_off, str_len) = place(&mut out, strtab);
    let (shstr_off, shstr_len) = place(&mut out, shstr);
    while out.len() % 8 != 0 {
        out.push(0);
    }
    let shoff = out.len() as u64;
    let mut sh = |name: u32, typ: u32, flags: u64, off: u64, size: u64, link: u32, info: u32, align: u64, entsize: u64| {
        out.extend_from_slice(&name.to_le_bytes());
        out.extend_from_slice(&typ.to_le_bytes());
        out.extend_from_slice(&flags.to_le_bytes());
        out.extend_from_slice(&0u64.to_le_bytes());
        out.extend_from_slice(&off.to_le_bytes());
        out.extend_from_slice(&size.to_le_bytes());
        out.extend_from_slice(&link.to_le_bytes());
        out.extend_from_slice(&info.to_le_bytes());
        out.extend_from_slice(&align.to_le_bytes());
        out.extend_from_slice(&entsize.to_le_bytes());
    };
    sh(0, 0, 0, 0, 0, 0, 0, 0, 0);
    sh(1, 1, 3, maps_off, maps_len, 0, 0, 4, 0);
    sh(6, 2, 0, sym_off, sym_len, 3, 1, 8, 24);
    sh(14, 3, 0, str_off, str_len, 0, 0, 1, 0);
    sh(22, 3, 0, shstr_off, shstr_len, 0, 0, 1, 0);
    let mut eh: Vec<u8> = vec![0x7f, b'E', b'L', b'F', 2, 1, 1, 0, 0, 0, 0, 0, 0, 0, 0, 0];
    eh.extend_from_slice(&1u16.to_le_bytes()); // ET_REL
    eh.extend_from_slice(&247u16.to_le_bytes()); // EM_BPF
    eh.extend_from_slice(&1u32.to_le_bytes());
    eh.extend_from_slice(&0u64.to_le_bytes());
    eh.extend_from_slice(&0u64.to_le_bytes());
    eh.extend_from_slice(&shoff.to_le_bytes());
    eh.extend_from_slice(&0u32.to_le_bytes());
    eh.extend_from_slice(&64u16.to_le_bytes());
    eh.extend_from_slice(&0u16.to_le_bytes());
    eh.extend_from_slice(&0u16.to_le_bytes());
    eh.extend_from_slice(&64u16.to_le_bytes());
    eh.extend_from_slice(&5u16.to_le_bytes());
    eh.extend_from_slice(&4u16.to_le_bytes());
    out[..64].copy_from_slice(&eh);
    out
}

pub struct AuditMap {
    fd: i32,
    pub uid: u32,
    pub pid: u32,
}

impl AuditMap {
    /// what the cgroup connect4 hook records for a redirected connection
    pub fn put(&self, source_port: u16, is_root: bool, destination: Ipv4Addr, destination_port: u16) -> bool {
        #[repr(C)]
        struct Attr {
            map_fd: u32,
            pad: u32,
            key: u64,
            value: u64,
            flags: u64,
        }
        let key: [u32; 2] = [6 /* IPPROTO_TCP */, source_port as u32];
        let value: [u32; 5] = [self.uid, self.pid, is_root as u32, u32::from_ne_bytes(destination.octets()), destination_port.to_be() as u32];
        let attr = Attr { map_fd: self.fd as u32, pad: 0, key: key.as_ptr() as u64, value: value.as_ptr() as u64, flags: 0 };
        let r = unsafe { libc::syscall(libc::SYS_bpf, 2 /* BPF_MAP_UPDATE_ELEM */, &attr as *const Attr, std::mem::size_of::<Attr>()) };
        r == 0
    }
}

impl Harness {
    /// None where BPF maps cannot be created (not privileged, no BPF): the real listener path is skipped then
    pub fn install_audit_map(&self) -> Option<AuditMap> {
        use std::os::fd::{AsFd, AsRawFd};
        if cfg!(target_endian = "big") {
            return None;
        }
        let ebpf = match aya::EbpfLoader::new().load(&vx_audit_map_elf()) {
            Ok(e) => e,
            Err(e) => {
                println!("VXW-NOTE no kernel audit map available ({}): the real listener path is not exercised", e);
                return None;
            }
        };
        let fd = match ebpf.map("audit_map") {
            Some(aya::maps::Map::HashMap(d)) => d.fd().as_fd().as_raw_fd(),
            _ => {
                println!("VXW-NOTE audit_map not found in the loaded object: the real listener path is not exercised");
                return None;
            }
        };
        let obj = crate::redirector::BpfObject::new(ebpf);
        let rs = self.shared.get_redirector_shared_state();
        if self.rt.block_on(rs.update_bpf_object(Arc::new(StdMutex::new(obj)))).is_err() {
            return None;
        }
        let map = AuditMap { fd, uid: unsafe { libc::getuid() }, pid: std::process::id() };
        // probe: an attributed request must come back from the mock host
        let mut c = self.connect_real(&self.ps, Some((&map, true)));
        c.send(vx_request_bytes("GET", "/vx-probe", &[("Host".to_string(), "127.0.0.1".to_string())], &ReqBody::None));
        let r = c.recv(false);
        let (_b, reqs) = self.finish_real(c);
        if vx_status(&r) != 200 || reqs.len() != 1 {
            println!("VXW-NOTE the real listener path does not relay an attributed probe request (status {}, {} requests at the host): not exercised", vx_status(&r), reqs.len());
            return None;
        }
        Some(map)
    }

    /// a client connection handed to the REAL handle_new_tcp_connection; audit = Some((map, is_root)) writes the audit record first
    pub fn connect_real(&self, ps: &ProxyServer, audit: Option<(&AuditMap, bool)>) -> RawClient {
        self.connect_real_to(ps, audit.map(|(m, r)| (m, r, Ipv4Addr::LOCALHOST, self.host.port)))
    }

    /// audit = Some((map, is_root, original destination ip, port)); only the mock host's own address leads to the mock host
    pub fn connect_real_to(&self, ps: &ProxyServer, audit: Option<(&AuditMap, bool, Ipv4Addr, u16)>) -> RawClient {
        let s = std::net::TcpStream::connect(self.front_addr).expect("connect to the front listener");
        let _ = s.set_nodelay(true);
        let _ = s.set_read_timeout(Some(Duration::from_secs(10)));
        let (stream, client_addr) = self.rt.block_on(self.front.accept()).expect("accept");
        if let Some((map, is_root, ip, port)) = audit {
            if map.put(client_addr.port(), is_root, ip, port) && ip == Ipv4Addr::LOCALHOST && port == self.host.port {
                self.upstreams.set(self.upstreams.get() + 1);
            }
        }
        self.rt.block_on(ps.handle_new_tcp_connection(stream, client_addr));
        RawClient { s, buf: Vec::new(), writers: Vec::new() }
    }

    pub fn finish_real(&self, client: RawClient) -> (usize, Vec<RecReq>) {
        client.close();
        self.settle()
    }

    /// one request on its own connection through the real listener path
    pub fn one_real(&self, ps: &ProxyServer, audit: Option<(&AuditMap, bool)>, wire: Vec<u8>, head_request: bool) -> (Result<ClientResp, String>, usize, Vec<RecReq>) {
        let mut c = self.connect_real(ps, audit);
        c.send(wire);
        let r = c.recv(head_request);
        let (b, reqs) = self.finish_real(c);
        (r, b, reqs)
    }
}

pub fn vx_status(r: &Result<ClientResp, String>) -> u16 {
    match r {
        Ok(r) => r.status,
        Err(_) => 0,
    }
}

pub fn vx_hex(b: &[u8]) -> String {
    let shown = &b[..std::cmp::min(b.len(), 24)];
    let mut s: String = shown.iter().map(|x| format!("{:02x}", x)).collect();
    if b.len() > shown.len() {
        s.push_str(&format!("..({} bytes)", b.len()));
    }
    s
}

pub fn vx_fail(v: serde_json::Value) {
    println!("VXW-FAIL {}", v);
}
