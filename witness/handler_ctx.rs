// Helper of the handler witnesses (C01, C05, C11, C14, C15); appended to proxy_agent/src/proxy/proxy_connection.rs by
// tools/witness.py (`also_inject`) as `pub(crate) mod vx_handler_ctx`.
// `TcpConnectionContext.sender/.logger` and `struct Client` are private to proxy_connection.rs while the request handler is
// private to proxy_server.rs: this child module only builds the connection context the way `TcpConnectionContext::new`
// does for a connection found in the kernel audit map, except that the upstream HTTP/1.1 sender is connected to the
// address given by the witness (the mock metadata host on loopback) instead of the original destination.
// Nothing here decides anything: every field is given by the caller.
use super::{Client, ConnectionLogger, TcpConnectionContext};
use crate::common::hyper_client;
use crate::proxy::Claims;
use std::net::{Ipv4Addr, SocketAddr};
use std::sync::Arc;
use tokio::sync::Mutex;

/// claims / destination: None = no attribution for that part; upstream: Some((host, port)) = connect the sender there.
pub(crate) async fn context(
    id: u128,
    client_addr: SocketAddr,
    claims: Option<Claims>,
    destination: Option<(Ipv4Addr, u16)>,
    upstream: Option<(String, u16)>,
) -> TcpConnectionContext {
    let sender = match upstream {
        Some((host, port)) => match hyper_client::build_http_sender(&host, port, |_m: String| {}).await {
            Ok(sender) => Ok(Arc::new(Mutex::new(Client { sender }))),
            Err(e) => Err(e.to_string()),
        },
        None => Err("no upstream connection".to_string()),
    };
    TcpConnectionContext {
        id,
        client_addr,
        claims,
        destination_ip: destination.map(|d| d.0),
        destination_port: destination.map(|d| d.1).unwrap_or(0),
        sender,
        logger: ConnectionLogger::new(id, 0),
    }
}
