// Witness generator for C07 (attribution is single-use), connection-context level. Compiled into the real crate as a child module
// of proxy_agent/src/proxy/proxy_connection.rs; uses only public items: TcpConnectionContext::new and its public fields, the real
// RedirectorSharedState / ProxyServerSharedState actors and a real redirector::BpfObject around a real kernel map (see
// c07_common.inc.rs for the kernel stand-in). The listener-level companion is C07.rs.
//
// ORACLE (from the statement, M = the kernel's record map, keyed by {TCP, source port}):
//   accept of a connection from source port p
//     p in M      -> the context carries exactly M[p]: claims.userId = recorded uid, claims.processId = recorded pid,
//                    claims.runAsElevated = (the hook recorded root), claims.clientPort = p, destination = recorded original
//                    destination (address and port decoded from network byte order); afterwards M' = M \ {p} - the record is
//                    consumed and NO OTHER record is touched;
//     p not in M  -> no claims and no destination (nothing defaulted, nothing borrowed from a neighbouring / byte-swapped port or
//                    from a record of another protocol); M' = M.
//   Hence a second accept from p without a fresh record is unattributed, and a fresh record gives the NEW identity.
#![allow(dead_code, unused_imports, clippy::all)]
include!("/verif/witness/c07_common.inc.rs");

use crate::proxy::proxy_connection::TcpConnectionContext;
use crate::shared_state::SharedState;
use std::net::SocketAddr;

fn ctx_json(c: &TcpConnectionContext) -> serde_json::Value {
    serde_json::json!({
        "claims": c.claims.as_ref().map(|k| serde_json::json!({"userId": k.userId, "processId": k.processId, "runAsElevated": k.runAsElevated, "clientIp": k.clientIp, "clientPort": k.clientPort})),
        "destination_ip": c.destination_ip.map(|i| i.to_string()),
        "destination_port": c.destination_port,
    })
}

/// does the context carry exactly `want` (None = unattributed)?
fn ctx_ok(c: &TcpConnectionContext, port: u16, want: Option<&Rec>) -> bool {
    match want {
        None => c.claims.is_none() && c.destination_ip.is_none(),
        Some(r) => match &c.claims {
            None => false,
            Some(k) => {
                k.userId == r.uid as u64
                    && k.processId == r.pid
                    && k.runAsElevated == r.elevated()
                    && k.clientPort == port
                    && k.clientIp == "127.0.0.1"
                    && c.destination_ip == Some(r.dst)
                    && c.destination_port == r.dport
            }
        },
    }
}

/// a record that only depends on the port it is stored under (fills the map around the port under test)
fn decoy(q: u32) -> Rec {
    let root = q % 3 == 0;
    Rec { uid: if root { 0 } else { 100000 + q }, pid: 300000 + q, is_root: root as u32, dst: Ipv4Addr::new(127, (q >> 8) as u8, (q & 255) as u8, 77), dport: (q as u16) ^ 0x5a5a }
}

/// Cases in which the UNCHANGED tree contradicts the oracle (reported to the maintainers of the verification, see the bound text):
/// a record that cannot be deleted keeps attributing later connections from the same source port (the failed removal is only logged).
const KNOWN_DEVIATIONS: [&str; 1] = ["remove-fails-record-kept"];

struct L1 {
    rt: tokio::runtime::Runtime,
    shared: SharedState,
    kernel: KernelMap,
    bpf: Arc<StdMutex<crate::redirector::BpfObject>>,
    next_id: std::cell::Cell<u128>,
    n: std::cell::Cell<u64>,
    fails: std::cell::Cell<u64>,
}

impl L1 {
    fn accept(&self, port: u16) -> TcpConnectionContext {
        let id = self.next_id.get();
        self.next_id.set(id + 1);
        let addr: SocketAddr = SocketAddr::from(([127, 0, 0, 1], port));
        self.rt.block_on(TcpConnectionContext::new(id, addr, self.shared.get_redirector_shared_state(), self.shared.get_proxy_server_shared_state()))
    }

    fn fail(&self, v: serde_json::Value) {
        self.fails.set(self.fails.get() + 1);
        if self.fails.get() <= 40 {
            vx_fail(v);
        }
    }

    /// one accept against the model: checks the context and the whole map afterwards, updates the model
    fn accept_checked(&self, what: &str, history: &str, port: u16, model: &mut BTreeMap<[u32; 2], [u32; 5]>, recs: &BTreeMap<[u32; 2], Rec>) {
        self.n.set(self.n.get() + 1);
        let key = [TCP, port as u32];
        let want = if model.contains_key(&key) { recs.get(&key).cloned() } else { None };
        let c = self.accept(port);
        if !ctx_ok(&c, port, want.as_ref()) {
            self.fail(serde_json::json!({"property": "C07", "case": what, "history": history, "accepted_source_port": port,
                "kernel_record_for_that_port": want.map(|r| r.json()), "got_context": ctx_json(&c),
                "want": if want.is_some() { "exactly the identity and destination of that record" } else { "no claims and no destination (no record for this port)" }}));
        }
        model.remove(&key);
        let after = self.kernel.snapshot();
        if after != *model {
            let stale = after.contains_key(&key);
            let missing: Vec<_> = model.keys().filter(|k| !after.contains_key(*k)).take(5).cloned().collect();
            let changed: Vec<_> = model.iter().filter(|(k, v)| after.get(*k).map(|a| a != *v).unwrap_or(false)).take(5).map(|(k, _)| *k).collect();
            self.fail(serde_json::json!({"property": "C07", "case": what, "history": history, "accepted_source_port": port,
                "got_map_after": vx_map_json(&after), "record_of_accepted_port_still_present": stale, "other_records_missing": missing, "other_records_changed": changed,
                "want": "the record of the accepted port (if any) consumed, every other record untouched"}));
            // resynchronise so that one defect is not reported for every later step
            self.kernel.clear();
            for (k, v) in model.iter() {
                self.kernel.put_raw(*k, *v);
            }
        }
    }
}

fn put(l: &L1, model: &mut BTreeMap<[u32; 2], [u32; 5]>, recs: &mut BTreeMap<[u32; 2], Rec>, proto: u32, port: u32, r: Rec) {
    l.kernel.put_raw([proto, port], r.raw());
    model.insert([proto, port], r.raw());
    recs.insert([proto, port], r);
}

fn run_ctx() {
    vx_ensure_config();
    let private = vx_private_netns();
    if !private {
        println!("VXW-NOTE no private network namespace: original destinations are mapped into 127.0.0.0/8");
    }
    let rt = tokio::runtime::Builder::new_multi_thread().worker_threads(4).enable_all().build().unwrap();
    let shared = rt.block_on(async { SharedState::start_all() });
    let rs = shared.get_redirector_shared_state();

    // without any bpf object: nothing is known about anybody
    let mut n0 = 0u64;
    for port in [1u16, 0x1234, 8080, 65535] {
        n0 += 1;
        let c = rt.block_on(TcpConnectionContext::new(900 + port as u128, SocketAddr::from(([127, 0, 0, 1], port)), rs.clone(), shared.get_proxy_server_shared_state()));
        if !ctx_ok(&c, port, None) {
            vx_fail(serde_json::json!({"property": "C07", "case": "no bpf object loaded", "accepted_source_port": port, "got_context": ctx_json(&c), "want": "no claims and no destination"}));
        }
    }

    let (kernel, bpf) = match vx_install_kernel_map(&rt, &rs) {
        Some(x) => x,
        None => {
            println!("VXW-NOTE only the cases without a kernel map were executed");
            println!("VXW-DONE {}", n0);
            return;
        }
    };
    let l = L1 { rt, shared, kernel, bpf, next_id: std::cell::Cell::new(1), n: std::cell::Cell::new(n0), fails: std::cell::Cell::new(0) };
    let me = std::process::id();
    let ip = |a: u8, b: u8, c: u8, d: u8| if private { Ipv4Addr::new(a, b, c, d) } else { Ipv4Addr::new(127, b, c, d) };
    // callers and original destinations (uid 0 <-> is_root 1 as the hook writes them; the last two carry flag values the hook
    // never writes: only the exact root value elevates)
    let callers: Vec<Rec> = vec![
        Rec { uid: 0, pid: me, is_root: 1, dst: ip(168, 63, 129, 16), dport: 80 },
        Rec { uid: 1000, pid: 0x0A0B0C0D, is_root: 0, dst: ip(169, 254, 169, 254), dport: 80 },
        Rec { uid: 0x01020304, pid: 1, is_root: 0, dst: ip(168, 63, 129, 16), dport: 32526 },
        Rec { uid: 0xFFFFFFFE, pid: 0xFFFFFFF0, is_root: 0, dst: ip(1, 2, 3, 4), dport: 0x1234 },
        Rec { uid: 0, pid: 77, is_root: 1, dst: Ipv4Addr::new(127, 0, 0, 1), dport: 0x3412 },
        Rec { uid: 1, pid: me, is_root: 0, dst: ip(4, 3, 2, 1), dport: 65535 },
        Rec { uid: 1000, pid: 78, is_root: 2, dst: ip(10, 0, 0, 4), dport: 255 },
        Rec { uid: 65534, pid: 79, is_root: 0xFFFFFFFF, dst: ip(192, 168, 1, 255), dport: 256 },
    ];
    let ports: Vec<u16> = vec![1, 2, 255, 256, 257, 0x1234, 0x3412, 3080, 8080, 8081, 0x7fff, 0x8000, 0xff00, 0xfffe, 0xffff];

    // ---- A: every port x 3 callers, surrounded by records of the neighbouring ports, the byte-swapped port, the usual fixed ports
    //         and a record of another protocol for the same port number; then the same port again without a fresh record
    for (i, &p) in ports.iter().enumerate() {
        for j in 0..3 {
            let r = callers[(i + 3 * j + j) % callers.len()];
            l.kernel.clear();
            let mut model = BTreeMap::new();
            let mut recs = BTreeMap::new();
            let pp = p as u32;
            for q in [pp ^ 1, pp.wrapping_sub(1), pp + 1, (p.swap_bytes()) as u32, 0, 80, 3080, 8080, 32526] {
                if q != pp && q <= 65535 {
                    put(&l, &mut model, &mut recs, TCP, q, decoy(q));
                }
            }
            put(&l, &mut model, &mut recs, UDP, pp, decoy(70000 + pp));
            put(&l, &mut model, &mut recs, 0, pp, decoy(140000 + pp));
            put(&l, &mut model, &mut recs, TCP, pp, r);
            let h = format!("K(p={}) + records for p^1, p-1, p+1, byteswap(p), fixed ports, UDP p", p);
            l.accept_checked("record present", &h, p, &mut model, &recs);
            l.accept_checked("same source port again without a fresh record", &h, p, &mut model, &recs);
        }
    }

    // ---- B: no record for the port, but records all around it
    for &p in ports.iter() {
        l.kernel.clear();
        let mut model = BTreeMap::new();
        let mut recs = BTreeMap::new();
        let pp = p as u32;
        for q in [pp ^ 1, pp.wrapping_sub(1), pp + 1, (p.swap_bytes()) as u32, 0, 8080] {
            if q != pp && q <= 65535 {
                put(&l, &mut model, &mut recs, TCP, q, decoy(q));
            }
        }
        put(&l, &mut model, &mut recs, UDP, pp, decoy(70000 + pp));
        l.accept_checked("no record for this port", "records exist only for neighbouring/byte-swapped ports and for UDP", p, &mut model, &recs);
        l.kernel.clear();
        let mut empty = BTreeMap::new();
        l.accept_checked("empty map", "", p, &mut empty, &recs);
    }

    // ---- C: a record for EVERY port: exactly the accepted one disappears
    {
        l.kernel.clear();
        let mut model = BTreeMap::new();
        let mut recs = BTreeMap::new();
        for q in 1u32..=65535 {
            put(&l, &mut model, &mut recs, TCP, q, decoy(q));
        }
        for &p in [0x1234u16, 8080, 1, 0xffff, 3080, 0x3412].iter() {
            l.accept_checked("map holds a record for every port", "records for all ports 1..65535", p, &mut model, &recs);
        }
        l.accept_checked("map holds a record for every other port; this one was consumed", "records for all ports 1..65535", 0x1234, &mut model, &recs);
    }

    // ---- D: all histories of at most 4 events over two adjacent source ports p, q = p^1:
    //         Ka/Kb = the hook records caller a/b for p, Kc = caller c for q, Cp/Cq = a connection from p/q is accepted
    {
        let p = 0x1234u16;
        let q = p ^ 1;
        let (a, b, c) = (callers[0], callers[1], callers[3]);
        let names = ["Ka(p)", "Kb(p)", "Kc(q)", "C(p)", "C(q)"];
        let mut seqs: Vec<Vec<usize>> = vec![vec![]];
        let mut all: Vec<Vec<usize>> = Vec::new();
        for _len in 1..=4 {
            let mut next = Vec::new();
            for s in seqs.iter() {
                for e in 0..5 {
                    let mut t = s.clone();
                    t.push(e);
                    next.push(t);
                }
            }
            all.extend(next.iter().cloned());
            seqs = next;
        }
        // a sequence without an accept checks nothing; one whose last event is not an accept is a prefix of another one
        for s in all.iter().filter(|s| *s.last().unwrap() >= 3) {
            l.kernel.clear();
            let mut model = BTreeMap::new();
            let mut recs = BTreeMap::new();
            put(&l, &mut model, &mut recs, TCP, 8080, decoy(8080));
            let mut h = String::new();
            for &e in s.iter() {
                h.push_str(names[e]);
                h.push(' ');
                match e {
                    0 => put(&l, &mut model, &mut recs, TCP, p as u32, a),
                    1 => put(&l, &mut model, &mut recs, TCP, p as u32, b),
                    2 => put(&l, &mut model, &mut recs, TCP, q as u32, c),
                    3 => l.accept_checked("history", &format!("p={} q={}: {}", p, q, h), p, &mut model, &recs),
                    _ => l.accept_checked("history", &format!("p={} q={}: {}", p, q, h), q, &mut model, &recs),
                }
            }
        }
    }

    // ---- E: many connections accepted at the same time (4 worker threads), then every port again without a fresh record;
    //         second round with another user of the shared bpf object (lock contention)
    for round in 0..2 {
        l.kernel.clear();
        let contender = if round == 1 { Some(vx_start_contender(l.bpf.clone(), Duration::from_micros(500))) } else { None };
        let base = 20000u16;
        let count = 96u16;
        let mut model = BTreeMap::new();
        let mut recs = BTreeMap::new();
        put(&l, &mut model, &mut recs, TCP, 8080, decoy(8080));
        for i in 0..count {
            let mut r = callers[(i as usize) % callers.len()];
            r.pid = 500000 + i as u32; // every connection has its own caller
            put(&l, &mut model, &mut recs, TCP, (base + i) as u32, r);
        }
        let rs = l.shared.get_redirector_shared_state();
        let ps = l.shared.get_proxy_server_shared_state();
        let ctxs: Vec<(u16, Option<TcpConnectionContext>)> = l.rt.block_on(async {
            let mut hs = Vec::new();
            for i in 0..count {
                let (rs, ps) = (rs.clone(), ps.clone());
                let port = base + i;
                hs.push((port, tokio::spawn(async move { TcpConnectionContext::new(10000 + i as u128, SocketAddr::from(([127, 0, 0, 1], port)), rs, ps).await })));
            }
            let mut out = Vec::new();
            for (port, h) in hs {
                out.push((port, h.await.ok()));
            }
            out
        });
        let what = if round == 1 { "96 concurrent accepts while another party uses the shared bpf object" } else { "96 concurrent accepts" };
        for (port, c) in ctxs.iter() {
            l.n.set(l.n.get() + 1);
            let want = recs.get(&[TCP, *port as u32]);
            match c {
                Some(c) if ctx_ok(c, *port, want) => {}
                Some(c) => l.fail(serde_json::json!({"property": "C07", "case": what, "accepted_source_port": port, "kernel_record_for_that_port": want.map(|r| r.json()), "got_context": ctx_json(c), "want": "exactly the identity and destination of that record"})),
                None => l.fail(serde_json::json!({"property": "C07", "case": what, "accepted_source_port": port, "got": "the accept task panicked"})),
            }
            model.remove(&[TCP, *port as u32]);
        }
        l.n.set(l.n.get() + 1);
        let after = l.kernel.snapshot();
        if after != model {
            let stale: Vec<u32> = after.keys().filter(|k| !model.contains_key(*k)).map(|k| k[1]).take(10).collect();
            l.fail(serde_json::json!({"property": "C07", "case": what, "got_map_after": vx_map_json(&after), "source_ports_whose_record_was_not_consumed": stale,
                "want": "all 96 records consumed, the unrelated record untouched"}));
        }
        // the ports come again, no fresh records (whatever is left in the map is what the agent failed to consume)
        for i in 0..count {
            let port = base + i;
            l.n.set(l.n.get() + 1);
            let c = l.accept(port);
            if !ctx_ok(&c, port, None) {
                l.fail(serde_json::json!({"property": "C07", "case": format!("{}; then the same source port again without a fresh record", what), "accepted_source_port": port, "got_context": ctx_json(&c),
                    "want": "no claims and no destination: the earlier record was consumed by the earlier connection"}));
            }
        }
        if let Some(c) = contender {
            let holds = c.stop();
            println!("VXW-NOTE contender followed the accept path {} times", holds);
        }
    }

    // ---- F: the bpf object goes away (redirector stopped) and comes back: records are not remembered anywhere else
    {
        l.kernel.clear();
        let r = callers[0];
        l.kernel.put(0x1234, &r);
        let rs = l.shared.get_redirector_shared_state();
        let _ = l.rt.block_on(rs.clear_bpf_object());
        l.n.set(l.n.get() + 1);
        let c = l.accept(0x1234);
        if !ctx_ok(&c, 0x1234, None) {
            l.fail(serde_json::json!({"property": "C07", "case": "bpf object cleared", "accepted_source_port": 0x1234, "got_context": ctx_json(&c), "want": "no claims and no destination"}));
        }
        let _ = l.rt.block_on(rs.update_bpf_object(l.bpf.clone()));
        let mut model = BTreeMap::new();
        let mut recs = BTreeMap::new();
        model.insert([TCP, 0x1234], r.raw());
        recs.insert([TCP, 0x1234], r);
        l.accept_checked("bpf object back", "K(p) [object cleared] C(p) [object back] C(p)", 0x1234, &mut model, &recs);
        l.accept_checked("bpf object back", "K(p) [object cleared] C(p) [object back] C(p) C(p)", 0x1234, &mut model, &recs);
    }

    // ---- G: the record cannot be deleted (map frozen for user space; lookups still work). Outside what the statement's
    //         mechanism assumes ("remove does not fail while the object is loaded"), executed to document what happens.
    if let Some((k2, obj2)) = vx_new_kernel_map() {
        let r = callers[0];
        let p = 0x1234u16;
        if k2.put(p, &r) && k2.freeze() {
            let rs = l.shared.get_redirector_shared_state();
            let _ = l.rt.block_on(rs.update_bpf_object(obj2.clone()));
            let c1 = l.accept(p);
            let c2 = l.accept(p);
            let _ = l.rt.block_on(rs.update_bpf_object(l.bpf.clone()));
            let first_ok = ctx_ok(&c1, p, Some(&r)) || ctx_ok(&c1, p, None);
            let second_unattributed = ctx_ok(&c2, p, None);
            if !(first_ok && second_unattributed) {
                let v = serde_json::json!({"property": "C07", "case": "remove-fails-record-kept", "history": "K(p,root) [map frozen: delete fails] C(p) C(p)",
                    "got": {"first": ctx_json(&c1), "second": ctx_json(&c2), "record_still_present": k2.get(p).is_some()},
                    "want": "the second connection from p (no fresh record) is unattributed"});
                if KNOWN_DEVIATIONS.contains(&"remove-fails-record-kept") {
                    println!("VXW-NOTE known deviation (not counted): {}", v);
                } else {
                    l.fail(v);
                }
            }
        } else {
            println!("VXW-NOTE the kernel does not freeze maps: case G skipped");
        }
    }

    l.kernel.clear();
    if l.fails.get() > 40 {
        println!("VXW-NOTE {} failing cases, 40 shown", l.fails.get());
    }
    println!("VXW-DONE {}", l.n.get());
    l.shared.cancel_cancellation_token();
    let L1 { rt, .. } = l;
    rt.shutdown_timeout(Duration::from_secs(1));
}

#[test]
fn console_vxw_c07_ctx() {
    // own thread: the private network namespace must not leak into other tests of this process
    std::thread::spawn(run_ctx).join().expect("witness thread");
}
