// Witness generator for C07 (attribution is single-use), listener level. Compiled into the real crate as a child module of
// proxy_agent/src/proxy/proxy_server.rs but uses only public items: the REAL ProxyServer::new(..).start() (real listener, real
// accept loop, real per-connection service closure, real request handler, real upstream connection to the recorded original
// destination), the real shared-state actors and a real redirector::BpfObject around a real kernel map (kernel stand-in: see
// c07_common.inc.rs). Clients are raw sockets bound to chosen source ports on loopback, the metadata hosts are two mock servers
// on different loopback addresses/ports that echo which host was reached and the caller-claims header that arrived.
// The context-level companion (all fields of the attribution, whole-map postcondition, exhaustive short histories) is C07_ctx.rs.
//
// ORACLE (from the statement; M = the kernel's record map keyed by {TCP, source port}):
//   a connection accepted from source port p while M[p] = r
//       -> EVERY request on it is forwarded to r's original destination (and to no other host) with r's elevation claim,
//          for the whole life of the connection, whatever happens to M or to other connections meanwhile;
//          the record is consumed at accept: M no longer contains p once the connection is being served; no other record is touched;
//   a connection accepted from p while p is not in M (direct connection, source port reused without a fresh record, record only
//   for a neighbouring / byte-swapped port or another protocol)
//       -> every request on it is refused (4xx/5xx) and reaches no host; M is unchanged; a record written later does not
//          attribute it retroactively.
#![allow(dead_code, unused_imports, clippy::all)]
include!("/verif/witness/c07_common.inc.rs");

use crate::proxy::proxy_server::ProxyServer;
use crate::shared_state::SharedState;
use std::sync::atomic::{AtomicU64, Ordering};

#[derive(Clone, Copy, Debug)]
enum Want {
    Served(&'static str, bool), // (host that must answer, elevation claim that must arrive there)
    Refused,                    // unattributed: refused, nothing reaches any host
    Undeliverable,              // attributed, but nothing listens at the recorded destination: an error, nothing reaches any host
}

struct L2 {
    kernel: Option<KernelMap>,
    proxy: SocketAddrV4,
    hosts: Vec<Host>,
    private: bool,
    n: AtomicU64,
    fails: AtomicU64,
    seq: AtomicU64,
}

impl L2 {
    fn k(&self) -> &KernelMap {
        self.kernel.as_ref().unwrap()
    }
    fn fail(&self, v: serde_json::Value) {
        if self.fails.fetch_add(1, Ordering::SeqCst) < 40 {
            vx_fail(v);
        }
    }
    fn host(&self, name: &str) -> &Host {
        self.hosts.iter().find(|h| h.name == name).unwrap()
    }
    fn rec(&self, uid: u32, pid: u32, is_root: u32, host: &str) -> Rec {
        let a = self.host(host).addr;
        Rec { uid, pid, is_root, dst: *a.ip(), dport: a.port() }
    }
    /// source port to ask for: fixed ports only inside the private namespace
    fn src(&self, fixed: u16) -> u16 {
        if self.private {
            fixed
        } else {
            0
        }
    }
    /// bind the client socket; the hook's record (if any) is written when the source port is known, then the socket connects
    fn open_with(&self, src_port: u16, before_connect: &dyn Fn(u16)) -> Result<Client, String> {
        let b = BoundSock::bind_retry(Ipv4Addr::LOCALHOST, src_port).map_err(|e| format!("bind 127.0.0.1:{}: {}", src_port, e))?;
        before_connect(b.port);
        b.connect(self.proxy).map_err(|e| format!("connect to the proxy listener: {}", e))
    }
    fn open(&self, src_port: u16, rec: Option<&Rec>) -> Result<Client, String> {
        self.open_with(src_port, &|p| {
            if let Some(r) = rec {
                self.k().put(p, r);
            }
        })
    }

    /// one request on the connection, compared with what the statement demands for this connection
    fn request(&self, what: &str, history: &str, c: &mut Client, want: Want) -> bool {
        self.n.fetch_add(1, Ordering::SeqCst);
        let target = format!("/c07/{}", self.seq.fetch_add(1, Ordering::SeqCst));
        let r = c.get(&target);
        // who saw this request (a refused request must not reach anybody, a served one exactly its host)
        let mut seen: Vec<(String, String)> = Vec::new();
        for h in self.hosts.iter() {
            for (t, claims) in h.seen.lock().unwrap().iter() {
                if *t == target {
                    seen.push((h.name.to_string(), claims.clone()));
                }
            }
        }
        let ok = match (&want, &r) {
            (Want::Served(host, elevated), Ok(resp)) => {
                let claim_ok = |s: &str| s.contains(if *elevated { "true" } else { "false" }) && !s.contains(if *elevated { "false" } else { "true" });
                resp.status == 200
                    && resp.body.contains(&format!("host={}|", host))
                    && resp.body.contains(&format!("target={}|", target))
                    && seen.len() == 1
                    && seen[0].0 == *host
                    && claim_ok(&seen[0].1)
            }
            (Want::Refused, Ok(resp)) => resp.status >= 400 && seen.is_empty(),
            (Want::Undeliverable, Ok(resp)) => resp.status >= 500 && seen.is_empty(),
            (_, Err(_)) => false,
        };
        if !ok {
            self.fail(serde_json::json!({"property": "C07", "case": what, "history": history, "client_source_port": c.port, "request": target,
                "got": {"response": r.as_ref().ok().map(|x| serde_json::json!({"status": x.status, "body": x.body})), "error": r.as_ref().err(), "request_seen_by": seen},
                "want": match want {
                    Want::Served(h, e) => format!("200 from host {} only, with the elevation claim {} of the record stored for this connection", h, e),
                    Want::Refused => "refused (no kernel record belongs to this connection), seen by no host".to_string(),
                    Want::Undeliverable => "an error status (nothing listens at the recorded destination), seen by no host".to_string(),
                }}));
        }
        ok
    }

    /// the record of an accepted connection must be gone (the connection has already been answered when this is called)
    fn consumed(&self, what: &str, history: &str, port: u16) -> bool {
        self.n.fetch_add(1, Ordering::SeqCst);
        if let Some(v) = self.k().get(port) {
            self.fail(serde_json::json!({"property": "C07", "case": what, "history": history, "client_source_port": port,
                "got": {"record_still_in_the_kernel_map": v}, "want": "the record was consumed when the connection was accepted"}));
            self.k().del_raw([TCP, port as u32]);
            return false;
        }
        true
    }

    fn others_intact(&self, what: &str, history: &str, port: u16, others: &BTreeMap<[u32; 2], [u32; 5]>) {
        self.n.fetch_add(1, Ordering::SeqCst);
        for (k, v) in others.iter() {
            let got = self.k().get_raw(*k);
            if got != Some(*v) {
                self.fail(serde_json::json!({"property": "C07", "case": what, "history": history, "client_source_port": port,
                    "got": {"unrelated_record": {"protocol": k[0], "source_port": k[1]}, "now": got}, "want": "records of other ports / protocols are not touched by this connection"}));
                return;
            }
        }
    }

    /// records around a port: neighbours, byte-swapped, usual fixed ports, same number under UDP
    fn surround(&self, p: u16) -> BTreeMap<[u32; 2], [u32; 5]> {
        let mut m = BTreeMap::new();
        let pp = p as u32;
        let trap = self.rec(0, 4242, 1, "H1"); // a root caller: borrowing any of these is an elevation
        for q in [pp ^ 1, pp.wrapping_sub(1), pp + 1, p.swap_bytes() as u32, 0, 80, 3080, 8080] {
            if q != pp && q <= 65535 {
                m.insert([TCP, q], trap.raw());
            }
        }
        m.insert([UDP, pp], trap.raw());
        for (k, v) in m.iter() {
            self.k().put_raw(*k, *v);
        }
        m
    }
}

fn user_name(uid: u32) -> Option<String> {
    unsafe {
        let p = libc::getpwuid(uid);
        if p.is_null() || (*p).pw_name.is_null() {
            return None;
        }
        Some(std::ffi::CStr::from_ptr((*p).pw_name).to_string_lossy().to_string())
    }
}

fn free_port() -> u16 {
    std::net::TcpListener::bind("127.0.0.1:0").and_then(|l| l.local_addr()).map(|a| a.port()).unwrap_or(38080)
}

fn run_listener() {
    vx_ensure_config();
    let private = vx_private_netns();
    if !private {
        println!("VXW-NOTE no private network namespace: source ports are chosen by the OS");
    }
    let rt = tokio::runtime::Builder::new_multi_thread().worker_threads(4).enable_all().build().unwrap();
    let shared = rt.block_on(async { SharedState::start_all() });
    let rs = shared.get_redirector_shared_state();
    let installed = vx_install_kernel_map(&rt, &rs);
    let (kernel, bpf) = match installed {
        Some((k, b)) => (Some(k), Some(b)),
        None => (None, None),
    };

    let mut hosts = Vec::new();
    for (name, ip, port) in [("H1", Ipv4Addr::new(127, 0, 0, 1), 80u16), ("H2", Ipv4Addr::new(127, 9, 8, 7), 0x1234u16)] {
        let mut h = None;
        for _ in 0..20 {
            match Host::start(name, ip, if private { port } else { 0 }) {
                // a port whose two bytes differ, so that a missing byte order conversion cannot go unnoticed
                Ok(x) if x.addr.port().swap_bytes() != x.addr.port() => {
                    h = Some(x);
                    break;
                }
                _ => {}
            }
        }
        hosts.push(h.expect("mock host"));
    }

    let proxy_port = if private { crate::common::constants::PROXY_AGENT_PORT } else { free_port() };
    let proxy = SocketAddrV4::new(Ipv4Addr::LOCALHOST, proxy_port);
    let server = ProxyServer::new(proxy_port, &shared);
    rt.spawn(async move { server.start().await });
    if !vx_wait_until(Duration::from_secs(8), || std::net::TcpStream::connect(proxy).is_ok()) {
        println!("VXW-NOTE the proxy listener did not come up on {}", proxy);
    }

    let l = L2 { kernel, proxy, hosts, private, n: AtomicU64::new(0), fails: AtomicU64::new(0), seq: AtomicU64::new(1) };
    let me = std::process::id();

    // ---- S0: direct connections (no record at all; also with no bpf object)
    for _ in 0..3 {
        match l.open(0, None) {
            Ok(mut c) => {
                l.request("direct connection, empty map", "C(p)", &mut c, Want::Refused);
                l.request("direct connection, empty map, second request", "C(p)", &mut c, Want::Refused);
            }
            Err(e) => l.fail(serde_json::json!({"property": "C07", "case": "direct connection", "got": e})),
        }
    }
    if l.kernel.is_none() {
        println!("VXW-NOTE only direct connections were executed (no kernel map)");
        println!("VXW-DONE {}", l.n.load(Ordering::SeqCst));
        shared.cancel_cancellation_token();
        rt.shutdown_timeout(Duration::from_secs(1));
        return;
    }

    // callers: (record, what must be observed)
    let callers: Vec<(Rec, Want)> = vec![
        (l.rec(0, me, 1, "H1"), Want::Served("H1", true)),
        (l.rec(1000, me, 0, "H2"), Want::Served("H2", false)),
        (l.rec(0, 0x0A0B0C0D, 1, "H2"), Want::Served("H2", true)),
        (l.rec(0x01020304, 1, 0, "H1"), Want::Served("H1", false)),
        // flag values the hook never writes: only the exact root value elevates
        (l.rec(1000, me, 2, "H2"), Want::Served("H2", false)),
        (l.rec(1000, me, 0xFFFFFFFF, "H1"), Want::Served("H1", false)),
    ];
    let ports: Vec<u16> = vec![0x1234, 0x3412, 1, 255, 256, 257, 3081, 8080, 8081, 0x7fff, 0x8000, 0xff00, 0xffff];

    // ---- S1: record only for neighbouring / byte-swapped / fixed ports and for UDP: unattributed, and the records stay
    for &p in ports.iter() {
        l.k().clear();
        let others = std::cell::RefCell::new(BTreeMap::new());
        match l.open_with(l.src(p), &|port| *others.borrow_mut() = l.surround(port)) {
            Ok(mut c) => {
                let h = "records exist for p^1, p-1, p+1, byteswap(p), 0, 80, 3080, 8080 and for UDP p; C(p)";
                l.request("no record for this source port", h, &mut c, Want::Refused);
                l.others_intact("no record for this source port", h, c.port, &others.borrow());
            }
            Err(e) => l.fail(serde_json::json!({"property": "C07", "case": "no record for this source port", "source_port": p, "got": e})),
        }
    }

    // ---- S2: source port x caller: keep-alive requests, record consumed, others intact, reuse without and with a fresh record
    for (i, &p) in ports.iter().enumerate() {
        for j in 0..2 {
            let (r, want) = callers[(i * 2 + j) % callers.len()];
            let (r2, want2) = callers[(i * 2 + j + 1) % callers.len()];
            l.k().clear();
            let others = std::cell::RefCell::new(BTreeMap::new());
            let h = format!("K(p, uid {} pid {} is_root {} dest {}:{}) C(p)", r.uid, r.pid, r.is_root, r.dst, r.dport);
            let port;
            match l.open_with(l.src(p), &|port| {
                *others.borrow_mut() = l.surround(port);
                l.k().put(port, &r);
            }) {
                Ok(mut c) => {
                    port = c.port;
                    l.request("attributed connection", &h, &mut c, want);
                    l.consumed("attributed connection", &h, port);
                    l.request("attributed connection, second request (keep-alive)", &h, &mut c, want);
                    l.others_intact("attributed connection", &h, port, &others.borrow());
                    drop(c);
                }
                Err(e) => {
                    l.fail(serde_json::json!({"property": "C07", "case": "attributed connection", "source_port": p, "got": e}));
                    continue;
                }
            }
            // the records of the other ports are removed: only what THIS port left behind can attribute the next connection
            let h2 = format!("{} close; C(p) again without a fresh record", h);
            match l.open(port, None) {
                Ok(mut c) => {
                    l.request("source port reused without a fresh record", &h2, &mut c, Want::Refused);
                    l.others_intact("source port reused without a fresh record", &h2, port, &others.borrow());
                }
                Err(e) => l.fail(serde_json::json!({"property": "C07", "case": "source port reused", "source_port": port, "got": e})),
            }
            let h3 = format!("{} close; C(p); close; K(p, uid {} is_root {} dest {}:{}) C(p)", h, r2.uid, r2.is_root, r2.dst, r2.dport);
            match l.open(port, Some(&r2)) {
                Ok(mut c) => {
                    l.request("source port reused with a fresh record of another caller", &h3, &mut c, want2);
                    l.consumed("source port reused with a fresh record of another caller", &h3, port);
                }
                Err(e) => l.fail(serde_json::json!({"property": "C07", "case": "source port reused", "source_port": port, "got": e})),
            }
        }
    }
    l.k().clear();

    // ---- S3: two live connections from adjacent ports with swapped identities, interleaved requests, one of them replaced
    for &(base, order) in [(0x1234u16, 0u8), (0x2200, 1), (0x80fe, 0), (0x80fe, 1)].iter() {
        let (ra, wa) = callers[0]; // root -> H1
        let (rb, wb) = callers[1]; // user -> H2
        let (rc, wc) = callers[3]; // other user -> H1
        // two adjacent ports p, q = p^1
        let (mut cp, mut cq);
        let h = "K(p,root->H1) K(q,user->H2), q = p^1, both connections alive";
        if l.private {
            let (p, q) = (base, base ^ 1);
            l.k().put(p, &ra);
            l.k().put(q, &rb);
            let first = l.open(if order == 0 { p } else { q }, None);
            let second = l.open(if order == 0 { q } else { p }, None);
            let (a, b) = match (first, second) {
                (Ok(a), Ok(b)) => (a, b),
                _ => {
                    l.fail(serde_json::json!({"property": "C07", "case": "adjacent ports", "got": "cannot open the client connections"}));
                    continue;
                }
            };
            if order == 0 {
                cp = a;
                cq = b;
            } else {
                cp = b;
                cq = a;
            }
        } else {
            // OS-chosen p, then its neighbour if it is free
            let bp = match BoundSock::bind(Ipv4Addr::LOCALHOST, 0) {
                Ok(b) => b,
                Err(_) => continue,
            };
            let bq = match BoundSock::bind(Ipv4Addr::LOCALHOST, bp.port ^ 1) {
                Ok(b) => b,
                Err(_) => continue,
            };
            l.k().put(bp.port, &ra);
            l.k().put(bq.port, &rb);
            let (a, b) = if order == 0 {
                let a = bp.connect(l.proxy);
                (a, bq.connect(l.proxy))
            } else {
                let b = bq.connect(l.proxy);
                (bp.connect(l.proxy), b)
            };
            match (a, b) {
                (Ok(a), Ok(b)) => {
                    cp = a;
                    cq = b;
                }
                _ => continue,
            }
        }
        for _ in 0..3 {
            l.request("adjacent source ports, swapped identities", h, &mut cp, wa);
            l.request("adjacent source ports, swapped identities", h, &mut cq, wb);
        }
        l.consumed("adjacent source ports", h, cp.port);
        l.consumed("adjacent source ports", h, cq.port);
        let p = cp.port;
        drop(cp);
        let h2 = "K(p,root->H1) K(q,user->H2) C(p) C(q) close(p) C(p) while the connection from q is still alive";
        match l.open(p, None) {
            Ok(mut c) => {
                l.request("source port reused without a fresh record, neighbour alive", h2, &mut c, Want::Refused);
                l.request("the neighbour keeps its own identity", h2, &mut cq, wb);
            }
            Err(e) => l.fail(serde_json::json!({"property": "C07", "case": "adjacent ports", "got": e})),
        }
        let h3 = "... close(p) K(p,other user->H1) C(p) while the connection from q is still alive";
        match l.open(p, Some(&rc)) {
            Ok(mut c) => {
                l.request("source port reused with a fresh record, neighbour alive", h3, &mut c, wc);
                l.request("the neighbour keeps its own identity", h3, &mut cq, wb);
                l.request("source port reused with a fresh record, neighbour alive", h3, &mut c, wc);
            }
            Err(e) => l.fail(serde_json::json!({"property": "C07", "case": "adjacent ports", "got": e})),
        }
    }
    l.k().clear();

    // ---- S4: the identity is fixed at accept: records written LATER for the same port number neither attribute an unattributed
    //          connection nor replace the identity of an attributed one, and they are left for the connection they belong to
    {
        let (ra, wa) = callers[3]; // user -> H1
        let (rb, wb) = callers[2]; // root -> H2
        match l.open(l.src(0x4321), None) {
            Ok(mut c) => {
                let p = c.port;
                let h = "C(p) K(p,root->H2) requests on the old connection";
                l.request("unattributed connection", h, &mut c, Want::Refused);
                l.k().put(p, &rb);
                l.request("unattributed connection, a record for its port number appears later", h, &mut c, Want::Refused);
                l.n.fetch_add(1, Ordering::SeqCst);
                if l.k().get(p) != Some(rb.raw()) {
                    l.fail(serde_json::json!({"property": "C07", "case": "unattributed connection, a record for its port number appears later", "history": h, "client_source_port": p,
                        "got": "the later record was consumed/changed by a request of the old connection", "want": "records are consumed by the accept of the connection they belong to"}));
                }
                drop(c);
                match l.open(p, None) {
                    Ok(mut c2) => {
                        l.request("the connection the later record belongs to", "C(p) K(p,root->H2) close C(p)", &mut c2, wb);
                        l.consumed("the connection the later record belongs to", "C(p) K(p,root->H2) close C(p)", p);
                        // now the other way round: attributed as root->H2, later record says user->H1
                        l.k().put(p, &ra);
                        let h = "K(p,root->H2) C(p) K(p,user->H1) requests on the old connection";
                        l.request("attributed connection, another record for its port number appears later", h, &mut c2, wb);
                        l.request("attributed connection, another record for its port number appears later", h, &mut c2, wb);
                        l.n.fetch_add(1, Ordering::SeqCst);
                        if l.k().get(p) != Some(ra.raw()) {
                            l.fail(serde_json::json!({"property": "C07", "case": "attributed connection, another record for its port number appears later", "history": h, "client_source_port": p,
                                "got": "the later record was consumed/changed by a request of the old connection", "want": "records are consumed by the accept of the connection they belong to"}));
                        }
                        drop(c2);
                        match l.open(p, None) {
                            Ok(mut c3) => {
                                l.request("the connection the later record belongs to", "K(p,root->H2) C(p) K(p,user->H1) close C(p)", &mut c3, wa);
                                l.consumed("the connection the later record belongs to", "K(p,root->H2) C(p) K(p,user->H1) close C(p)", p);
                            }
                            Err(e) => l.fail(serde_json::json!({"property": "C07", "case": "later record", "got": e})),
                        }
                    }
                    Err(e) => l.fail(serde_json::json!({"property": "C07", "case": "later record", "got": e})),
                }
            }
            Err(e) => l.fail(serde_json::json!({"property": "C07", "case": "later record", "got": e})),
        }
        // the hook overwrites a record that was never used (connect() failed before reaching the proxy): the latest one counts
        let b = BoundSock::bind_retry(Ipv4Addr::LOCALHOST, l.src(0x4323));
        if let Ok(b) = b {
            l.k().put(b.port, &rb);
            l.k().put(b.port, &ra);
            if let Ok(mut c) = b.connect(l.proxy) {
                l.request("record overwritten before the accept", "K(p,root->H2) K(p,user->H1) C(p)", &mut c, wa);
                l.consumed("record overwritten before the accept", "K(p,root->H2) K(p,user->H1) C(p)", c.port);
            }
        }
    }
    l.k().clear();

    // ---- S5: the connection is accepted but never sends a request / nothing listens at the recorded destination:
    //          the record is consumed all the same
    {
        let (ra, _) = callers[0];
        match l.open(l.src(0x5150), Some(&ra)) {
            Ok(c) => {
                let p = c.port;
                l.n.fetch_add(1, Ordering::SeqCst);
                if !vx_wait_until(Duration::from_secs(5), || l.k().get(p).is_none()) {
                    l.fail(serde_json::json!({"property": "C07", "case": "accepted connection that sends nothing", "history": "K(p,root->H1) C(p), 5 s", "client_source_port": p,
                        "got": "record still in the kernel map", "want": "the record is consumed when the connection is accepted"}));
                    l.k().del_raw([TCP, p as u32]);
                }
                drop(c);
                if let Ok(mut c2) = l.open(p, None) {
                    l.request("source port reused after a silent connection", "K(p,root->H1) C(p) close C(p)", &mut c2, Want::Refused);
                }
            }
            Err(e) => l.fail(serde_json::json!({"property": "C07", "case": "silent connection", "got": e})),
        }
        let dead_port = if l.private { 9 } else { free_port() };
        let dead = Rec { uid: 0, pid: me, is_root: 1, dst: Ipv4Addr::new(127, 0, 0, 1), dport: dead_port };
        match l.open(l.src(0x5152), Some(&dead)) {
            Ok(mut c) => {
                let p = c.port;
                let h = "K(p,root->closed port) C(p)";
                l.request("nothing listens at the recorded destination", h, &mut c, Want::Undeliverable);
                l.consumed("nothing listens at the recorded destination", h, p);
                drop(c);
                if let Ok(mut c2) = l.open(p, None) {
                    l.request("source port reused after an undeliverable connection", "K(p,root->closed port) C(p) close C(p)", &mut c2, Want::Refused);
                }
            }
            Err(e) => l.fail(serde_json::json!({"property": "C07", "case": "undeliverable", "got": e})),
        }
    }
    l.k().clear();

    // ---- S6/S7: many connections opened at the same time from consecutive ports with alternating callers, three keep-alive
    //             requests each; then every port again without a fresh record. Second and third round: another party uses the
    //             shared bpf object at the same time (lock contention); third round sequential.
    for round in 0..3 {
        let contender = if round >= 1 { bpf.clone().map(|b| vx_start_contender(b, Duration::from_micros(600))) } else { None };
        let what = match round {
            0 => "48 connections at the same time",
            1 => "48 connections at the same time while another party uses the shared bpf object",
            _ => "40 connections one after the other while another party uses the shared bpf object",
        };
        let count: usize = if round == 2 { 40 } else { 48 };
        let barrier = std::sync::Barrier::new(if round == 2 { 1 } else { count });
        let used: StdMutex<Vec<u16>> = StdMutex::new(Vec::new());
        let job = |i: usize| {
            let (r, want) = callers[i % 4];
            let b = BoundSock::bind_retry(Ipv4Addr::LOCALHOST, l.src(0x6000 + (round as u16) * 0x100 + i as u16));
            let b = match b {
                Ok(b) => b,
                Err(e) => {
                    barrier.wait();
                    l.fail(serde_json::json!({"property": "C07", "case": what, "got": format!("bind: {}", e)}));
                    return;
                }
            };
            let p = b.port;
            used.lock().unwrap().push(p);
            l.k().put(p, &r);
            barrier.wait();
            match b.connect(l.proxy) {
                Ok(mut c) => {
                    let h = format!("K(p_i, caller i mod 4) for all i, then all C(p_i) together; this is i = {}", i);
                    for _ in 0..3 {
                        if !l.request(what, &h, &mut c, want) {
                            break;
                        }
                    }
                    l.consumed(what, &h, p);
                }
                Err(e) => l.fail(serde_json::json!({"property": "C07", "case": what, "got": format!("connect: {}", e)})),
            }
        };
        if round == 2 {
            for i in 0..count {
                job(i);
            }
        } else {
            std::thread::scope(|s| {
                for i in 0..count {
                    let job = &job;
                    s.spawn(move || job(i));
                }
            });
        }
        let used = used.into_inner().unwrap();
        for &p in used.iter() {
            match l.open(p, None) {
                Ok(mut c) => {
                    l.request(&format!("{}; then the same source port again without a fresh record", what), "K(p) C(p) close C(p)", &mut c, Want::Refused);
                }
                Err(e) => l.fail(serde_json::json!({"property": "C07", "case": what, "got": e})),
            }
        }
        if let Some(c) = contender {
            println!("VXW-NOTE round {}: contender followed the accept path {} times", round, c.stop());
        }
        l.k().clear();
    }

    // ---- S9: the client gives up right after connect(): RST at once (SO_LINGER 0 close; the connection is reset while it still
    //          waits in the listener's queue), RST after 1 ms, orderly FIN without a request. The kernel wrote a record for each of
    //          these connections; the proxy accepts them all the same, so the record must be consumed, and the source port, used
    //          again without a fresh record, must be refused. Batches of 4 connections so that some are still queued when reset.
    for (vi, variant) in ["reset at once", "reset after 1 ms", "FIN without a request"].iter().enumerate() {
        for ci in 0..3usize {
            let (r, _) = callers[ci];
            let mut socks = Vec::new();
            for k in 0..4u16 {
                match BoundSock::bind_retry(Ipv4Addr::LOCALHOST, l.src(0x9a01 + (vi as u16) * 0x100 + (ci as u16) * 0x10 + k)) {
                    Ok(b) => socks.push(b),
                    Err(e) => l.fail(serde_json::json!({"property": "C07", "case": "client gives up right after connect", "got": format!("bind: {}", e)})),
                }
            }
            for b in socks.iter() {
                l.k().put(b.port, &r);
            }
            let mut ports = Vec::new();
            for b in socks {
                let p = b.port;
                match b.connect(l.proxy) {
                    Ok(c) => {
                        match vi {
                            0 => drop(c),
                            1 => {
                                std::thread::sleep(Duration::from_millis(1));
                                drop(c)
                            }
                            _ => c.close_fin(),
                        }
                        ports.push(p);
                    }
                    Err(e) => {
                        l.k().del_raw([TCP, p as u32]);
                        l.fail(serde_json::json!({"property": "C07", "case": "client gives up right after connect", "got": format!("connect: {}", e)}));
                    }
                }
            }
            for p in ports {
                let what = format!("client gives up right after connect ({})", variant);
                let h = format!("K(p, uid {} is_root {} dest {}:{}) C(p) {}", r.uid, r.is_root, r.dst, r.dport, variant);
                l.n.fetch_add(1, Ordering::SeqCst);
                if !vx_wait_until(Duration::from_secs(3), || l.k().get(p).is_none()) {
                    l.fail(serde_json::json!({"property": "C07", "case": what, "history": h, "client_source_port": p,
                        "got": "record still in the kernel map 3 s later", "want": "the record is consumed when the connection is accepted"}));
                }
                // whatever the proxy left in the map is what the next connection from this port meets
                match l.open(p, None) {
                    Ok(mut c) => {
                        l.request(&format!("source port reused without a fresh record after: {}", what), &format!("{}; C(p)", h), &mut c, Want::Refused);
                    }
                    Err(e) if vi == 2 && (e.contains("os error 99") || e.contains("annot assign")) => {
                        println!("VXW-NOTE source port {} still in TIME_WAIT after the FIN close: reuse not checked", p);
                    }
                    Err(e) => l.fail(serde_json::json!({"property": "C07", "case": what, "got": e})),
                }
                l.k().del_raw([TCP, p as u32]);
            }
        }
    }
    l.k().clear();

    // ---- S8: what the agent reports about the served connections (status summary): user and destination of the records
    {
        let other_uid = [1u32, 2, 65534].into_iter().find(|u| user_name(*u).is_some());
        if let (Some(root_name), Some(ou)) = (user_name(0), other_uid) {
            let other_name = user_name(ou).unwrap();
            let st = shared.get_agent_status_shared_state();
            let _ = rt.block_on(st.clear_all_summary());
            let ra = l.rec(0, me, 1, "H1");
            let rb = l.rec(ou, me, 0, "H2");
            let mut served = 0;
            if let Ok(mut c) = l.open(l.src(0x7001), Some(&ra)) {
                for _ in 0..2 {
                    served += l.request("status summary", "K(p,root->H1) C(p)", &mut c, Want::Served("H1", true)) as u32;
                }
            }
            if let Ok(mut c) = l.open(l.src(0x7002), Some(&rb)) {
                for _ in 0..3 {
                    served += l.request("status summary", "K(q,other->H2) C(q)", &mut c, Want::Served("H2", false)) as u32;
                }
            }
            if let Ok(mut c) = l.open(l.src(0x7001), None) {
                l.request("status summary", "C(p) without record", &mut c, Want::Refused);
            }
            l.n.fetch_add(1, Ordering::SeqCst);
            if served == 5 {
                let sums = rt.block_on(st.get_all_connection_summary()).unwrap_or_default();
                let mut got: BTreeMap<(String, String, u16), u64> = BTreeMap::new();
                for s in sums.iter().filter(|s| s.responseStatus.starts_with("200")) {
                    *got.entry((s.userName.clone(), s.ip.clone(), s.port)).or_insert(0) += s.count;
                }
                let mut want: BTreeMap<(String, String, u16), u64> = BTreeMap::new();
                want.insert((root_name, ra.dst.to_string(), ra.dport), 2);
                want.insert((other_name, rb.dst.to_string(), rb.dport), 3);
                if got != want {
                    l.fail(serde_json::json!({"property": "C07", "case": "status summary of the served requests", "history": "K(p,uid 0->H1) C(p) 2 requests; K(q,other uid->H2) C(q) 3 requests; C(p) without record",
                        "got": format!("{:?}", got), "want": format!("{:?}", want)}));
                }
            }
        } else {
            println!("VXW-NOTE user names cannot be resolved here: status summary not checked");
        }
    }

    // ---- S10 (LAST: running out of descriptors has side effects that outlive it, e.g. a user-name lookup that failed with EMFILE is
    //      cached by the agent): the agent is out of file descriptors when a redirected connection arrives (a flood of local connections does that):
    //           accept() still gets the last free descriptor, but the socket cannot be duplicated for the service and the proxy
    //           drops the connection before it serves it. The kernel wrote a record for that connection and the proxy accepted it:
    //           the record must be consumed all the same, and its source port, used again without a fresh record, must be refused.
    for (ci, (r, _)) in callers.iter().take(2).enumerate() {
        let what = "connection accepted while the agent is out of file descriptors";
        let h = format!("K(p, uid {} is_root {} dest {}:{}) [descriptor table full but one] C(p) dropped by the proxy; C(p) again without record", r.uid, r.is_root, r.dst, r.dport);
        let b = match BoundSock::bind_retry(Ipv4Addr::LOCALHOST, l.src(0x9b01 + ci as u16)) {
            Ok(b) => b,
            Err(e) => {
                l.fail(serde_json::json!({"property": "C07", "case": what, "got": format!("bind: {}", e)}));
                continue;
            }
        };
        let p = b.port;
        l.k().put(p, r);
        // soft limit down to 512, fill the table, give back exactly one descriptor (the one accept() will take)
        let mut old: libc::rlimit = unsafe { std::mem::zeroed() };
        unsafe { libc::getrlimit(libc::RLIMIT_NOFILE, &mut old) };
        let low = libc::rlimit { rlim_cur: 512.min(old.rlim_max), rlim_max: old.rlim_max };
        unsafe { libc::setrlimit(libc::RLIMIT_NOFILE, &low) };
        let mut fill: Vec<i32> = Vec::new();
        loop {
            let fd = unsafe { libc::open(b"/dev/null\0".as_ptr() as *const libc::c_char, libc::O_RDONLY | libc::O_CLOEXEC) };
            if fd < 0 || fill.len() > 600 {
                break;
            }
            fill.push(fd);
        }
        if let Some(fd) = fill.pop() {
            unsafe { libc::close(fd) };
        }
        let conn = b.connect(l.proxy);
        std::thread::sleep(Duration::from_millis(400));
        for fd in fill {
            unsafe { libc::close(fd) };
        }
        unsafe { libc::setrlimit(libc::RLIMIT_NOFILE, &old) };
        match conn {
            Ok(mut c) => {
                let target = format!("/c07/{}", l.seq.fetch_add(1, Ordering::SeqCst));
                match c.get(&target) {
                    Ok(resp) => {
                        // the proxy managed to serve it (it was accepted only after the descriptors came back): nothing to observe here
                        println!("VXW-NOTE descriptor exhaustion did not hit the accept path this time (status {}): case not exercised", resp.status);
                        l.k().del_raw([TCP, p as u32]);
                        continue;
                    }
                    Err(_) => {} // dropped by the proxy without an answer: the path in question
                }
            }
            Err(e) => {
                l.k().del_raw([TCP, p as u32]);
                println!("VXW-NOTE connect under descriptor exhaustion failed ({}): case not exercised", e);
                continue;
            }
        }
        l.n.fetch_add(1, Ordering::SeqCst);
        if !vx_wait_until(Duration::from_secs(3), || l.k().get(p).is_none()) {
            l.fail(serde_json::json!({"property": "C07", "case": what, "history": h, "client_source_port": p,
                "got": {"record_still_in_the_kernel_map_3s_after_the_proxy_dropped_the_connection": l.k().get(p)},
                "want": "the record is consumed when the connection is accepted"}));
        }
        match l.open(p, None) {
            Ok(mut c) => {
                l.request(&format!("source port reused without a fresh record after: {}", what), &h, &mut c, Want::Refused);
            }
            Err(e) => println!("VXW-NOTE source port {} could not be reused ({}): reuse not checked", p, e),
        }
        l.k().del_raw([TCP, p as u32]);
    }
    l.k().clear();

    l.k().clear();
    let fails = l.fails.load(Ordering::SeqCst);
    if fails > 40 {
        println!("VXW-NOTE {} failing cases, 40 shown", fails);
    }
    println!("VXW-DONE {}", l.n.load(Ordering::SeqCst));
    shared.cancel_cancellation_token();
    rt.shutdown_timeout(Duration::from_secs(1));
}

#[test]
fn console_vxw_c07_listener() {
    // own thread: the private network namespace must not leak into other tests of this process
    std::thread::spawn(run_listener).join().expect("witness thread");
}
